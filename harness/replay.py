"""bin/check CNN --replay FILE : re-run one recorded witness against the real code and print what happens."""
import json


def main(pid, path):
    v = json.load(open(path))
    print("property %s  env %s  monitor %s  %s" % (v.get("property"), v.get("env"), v.get("monitor"), v.get("cls", "")))
    print("detail:", v.get("detail"))
    inst, actions = v.get("inst", {}), v.get("actions", [])
    from harness.envs import registry

    ad = next((a for a in registry.ALL if a.name == v.get("env") or a.tag == v.get("env")), None)
    if ad is None or "N" not in inst or not actions or not all(isinstance(a, int) for a in actions):
        print("witness:", json.dumps({"inst": inst, "actions": actions}, default=str)[:4000])
        if v.get("traceback"):
            print(v["traceback"])
        return 1
    from harness import driver

    seq = list(actions)
    env = ad.make_env(inst)
    td = env.reset(ad.to_td([inst]))
    print("instance:", json.dumps({k: x for k, x in inst.items() if k != "pts"}, default=str))
    print("step  action  offered?  mask-before")
    for t, a in enumerate(seq):
        m = driver.mask_list(td["action_mask"][0])
        print("%4d  %6d  %8s  %s" % (t, a, a in m, m))
        if a not in m:
            print("  -> action not offered by the real mask; stopping")
            break
        td.set("action", __import__("torch").tensor([a]))
        td = env.step(td)["next"]
    else:
        print("done:", bool(driver.done_of(td)[0]), " mask-after:", driver.mask_list(td["action_mask"][0]))
        try:
            sc = driver.score(ad, env, td, [seq], [ad.scale(inst)])
            print("reward (integer units 1/%s): %s   checker: %s" % (ad.scale(inst), sc[0][0], sc[0][1]))
        except Exception as e:
            print("reward/checker raised:", type(e).__name__, e)
    return 1
