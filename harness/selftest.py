"""bin/check selftest -- demonstrates that the trace specifications are BOUND to what was recorded:
real CVRP episodes are recorded, then one field of one record is corrupted at a time and TLC must reject exactly
that record (a FAIL monitor or a DRIFT line); the uncorrupted set must be accepted without any line."""
import copy
import json
import sys

from . import driver, pipeline
from .envs.cvrp import CVRP


def main():
    ad = CVRP()
    ad.tag = "selftest"
    fam = ad.family("quick", 0)[:12]
    eps = [pipeline._norm_pad(e, 0) for e in driver.bfs_real(ad, fam, pad_steps=2)]
    eps = eps[:60]
    base_f, base_d, ended, _ = pipeline.validate_traces(ad, eps, "selftest")
    ok = not base_f and not base_d and len(ended) == len(eps)
    print("uncorrupted: %d episodes, fails %d, drifts %d -> %s" % (len(eps), len(base_f), len(base_d), "accepted" if ok else "PROBLEM"))
    k = next(i for i, e in enumerate(eps) if len(e["a"]) >= 4)

    def corrupt(name, fn, expect):
        nonlocal ok
        c = copy.deepcopy(eps)
        fn(c[k])
        f, d, en, _ = pipeline.validate_traces(ad, c, "selftest")
        hit = {m for (i, m, s) in f if i == k} | ({"DRIFT"} if any(i == k for (i, s) in d) else set())
        others = [x for x in f if x[0] != k] + [x for x in d if x[0] != k]
        good = bool(hit & set(expect)) and not others
        ok = ok and good
        print("%-34s -> %s %s" % (name, sorted(hit), "rejected as expected" if good else "NOT REJECTED / collateral: %s" % others[:2]))

    corrupt("reward + 1 unit", lambda e: e.__setitem__("reward", e["reward"] + 1), ["C03"])
    corrupt("mask entry dropped after step 1", lambda e: e["mask"].__setitem__(1, e["mask"][1][1:]), ["DRIFT", "driver"])
    corrupt("done flag flipped at the end", lambda e: e["done"].__setitem__(len(e["done"]) - 1, False), ["DRIFT", "C02b", "C02c"])
    corrupt("action replaced by a visited node", lambda e: e["a"].__setitem__(2, e["a"][0]), ["C01", "driver", "DRIFT"])
    corrupt("one event removed", lambda e: (e["a"].pop(), e["mask"].pop(), e["done"].pop(), e["st"].pop()), ["C03", "C01", "DRIFT", "C02c"])
    corrupt("padding reward changed", lambda e: e["pad"].__setitem__("reward", e["pad"]["reward"] - 2), ["PadC04"])
    corrupt("projected state: used capacity + 1", lambda e: e["st"].__setitem__(1, dict(e["st"][1], used=e["st"][1]["used"] + 1)), ["DRIFT"])
    corrupt("checker verdict set to reject", lambda e: e.__setitem__("checker", "reject:AssertionError:x"), ["C06"])
    print("SELFTEST", "PASSED" if ok else "FAILED")
    return 0 if ok else 2


if __name__ == "__main__":
    sys.exit(main())
