"""Regenerates MANIFEST.json from the table below (keeps it schema-valid)."""
import json
import os

ROOT = os.path.dirname(os.path.dirname(os.path.abspath(__file__)))

ENV_NOTE = ("Trusted base: TLC 1.8.0; the problem definitions (PART 1 of spec/env/*.tla); the exact "
            "float32 embedding of integer instances; small-scope hypothesis (families listed in evidence).")

CLAIMED = {
    "C01": ("model_checking", "6", "TLA+ env models + TLC exhaustive; real-env BFS traces validated by TLC",
            "Every environment module is model-checked exhaustively by TLC against the problem definition "
            "(feasibility of every mask-admitted sequence) on a small-scope family; the real environment is expanded "
            "over its own mask on the same family and every episode is validated by TLC (M_C01) and compared with the model."),
    "C02": ("model_checking", "6", "TLA+ env models + TLC exhaustive; real-env BFS traces validated by TLC",
            "Non-empty masks (also while padding), monotone done and step bounds are TLC invariants of the model and "
            "TLC monitors over the exhaustive real-code expansion."),
    "C03": ("model_checking", "6", "TLC recomputes the objective of every real episode from the integer instance (Trace.tla.tmpl over spec/env/*.tla; DenseTSP.tla / DenseTrace for the step-wise reward of DenseRewardTSPEnv: step rewards telescope to the tour length)",
            "Reward of every real episode (exact embedding) must equal the TLA+ Objective of the executed sequence; "
            "TLC-generated feasible solutions are replayed and priced as well."),
    "C04": ("model_checking", "6", "BatchEq.tla: TLC validates real solo vs batched executions; padding monitors on real-env BFS traces; TSPBatch.tla (batch-global read); DenseTrace (step-wise rewards: padding reward 0, batch-mates irrelevant)",
            "Sampled real episodes are re-run solo (batch of one) and as rows of mixed batches (copies, unrelated instances, slower "
            "mates inducing padding); TLC checks step by step that masks, done flags and rewards coincide (BatchEq.tla) and that "
            "post-finish padding changes nothing (M_PadC04 on every episode of the exhaustive expansion)."),
    "C05": ("model_checking", "6", "TLC product of problem definition x model; replay of all feasible solutions into the real mask",
            "TLC enumerates every feasible non-pointless solution of the problem definition; each is replayed step by "
            "step into the real environment and every action must be offered by the real mask."),
    "C06": ("model_checking", "6", "TLC classifies candidate solutions by the problem definition; real checker compared",
            "All feasible solutions, hand-shaped variants, single-fault corruptions and (small N) all sequences are "
            "classified by TLC with the problem definition and fed to the real check_solution_validity."),
    "C07": ("model_checking", "6", "TLA+ scheduling modules (FJSP/JSSP/FFSP/SMTWTP): problem definition = schedule validity on final tensors; TLC exhaustive + real-env BFS traces validated by TLC; FJSPStepwise.tla (calc_lower_bound transcribed exactly; step rewards telescope to LB0 - makespan) with DenseSolo / DenseTrace and replay",
            "The scheduling environments are modelled as TLA+ state machines (time advance, waits, machine/job bookkeeping) and model-checked; the "
            "real environments are expanded over their own masks for small instance families and TLC validates every episode: the final "
            "start/finish/assignment tensors must form a valid schedule (each operation once, eligible machine, exact duration, job order, "
            "machine exclusivity) whose makespan is the reported reward; SMTWTP episodes are permutations without the dummy job."),
    "C08": ("model_checking", "6", "TLA+ selection modules (FLP/MCP/DPP/MDPP) with per-step bookkeeping monitors; TLC exhaustive + real-env BFS traces validated by TLC",
            "Quota, distinctness, forbidden items, finishing exactly at the quota and the bookkeeping shown to the policy (nearest-facility "
            "distances, uncovered weights) are TLC monitors over the exhaustive expansion of the real environments (mixed quotas per batch "
            "included) and invariants of the TLA+ models."),
    "C09": ("model_checking", "6", "Improve.tla (one batch row of TSPkoptEnv / PDPRuinRepairEnv: move operators, masks, best-so-far bookkeeping) TLC exhaustive; every state re-created in the real env; ImproveTrace.tla on long sampler / DACT / NeuOpt / N2S runs",
            "TLC exhaustively checks the TLA+ machine of the improvement environments (2-opt, k-opt k=3,4, ruin-repair; all initial tours of small n x all "
            "admitted moves x up to 3 moves, exact integer-distance instances) with C09's clauses as invariants; every explored state is re-created in the "
            "real environment and compared together with the real move masks; long runs of the environments' samplers and of DACT, NeuOpt and N2S "
            "(random weights) are validated step by step by ImproveTrace.tla (cycle, precedence, costs, best-so-far, rewards)."),
    "C10": ("model_checking", "6", "exact-arithmetic TLA+ model of the logits pipeline, TLC exhaustive; replay + TLC trace monitors on real process_logits",
            "Logits.tla (mask, temperature, top-k, top-p, normalise on integer weights) is model-checked for all weight vectors x masks x "
            "parameters of a small scope with the clauses of C10 as invariants; every terminal state is replayed into the real "
            "process_logits/greedy/sampling and random float executions are validated by LogitsTrace.tla."),
    "C19": ("model_checking", "6", "Persist.tla: two synchronised copies (original / restored) of each environment model under the persistence codecs, TLC exhaustive; replay into real restored objects; PersistTrace.tla on recorded round trips",
            "TLC model-checks the product of an environment's code-shaped model with its restored copy under the codecs (same / text with re-padding) with "
            "content, mask, done, reward and forced-rollout equality as invariants (non-vacuity shown by a lossy-codec self-test); every printed state of the "
            "restored copy is replayed into the REAL restored objects (deepcopy, pickle, npz, dataset files + load_data, FJSP/JSSP text files); recorded real round "
            "trips incl. RNG state and Lightning checkpoints (policy parameters, greedy actions, rollout-baseline policy) are validated by PersistTrace.tla."),
    "C20": ("model_checking", "6", "exact-rational TLA+ state machines (Stats.tla: Welford, EMA, warm-up; TrainingRun.tla: epoch protocol of a whole REINFORCE run), TLC exhaustive; replay into the real classes + TLC trace validation (StatsTrace.tla, TrainingRunTrace.tla incl. real RL4COTrainer.fit)",
            "Stats.tla is model-checked for all histories of a small scope (invariants: mean, M2, sample variance, EMA closed form, "
            "warm-up weight and convex combination); every history is replayed into the real classes call by call; longer random "
            "histories of the real classes are validated by StatsTrace.tla. TrainingRun.tla (Setup / TrainEpoch / EpochEnd / Regen; warm-up "
            "schedule, baseline update iff better and significant) is model-checked for all runs of <= 4 epochs, every run is replayed into a real "
            "REINFORCE module with state comparison after every action, and real RL4COTrainer.fit runs are validated by TrainingRunTrace.tla."),
    "C12": ("model_checking", "6", "Layout.tla index algebra + best-of-k, TLC exhaustive; replay into batchify/unbatchify/_select_best; LayoutTrace.tla on real select_start_nodes; unbounded lift by Apalache inductive invariants (MC_Layout_apa.tla) and TLAPS (LayoutIdx_proofs.tla) tied to Layout.tla by TLC equivalence; ACO.tla (ants as replicas, pheromone only from own ants) replayed into the real AntSystem",
            "Layout.tla (batchify/unbatchify as index functions, any nesting; best-of-k selection) is model-checked for all batch sizes x "
            "nestings x reward assignments of a small scope; every terminal state is replayed into the real tensor/TensorDict "
            "operations; forced start nodes of real environments are validated by LayoutTrace.tla (feasible, distinct per instance)."),
    "C16": ("model_checking", "6", "Reinforce.tla / PPOSurrogate.tla / StepwisePPO.tla / NStepPPO.tla exact surrogates, TLC exhaustive; replay into real loss code (calculate_loss, shared_step of PPO, StepwisePPO, n_step_PPO) with stub policy, autograd gradients compared",
            "All training steps of a small scope (rewards, log-likelihoods, baseline inputs; successive steps for the stateful "
            "exponential baseline) are enumerated by TLC with exact loss and gradient values and replayed into REINFORCE.calculate_loss, "
            "A2C, POMO.shared_step, SymNCO losses and PPO.shared_step; loss and the gradients reaching log-likelihoods / critic outputs "
            "are compared. StepwisePPO.tla (buffered transitions, mini-batches without replacement) and NStepPPO.tla (n-step returns, bootstrap, "
            "value clipping, curriculum; rewards from the TSPkoptEnv tour model) are explored exhaustively and every case goes through the real "
            "shared_step (real torchrl buffer, real TSPkoptEnv)."),
    "C11": ("model_checking", "6", "Decode.tla.tmpl machine D (decoding protocol x env model x table policy), TLC exhaustive; real ConstructivePolicy with stub decoder compared behaviour by behaviour; DecodeTrace.tla on neural policies incl. non-autoregressive heat-map policies (DeepACO, NARGNN, AntSystem.get_logp)",
            "TLC enumerates every behaviour of the decoding protocol (greedy, sampling, multistart_*, evaluate) over the TSP and CVRP "
            "models with an explicit table policy and exact per-step probabilities; the table is plugged into the real "
            "ConstructivePolicy as a stub decoder and every real row must be a specification behaviour with the same per-step "
            "log-probabilities and reward, every specification behaviour is fed back through actions= (evaluate). Bundled neural "
            "policies are validated per step by DecodeTrace.tla against an independent float64 reference loop."),
    "C13": ("model_checking", "6", "Decode.tla.tmpl machine B (beam search over env model with table policy), TLC exhaustive over tie-breaks; real BeamSearch compared beam set by beam set",
            "TLC explores beam search (any top-W subset at every step, exact rational scores) over the TSP/CVRP models with invariants "
            "complete+feasible, distinct, W beams; the real BeamSearch with the same table policy must return one of the allowed "
            "beam sets with each beam's own per-step log-probabilities and reward, and select_best the maximum of the instance's beams."),
    "C17": ("model_checking", "6", "Loader.tla (loader order, partial batches, extra values via evaluation batches) and TrainingRun.tla (which baseline values a batch carries along a whole training run), TLC exhaustive; replay + LoaderTrace.tla / TrainingRunTrace.tla on real dataset classes / DataLoader / RolloutBaseline / REINFORCE / RL4COTrainer.fit; Routing.tla (which instances feed which phase: files, lists, names, batch-size fall-backs) TLC exhaustive over 5400 configurations, replayed into the real env + module, RoutingTrace.tla on real fit / test runs",
            "All (n, batch size, evaluation batch size, loader order) of a small scope are model-checked (no loss/duplication, extra of its "
            "own item, batch sizes); unshuffled behaviours are replayed through the real dataset classes wrapped by RolloutBaseline; "
            "recorded passes (all classes, shuffle, extra key, RL4COLitModule._dataloader_single) are validated by LoaderTrace.tla. TrainingRun.tla "
            "(wrap at set-up, at every regeneration and after baseline updates; rollout_only = warm-up length 0) is model-checked, replayed into a real "
            "REINFORCE module and validated on real RL4COTrainer.fit runs."),
    "C15": ("model_checking", "6", "Augment.tla (dihedral maps) TLC exhaustive + replay; AugTrace.tla / EvalTrace (over the env problem definitions) on real evaluation classes; ACO.tla (ant-colony search: best = max over own ants x iterations) TLC exhaustive, replayed into the real AntSystem.run, ACOTrace.tla on real DeepACOPolicy runs",
            "The 8 dihedral maps are model-checked on the integer grid (distance preserving, first copy identity) and replayed into the real "
            "function; the continuous symmetric augmentation and every evaluation class (greedy, augmentation, sampling, multistart, "
            "multistart+augment over a data loader with partial batches) are run with a coordinate-sensitive table policy and each reported "
            "(actions, reward) is validated by TLC: objective on the ORIGINAL instance, maximum over the candidates, never worse than greedy."),
    "C14": ("exploration", "6", "InferTrace.tla (per-row refinement of batched greedy decoding w.r.t. solo decoding, tie rule) validated by TLC on recorded decodes of bundled policies",
            "The network is an uninterpreted function, so no model-level exhaustiveness is claimed: bundled constructive policies (random weights, "
            "eval mode) are decoded solo and at every position of batches of copies / unrelated instances / several sizes; TLC validates each "
            "record against InferTrace.tla (same greedy actions until a top-2 tie, padding afterwards, same reward and log-likelihood)."),
    "C18": ("model_checking", "6", "GenCVRPTW.tla / GenMTVRP.tla (time-window construction arithmetic) TLC exhaustive over grids of distances x draws, replayed into the real generators with pinned draws; GenTrace.tla + Generators.tla contract on recorded instances of all generators",
            "TLC exhaustively checks exact-arithmetic state machines of the CVRPTW and MTVRP time-window constructions against the generator contract "
            "and the environment models' InstanceOK; every grid point is replayed into the real generators with pinned draws; all generators x "
            "parameter grids x seeds are run for real and each instance, with one random mask-confined episode of the real environment, is validated "
            "by TLC (GenTrace.tla) against the contract Generators.tla."),
}
PROTO_NOTE = ("Trusted base: TLC 1.8.0; the TLA+ protocol specifications under spec/decode, spec/train; float tolerances stated in the "
              "trace specifications; small-scope hypothesis.")

ALL = ["C%02d" % i for i in range(1, 21)]
NOT_YET = "machinery for this property is not built yet in this round (see DESIGN.md section 12); nothing is claimed"


def main():
    checks = []
    for pid, (cat, ref, tech, text) in CLAIMED.items():
        checks.append({
            "property_id": pid,
            "quick_cmd": "bin/check %s --tier quick" % pid,
            "thorough_cmd": "bin/check %s --tier thorough" % pid,
            "evidence_file": "evidence/%s.json" % pid,
            "replay_cmd_template": "bin/check %s --replay {path}" % pid,
            "engine": "tlc+conformance",
            "level_claimed": {"category": cat, "text": text, "design_ref": "DESIGN.md section " + ref},
            "level_note": ENV_NOTE if pid in ("C01", "C02", "C03", "C04", "C05", "C06", "C07", "C08") else PROTO_NOTE,
            "technique": tech,
        })
    m = {
        "version": 1,
        "setup_cmd": "bin/setup",
        "hooks": {"guard": "RL4CO_VERIF", "enable": "export RL4CO_VERIF=1 (bin/check sets it); python package, no build step",
                  "baseline_off_cmd": "cd /repo && env -u RL4CO_VERIF /venv/bin/python -m pytest -ra -q -p no:cacheprovider --timeout=900 --continue-on-collection-errors",
                  "source_commits": [], "add_only": True},
        "engines": [{"name": "tlc+conformance", "path": "harness/check.py",
                     "serves_properties": sorted(CLAIMED),
                     "kind_free_text": "explicit TLA+ specifications (spec/), TLC exhaustive model checking, TLC trace validation of "
                                       "real-code executions, replay of TLC-generated behaviours into the real code"}],
        "checks": checks,
        "not_applicable": [{"property_id": p, "reason": NOT_YET} for p in ALL if p not in CLAIMED],
        "notes": "See DESIGN.md. known_findings.json lists recorded genuine defects.",
    }
    json.dump(m, open(os.path.join(ROOT, "MANIFEST.json"), "w"), indent=1)


if __name__ == "__main__":
    main()
