"""Regenerates MANIFEST.json from the table below (keeps it schema-valid)."""
import json
import os

ROOT = os.path.dirname(os.path.dirname(os.path.abspath(__file__)))

ENV_NOTE = ("Trusted base: TLC 1.8.0; the problem definitions (PART 1 of spec/env/*.tla); the exact "
            "float32 embedding of integer instances; small-scope hypothesis (families listed in evidence).")

CLAIMED = {
    "C01": ("model_checking", "6", "TLA+ env models + TLC exhaustive; real-env BFS traces validated by TLC",
            "Every environment module is model-checked exhaustively by TLC against the problem definition "
            "(feasibility of every mask-admitted sequence) on a small-scope family; the real environment is expanded "
            "over its own mask on the same family and every episode is validated by TLC (M_C01) and compared with the model."),
    "C02": ("model_checking", "6", "TLA+ env models + TLC exhaustive; real-env BFS traces validated by TLC",
            "Non-empty masks (also while padding), monotone done and step bounds are TLC invariants of the model and "
            "TLC monitors over the exhaustive real-code expansion."),
    "C03": ("model_checking", "6", "TLC recomputes the objective of every real episode from the integer instance",
            "Reward of every real episode (exact embedding) must equal the TLA+ Objective of the executed sequence; "
            "TLC-generated feasible solutions are replayed and priced as well."),
    "C05": ("model_checking", "6", "TLC product of problem definition x model; replay of all feasible solutions into the real mask",
            "TLC enumerates every feasible non-pointless solution of the problem definition; each is replayed step by "
            "step into the real environment and every action must be offered by the real mask."),
    "C06": ("model_checking", "6", "TLC classifies candidate solutions by the problem definition; real checker compared",
            "All feasible solutions, hand-shaped variants, single-fault corruptions and (small N) all sequences are "
            "classified by TLC with the problem definition and fed to the real check_solution_validity."),
}

ALL = ["C%02d" % i for i in range(1, 21)]
NOT_YET = "machinery for this property is not built yet in this round (see DESIGN.md section 12); nothing is claimed"


def main():
    checks = []
    for pid, (cat, ref, tech, text) in CLAIMED.items():
        checks.append({
            "property_id": pid,
            "quick_cmd": "bin/check %s --tier quick" % pid,
            "thorough_cmd": "bin/check %s --tier thorough" % pid,
            "evidence_file": "evidence/%s.json" % pid,
            "replay_cmd_template": "bin/check %s --replay {path}" % pid,
            "engine": "tlc+conformance",
            "level_claimed": {"category": cat, "text": text, "design_ref": "DESIGN.md section " + ref},
            "level_note": ENV_NOTE,
            "technique": tech,
        })
    m = {
        "version": 1,
        "setup_cmd": "bin/setup",
        "hooks": {"guard": "RL4CO_VERIF", "enable": "export RL4CO_VERIF=1 (bin/check sets it); python package, no build step",
                  "baseline_off_cmd": "cd /repo && env -u RL4CO_VERIF /venv/bin/python -m pytest -ra -q -p no:cacheprovider --timeout=900 --continue-on-collection-errors",
                  "source_commits": [], "add_only": True},
        "engines": [{"name": "tlc+conformance", "path": "harness/check.py",
                     "serves_properties": sorted(CLAIMED),
                     "kind_free_text": "explicit TLA+ specifications (spec/), TLC exhaustive model checking, TLC trace validation of "
                                       "real-code executions, replay of TLC-generated behaviours into the real code"}],
        "checks": checks,
        "not_applicable": [{"property_id": p, "reason": NOT_YET} for p in ALL if p not in CLAIMED],
        "notes": "See DESIGN.md. known_findings.json lists recorded genuine defects.",
    }
    json.dump(m, open(os.path.join(ROOT, "MANIFEST.json"), "w"), indent=1)


if __name__ == "__main__":
    main()
