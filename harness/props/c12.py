"""C12 -- replicated rollouts keep their instance.
(1) TLC model-checks spec/decode/Layout.tla (batchify/unbatchify index algebra for all batch sizes x nestings of a
    small scope; best-of-k selection for all reward assignments);
(2) every terminal state is replayed into the REAL batchify / unbatchify (tensors and TensorDicts) and into
    DecodingStrategy._select_best / unbatchify_and_gather / get_best_actions;
(3) env.select_start_nodes of the real environments is recorded on reset batches of the small-scope instance
    families (and on instances whose size differs from the generator's) and validated by LayoutTrace.tla."""
import time

import torch
from tensordict import TensorDict

from .. import tlc, verdict
from .common import validate_records


def nested(t):
    return t.tolist()


def replay_layout(tuples, viol, samples):
    from rl4co.utils.ops import batchify, unbatchify

    n = 0
    for (_, B, shape, x, ids) in tuples:
        shape_t = tuple(shape)
        src = torch.arange(1, B + 1)
        exp = batchify(src, shape_t)
        # tensor with trailing dims and a TensorDict (two entries) must behave identically
        src2 = torch.stack([src, src * 10], -1)
        td = TensorDict({"a": src.clone(), "b": src2.clone()}, batch_size=[B])
        exp_td = batchify(td, shape_t)
        N = exp.shape[0]
        back = unbatchify(exp, shape_t)
        back_td = unbatchify(exp_td, shape_t)
        uid = torch.arange(1, N + 1)
        back_ids = unbatchify(uid, shape_t)
        n += 1
        bad = []
        if exp.tolist() != [((i % B) + 1) for i in range(N)]:
            bad.append("batchify rows %s" % exp.tolist())
        if exp_td["a"].tolist() != exp.tolist() or exp_td["b"][:, 1].tolist() != [v * 10 for v in exp.tolist()]:
            bad.append("TensorDict batchify differs from tensor batchify")
        if nested(back) != x:
            bad.append("unbatchify(batchify(x)) = %s, specification %s" % (nested(back), x))
        if nested(back_td["a"]) != x or nested(back_td["b"][..., 0]) != x:
            bad.append("TensorDict round trip differs")
        if nested(back_ids) != ids:
            bad.append("unbatchify index arithmetic: %s, specification %s" % (nested(back_ids), ids))
        if bad:
            viol.append({"property": "C12", "env": "ops", "monitor": "replay-layout",
                         "inst": {"B": B, "shape": shape}, "actions": [], "detail": "; ".join(bad)[:500]})
    samples.append({"B": B, "shape": shape, "unbatchify_of_row_ids": ids})
    return n


class _FakeEnv:
    def __init__(self, rew):
        self.rew = rew

    def get_reward(self, td, actions):
        return self.rew


def replay_best(tuples, SB, SK, viol, samples):
    from rl4co.utils.decoding import Greedy
    from rl4co.utils.ops import get_best_actions, unbatchify, unbatchify_and_gather

    by_rew = {}
    for (_, rew, rows) in tuples:
        by_rew.setdefault(tuple(rew), []).append(rows)
    n = 0
    for rew, allowed in by_rew.items():
        N = SB * SK
        r = torch.tensor(rew, dtype=torch.float32)
        rowid = torch.arange(1, N + 1)
        actions = torch.stack([rowid, rowid + 100], 1)          # [N, 2]: carries the row id
        logp = torch.stack([-rowid.float(), -rowid.float() - 0.5], 1)
        td = TensorDict({"row": rowid.clone()}, batch_size=[N])
        st = Greedy(multistart=True, num_starts=SK, select_best=True)
        st.num_starts = SK
        lp2, a2, td2, _ = st._select_best(logp, actions, td, _FakeEnv(r))
        got = a2[:, 0].tolist()
        n += 1
        bad = []
        if got not in allowed:
            bad.append("selected rows %s not a maximiser set %s" % (got, allowed[:3]))
        if (a2[:, 1] - 100).tolist() != got or (-lp2[:, 0]).long().tolist() != got or td2["row"].tolist() != got:
            bad.append("actions / log-probs / state of different rollouts mixed: a=%s lp=%s td=%s" % (
                a2.tolist(), lp2.tolist(), td2["row"].tolist()))
        # the same selection through the public helpers
        mx, idx = unbatchify(r, SK).max(-1)
        g1 = unbatchify_and_gather(actions, idx, SK)[:, 0].tolist()
        g2 = get_best_actions(actions, idx)
        if g1 not in allowed:
            bad.append("unbatchify_and_gather picks %s" % g1)
        if bad:
            viol.append({"property": "C12", "env": "decoding", "monitor": "replay-select-best",
                         "inst": {"B": SB, "k": SK, "rewards": list(rew)}, "actions": [], "detail": "; ".join(bad)[:500]})
    samples.append({"B": SB, "k": SK, "rewards": list(rew), "selected_rows": got})
    return n


# environments for which rl4co defines multi-start (get_num_starts / select_start_nodes rules)
MULTISTART_ENVS = ("tsp", "atsp", "cvrp", "cvrptw", "sdvrp", "mtsp", "op", "pctsp", "spctsp", "pdp", "mtvrp", "flp", "mcp")


def start_records(tier, seed):
    """env.select_start_nodes on reset batches of the adapters' instance families"""
    from ..envs import registry

    recs = []
    for ad in registry.ALL:
        if ad.name not in MULTISTART_ENVS or getattr(ad, "no_multistart", False):
            continue
        fam = ad.family("quick", seed)
        # PDP with force_start_at_depot: the first move is the depot by construction, multi-start is meaningless there
        fam = [i for i in fam if not i.get("force")]
        groups = {}
        for i in fam:
            groups.setdefault(ad.group_key(i), []).append(i)
        for key, insts in list(groups.items())[: (3 if tier == "quick" else 12)]:
            insts = insts[: (6 if tier == "quick" else 24)]
            env = ad.make_env(insts[0])
            td = env.reset(ad.to_td(insts))
            B = len(insts)
            nact = td["action_mask"].shape[-1]
            mask = [[a + 1 for a in range(nact) if bool(td["action_mask"][b, a])] for b in range(B)]
            if ad.name not in ("tsp", "atsp", "flp", "mcp"):
                # environments with a depot: a forced START is a customer; the depot (action 0) only counts
                # when no customer can be visited at all
                mask = [[a for a in m if a != 1] or [1] for m in mask]
            kmax = env.get_num_starts(td)
            for k in sorted({2, max(2, kmax // 2), kmax}):
                if k < 1 or k > kmax:
                    continue
                try:
                    sel = env.select_start_nodes(td, num_starts=k)
                    sel = [int(v) + 1 for v in sel.tolist()]
                    crash = ""
                except Exception as e:
                    sel, crash = [], type(e).__name__ + ":" + str(e)[:60]
                recs.append({"kind": "starts", "env": ad.tag, "B": B, "k": k, "mask": mask, "sel": sel,
                             "crash": crash, "owner": [], "rew": [], "best": [],
                             "note": "generator size = instance size"})
    return recs


def mismatch_records():
    """instances whose size differs from the size the env's generator was configured with
    (hand-supplied data, evaluation on larger instances)"""
    from rl4co.envs import CVRPEnv, TSPEnv

    recs = []
    g = torch.Generator().manual_seed(0)
    for gen_n, n in ((5, 8), (20, 50), (10, 7)):
        env = TSPEnv(generator_params={"num_loc": gen_n}, check_solution=False)
        td = env.reset(TensorDict({"locs": torch.rand(3, n, 2, generator=g)}, batch_size=[3]))
        k = env.get_num_starts(td)
        sel = [int(v) + 1 for v in env.select_start_nodes(td, num_starts=k).tolist()]
        mask = [[a + 1 for a in range(n) if bool(td["action_mask"][b, a])] for b in range(3)]
        recs.append({"kind": "starts", "env": "tsp", "B": 3, "k": k, "mask": mask, "sel": sel, "crash": "",
                     "owner": [], "rew": [], "best": [], "note": "generator num_loc=%d, instance has %d nodes" % (gen_n, n),
                     "cls": "size-mismatch"})
        env = CVRPEnv(generator_params={"num_loc": gen_n}, check_solution=False)
        td = env.reset(TensorDict({"locs": torch.rand(3, n, 2, generator=g), "depot": torch.rand(3, 2, generator=g),
                                   "demand": torch.full((3, n), 0.1)}, batch_size=[3]))
        k = env.get_num_starts(td)
        sel = [int(v) + 1 for v in env.select_start_nodes(td, num_starts=k).tolist()]
        mask = [[a + 1 for a in range(n + 1) if bool(td["action_mask"][b, a])] for b in range(3)]
        recs.append({"kind": "starts", "env": "cvrp", "B": 3, "k": k, "mask": mask, "sel": sel, "crash": "",
                     "owner": [], "rew": [], "best": [], "note": "generator num_loc=%d, instance has %d customers" % (gen_n, n),
                     "cls": "size-mismatch"})
    return recs


def run(tier, seed):
    t0 = time.time()
    quick = tier == "quick"
    C = {"MaxB": "3" if quick else "4", "Factors": "{1,2,3}", "MaxDepth": "2" if quick else "3",
         "SB": "2", "SK": "3", "Rewards": "{0,1,2}"}
    viol, samples = [], []
    wd, root = tlc.prepare("layout_L", module="Layout")
    tlc.write_cfg(wd, root, constants=C, invariants=["RowOwner", "RoundTrip", "RowsStayOwned", "EmitL"],
                  init_next=("InitLL", "NextLL"))
    r1 = tlc.run(wd, root, coverage=True)
    n_rep = replay_layout(r1.tuples("Y"), viol, samples)
    states, trans = r1.distinct, r1.generated
    model_viol = list(r1.violated)
    for (sb, sk) in ((2, 3),) if quick else ((2, 3), (3, 2), (1, 4)):
        C2 = dict(C, SB=str(sb), SK=str(sk))
        wd, root = tlc.prepare("layout_S", module="Layout")
        tlc.write_cfg(wd, root, constants=C2, invariants=["BestIsOwnMax", "EmitS"], init_next=("InitSS", "NextSS"))
        r2 = tlc.run(wd, root)
        n_rep += replay_best(r2.tuples("B"), sb, sk, viol, samples)
        states += r2.distinct
        trans += r2.generated
        model_viol += r2.violated
    recs = start_records(tier, seed) + mismatch_records()
    for rec in recs:
        if rec["crash"]:
            viol.append({"property": "C12", "env": rec["env"], "monitor": "select-start-nodes-raised",
                         "inst": {"B": rec["B"], "k": rec["k"], "note": rec["note"]}, "actions": [], "detail": rec["crash"],
                         "cls": rec.get("cls", "")})
    fails, _, st, _ = validate_records("LayoutTrace", recs, ["M_StartFeasible", "M_StartDistinct", "M_StartCount",
                                                               "M_RowOwner", "M_Best", "End"], "c12")
    for f in fails:
        rec = recs[f[0]]
        viol.append({"property": "C12", "env": rec["env"], "monitor": f[1], "cls": rec.get("cls", ""),
                     "inst": {"B": rec["B"], "k": rec["k"], "note": rec["note"], "mask": rec["mask"][:2]},
                     "actions": rec["sel"], "detail": rec["note"]})
    if model_viol:
        print("MODEL-DRIFT C12: Layout.tla violates %s" % model_viol)
    # ants are replicas: pheromone of instance i only from tours of instance i, training advantage over the own ants (ACO.tla)
    from . import c15c_aco
    va, ca = c15c_aco.violations(tier, seed, parts=("model", "e2e", "loglik"))
    viol += [v for v in va if v["property"] == "C12"]
    # replicated heat-map rollouts (multi-start NARGNN, the ants of DeepACO) whose step log-probabilities are not those of their
    # OWN instance's heat map: row r does not belong to instance r mod B (shared with C11)
    for v in va:
        if v["property"] == "C11" and any(w in v["env"] for w in ("multistart", "AntSystem", "DeepACOPolicy(train")):
            viol.append(dict(v, property="C12", monitor="replica-" + v["monitor"]))
    states += ca["states"]
    trans += ca["transitions"]
    n_rep += ca["replayed"]
    # the ant system's RANDOM start nodes (DeepACO): row r = start k of instance r mod B must get a node that is feasible for ITS
    # instance (drawn with replacement: no distinctness asked); two OP instances whose reachable nodes differ
    from rl4co.envs import OPEnv
    from rl4co.models.zoo.deepaco.antsystem import AntSystem
    oenv = OPEnv(generator_params={"num_loc": 3}, check_solution=False)
    olocs = torch.tensor([[[0.125, 0.0], [0.875, 0.0], [0.0, 0.875]], [[0.875, 0.0], [0.0, 0.875], [0.125, 0.0]],
                          [[0.875, 0.0], [0.125, 0.0], [0.0, 0.875]]])
    for Bn in (2, 3):
        otd = oenv.reset(TensorDict({"locs": olocs[:Bn], "depot": torch.zeros(Bn, 2), "prize": torch.ones(Bn, 3),
                                     "max_length": torch.full((Bn,), 1.0)}, batch_size=[Bn]))
        om = otd["action_mask"].clone()
        om[:, 0] = False                       # customers only (the depot is feasible everywhere and hides the layout)
        otd["action_mask"] = om
        for k in (2, 3, 4):
            torch.manual_seed(seed + k)
            sel = AntSystem.select_start_node_fn(otd, oenv, k).tolist()
            badrows = [r for r in range(Bn * k) if not bool(om[r % Bn, sel[r]])]
            n_rep += 1
            if len(sel) != Bn * k or badrows:
                viol.append({"property": "C12", "env": "AntSystem.select_start_node_fn/op", "monitor": "start-feasible-for-own-instance",
                             "inst": {"B": Bn, "k": k, "feasible customers per instance": [[a for a in range(4) if bool(om[b, a])] for b in range(Bn)]},
                             "actions": sel, "detail": "rows %s (row r belongs to instance r mod %d) start at a node their instance cannot reach"
                                                        % (badrows, Bn)})
    # replicas of NEURAL policies are decoded with their own instance's embeddings: multi-start / multi-sample rollouts of the
    # attention model (incl. SDVRP, whose decoder embeddings are updated per step) recorded per step against an independent
    # reference loop and re-evaluated as ordinary rows of their own instance (DecodeTrace.tla)
    from . import c11_nets
    nrecs = c11_nets.records(tier, seed, only={("AM", "tsp"), ("AM", "cvrp"), ("AM", "sdvrp"), ("POMO", "tsp")},
                             only_modes=lambda m: m.startswith("multi"), extras=False)
    nfails, _, nst, _ = validate_records("DecodeTrace", nrecs, c11_nets.INV, "c12n")
    states += nst
    for f in nfails:
        rec = nrecs[f[0]]
        viol.append({"property": "C12", "env": rec["policy"] + "/" + rec["env"], "monitor": "replica-" + f[1],
                     "inst": {"mode": rec["mode"], "row": rec["row"]}, "actions": rec["actions"],
                     "detail": "step %s reported %s reference %s re-evaluated as a row of its own instance %s"
                               % (f[2] if len(f) > 2 else "", rec["lp"][:6], rec["ref"][:6], rec["eval_lp"][:6])})
    # test-time search (ActiveSearch, EAS): replica -> instance index algebra, data-set offsets of the result buffers (Search.tla)
    from . import c15b_search
    vs, cs = c15b_search.violations(tier, seed)
    viol += [v for v in vs if v["property"] == "C12"]
    # C12's last clause (best-selection returns the maximum among the instance's own rollouts TOGETHER WITH the actions of that
    # rollout) is also what the searches' incumbent book-keeping must satisfy: those clauses are shared with C15
    for v in vs:
        if v["property"] == "C15" and any(w in v["monitor"] for w in ("stored-solution", "incumbent-is-best", "reported-best")):
            viol.append(dict(v, property="C12"))
    states += cs["states"]
    trans += cs["transitions"]
    n_rep += cs["replayed"]
    n_new, n_known = verdict.report("C12", viol)
    from . import unbounded
    unb = unbounded.for_property("C12", tier)      # Apalache / TLAPS: the index algebra for ALL batch sizes, depths, factors, K
    samples.append({"start_record": {k: v for k, v in recs[0].items()}} if recs else {})
    cov = {"states": states + st, "transitions": trans, "traces_validated_against_impl": n_rep + len(recs),
           "samples": samples, "exhaustive": True, "model_constants": C, "start_node_records": len(recs),
           "replayed_model_states": n_rep, "known_finding_witnesses": n_known,
           "tlc_action_coverage": r1.coverage(), "unbounded": unb,
           "ant_colony_search": {k: v for k, v in ca.items() if k != "samples"},
           "test_time_search": {k: v for k, v in cs.items() if k != "samples"},
           "neural_replica_traces": len(nrecs),
           "explanation": "Layout.tla model-checked; terminal states replayed into batchify/unbatchify/_select_best; "
                          "select_start_nodes of real envs validated by LayoutTrace.tla; the index algebra is lifted to all batch "
                          "sizes / nesting depths / factors / K by Apalache inductive invariants (MC_Layout_apa.tla) and TLAPS "
                          "(LayoutIdx_proofs.tla, thorough tier), tied to Layout.tla by a TLC equivalence check (MC_Layout_eq.tla)"}
    verdict.write_evidence("C12", tier, seed, "model_checking", cov,
                           ["multistart decode provenance (owner/best records) is produced by the C11 decode harness"],
                           time.time() - t0, n_new)
    return 1 if n_new else 0
