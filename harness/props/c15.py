"""C15 -- augmentation preserves costs; evaluation reports true best-of-k results.
(1) TLC checks spec/eval/Augment.tla (8 dihedral maps on the integer grid: distance preserving, first copy identity) for
    all pairs of grid points and prints the image of every point; the real dihedral_8_augmentation must reproduce it
    (copy a of instance b at row a*B+b); the continuous symmetric augmentation is validated on recorded executions
    (integer-scaled distance matrices before/after, first copy = original);
(2) the REAL evaluation classes run over a data loader with a coordinate-sensitive table policy on small exact instances;
    per instance the reported (actions, reward), the candidates and the single-greedy reward are validated by TLC against
    EvalTrace (generated for the TSP and CVRP modules): reward = Objective(ORIGINAL instance, reported actions),
    = max over the candidates, never worse than greedy."""
import logging
import os
import time
import warnings

import torch
import torch.nn as nn
from torch.utils.data import DataLoader

from .. import decode_lib as dl
from .. import pipeline, tlc, verdict
from .c11 import adapters, small_family
from .common import validate_records

warnings.filterwarnings("ignore")


def coord_policy(env_name):
    """table policy that LOOKS AT THE COORDINATES (so augmented copies decode differently)"""
    from rl4co.models.common.constructive.autoregressive.decoder import AutoregressiveDecoder
    from rl4co.models.common.constructive.base import ConstructivePolicy

    class Dec(AutoregressiveDecoder):
        def __init__(self):
            nn.Module.__init__(self)

        def forward(self, td, hidden=None, num_starts=0):
            mask = td["action_mask"]
            B, n = mask.shape
            xy = torch.floor(td["locs"] * 32.0 + 0.5).long()            # lattice coordinates
            cur = td["current_node"].view(B, 1)
            cx = xy[..., 0].gather(1, cur)
            w = 1 + ((xy[..., 0] * 3 + xy[..., 1] * 5 + cx + td["iid"].view(B, 1)) % 7)
            return torch.log(w.float()), mask

        def pre_decoder_hook(self, td, env, hidden=None, num_starts=0):
            return td, env, hidden

    class Enc(nn.Module):
        def __init__(self):
            super().__init__()
            self.p = nn.Parameter(torch.zeros(1))

        def forward(self, td):
            return None, None

    return ConstructivePolicy(encoder=Enc(), decoder=Dec(), env_name=env_name)


class IdDataset(torch.utils.data.Dataset):
    def __init__(self, td):
        self.td = td

    def __len__(self):
        return self.td.shape[0]

    def __getitems__(self, idx):
        return self.td[idx]


def wrap_reset(env):
    """env.reset drops unknown keys: carry the instance id through (test double on the env object only)"""
    orig = env.reset

    def reset(td=None, batch_size=None):
        out = orig(td, batch_size=batch_size)
        if td is not None and "iid" in td.keys():
            out["iid"] = td["iid"]
        return out

    env.reset = reset
    return env


def augment_stage(tier, viol, samples):
    from rl4co.data.transforms import dihedral_8_augmentation, symmetric_augmentation

    G = 8 if tier == "quick" else 16
    wd, root = tlc.prepare("augment", module="Augment")
    tlc.write_cfg(wd, root, constants={"G": str(G)}, invariants=["DistPreserved", "FirstIsIdentity", "InSquare", "Emit"])
    r = tlc.run(wd, root)
    pts = sorted((tuple(t[1]), t[2]) for t in r.tuples("A"))
    xy = torch.tensor([list(p) for p, _ in pts], dtype=torch.float32).view(len(pts), 1, 2) / G   # B instances of one node
    out = dihedral_8_augmentation(xy)
    B = len(pts)
    n = 0
    for b, (p, images) in enumerate(pts):
        for k in range(8):
            got = [int(round(float(v) * G)) for v in out[k * B + b, 0].tolist()]
            n += 1
            if got != list(images[k]):
                viol.append({"property": "C15", "env": "dihedral8", "monitor": "replay-augment", "inst": {"point": list(p), "copy": k, "G": G},
                             "actions": [], "detail": "row %d is %s, specification %s" % (k * B + b, got, images[k])})
    samples.append({"point": list(pts[1][0]), "spec_images": pts[1][1]})
    # continuous rotations / reflections: recorded executions, integer-scaled distances
    recs = []
    g = torch.Generator().manual_seed(0)
    for trial in range(6 if tier == "quick" else 60):
        Bn, nn_, a = 3, 5, (2, 4, 8)[trial % 3]
        x = torch.rand(Bn, nn_, 2, generator=g)
        xa = x.repeat(a, 1, 1)
        torch.manual_seed(trial)
        y = symmetric_augmentation(xa.clone(), a)
        S = 100000
        for r_ in range(a * Bn):
            d0 = (x[r_ % Bn][:, None] - x[r_ % Bn][None]).double().norm(dim=-1)
            d1 = (y[r_][:, None] - y[r_][None]).double().norm(dim=-1)
            recs.append({"copy": r_ // Bn, "d0": [[int(round(v * S)) for v in row] for row in d0.tolist()],
                         "d1": [[int(round(v * S)) for v in row] for row in d1.tolist()],
                         "same": bool(torch.allclose(y[r_], x[r_ % Bn], atol=1e-6))})
    return r, n, recs


def score(env, td0, actions):
    """objective of `actions` on the (reset) instances td0; environments whose objective is read from the rollout state
    (mTSP min-max) are stepped through the actions first"""
    if env.name != "mtsp":
        return env.get_reward(td0, actions)
    td = td0.clone()
    for t in range(actions.shape[1]):
        td.set("action", actions[:, t])
        td = env.step(td)["next"]
    return env.get_reward(td, actions)


def extra_adapters():
    """mTSP (min-max objective is read from the rollout STATE, so a best-of-k selection must hand back the state of the best rollout)"""
    from ..envs.mtsp import MTSP

    a = MTSP()
    a.tag = a.name
    return [a]


def eval_stage(ad, tier, seed, viol, samples):
    from rl4co.tasks.eval import (AugmentationEval, GreedyEval, GreedyMultiStartAugmentEval, GreedyMultiStartEval,
                                  SamplingEval)
    from rl4co.utils.ops import batchify, unbatchify

    fam = [i for i in small_family(ad, tier) if i["grid"] in (16, 32) and i.get("variant", "minmax") == "minmax"]
    groups = {}
    for i in fam:
        groups.setdefault(ad.group_key(i), []).append(i)
    key = max(groups, key=lambda k: len(groups[k]))
    insts = groups[key][: (5 if tier == "quick" else 9)]
    for k, i in enumerate(insts):
        i["id"] = k + 1
    env = wrap_reset(ad.make_env(insts[0]))
    td_raw = ad.to_td(insts)
    td_raw["iid"] = torch.tensor([i["id"] for i in insts])
    policy = coord_policy(ad.name).eval()
    n = len(insts)
    K = 3
    recs = []
    with torch.inference_mode():
        td0 = env.reset(td_raw.clone())
        g = policy(td0.clone(), env, decode_type="greedy")
        greedy = [int(round(float(x) * ad.scale(i))) for x, i in zip(score(env, td0, g["actions"]).tolist(), insts)]
    methods = {
        "greedy": lambda: GreedyEval(env, progress=False),
        "multistart": lambda: GreedyMultiStartEval(env, num_starts=K, progress=False),
        "augment_dihedral": lambda: AugmentationEval(env, num_augment=8, force_dihedral_8=True, progress=False),
        "augment_symmetric": lambda: AugmentationEval(env, num_augment=4, progress=False),
        "multistart_augment": lambda: GreedyMultiStartAugmentEval(env, num_starts=K, num_augment=8, force_dihedral_8=True, progress=False),
        "sampling": lambda: SamplingEval(env, samples=4, progress=False),
    }
    if ad.name == "mtsp":
        # the evaluators that re-score on the un-augmented instance call env.get_reward(reset td, actions), which the min-max
        # objective (read from the rollout state) does not support: only SamplingEval (policy's own reward) applies
        methods = {"sampling": methods["sampling"]}
    for name, mk in methods.items():
        for bs in ((2,) if tier == "quick" else (1, 2, 3, n)):
            torch.manual_seed(seed)
            loader = DataLoader(IdDataset(td_raw.clone()), batch_size=bs, collate_fn=lambda x: x)
            res = mk()(policy, loader)
            # candidates: the same real components once more, per-candidate rewards on the ORIGINAL instance
            cands = [[] for _ in range(n)]
            has_id = name in ("greedy", "augment_dihedral", "augment_symmetric")
            with torch.inference_mode():
                td0 = env.reset(td_raw.clone())
                if name == "multistart":
                    o = policy(td0.clone(), env, decode_type="multistart_greedy", num_starts=K)
                    rw = unbatchify(score(env, batchify(td0, K), o["actions"]), K)
                    cands = [[int(round(float(v) * ad.scale(insts[b]))) for v in rw[b].tolist()] for b in range(n)]
                elif name == "augment_dihedral":
                    ev = mk()
                    o = policy(ev.augmentation(td0.clone()).clone(), env, decode_type="greedy", num_starts=0)
                    rw = unbatchify(score(env, batchify(td0, 8), o["actions"]), 8)
                    cands = [[int(round(float(v) * ad.scale(insts[b]))) for v in rw[b].tolist()] for b in range(n)]
            for b in range(n):
                recs.append({"method": name, "loader_batch": bs, "inst": insts[b],
                             "actions": [int(a) for a in res["actions"][b].tolist()],
                             "reward": int(round(float(res["rewards"][b]) * ad.scale(insts[b]))),
                             "cands": cands[b], "greedy": greedy[b], "has_id": has_id,
                             "eps": 0 if name != "augment_symmetric" else 0})
        # the SAME evaluator object used for a second data set (the instances in reverse order): row b of the second result
        # belongs to instance n-1-b, and there are exactly n rows
        ev = mk()
        torch.manual_seed(seed)
        ev(policy, DataLoader(IdDataset(td_raw.clone()), batch_size=2, collate_fn=lambda x: x))
        rev = list(range(n - 1, -1, -1))
        torch.manual_seed(seed + 1)
        res2 = ev(policy, DataLoader(IdDataset(td_raw[torch.tensor(rev)].clone()), batch_size=2, collate_fn=lambda x: x))
        if len(res2["rewards"]) != n or len(res2["actions"]) != n:
            viol.append({"property": "C15", "env": ad.name + "/" + name, "monitor": "rows-of-second-evaluation",
                         "inst": {"n": n}, "actions": [],
                         "detail": "evaluator re-used for a second data set of %d instances returns %d rewards / %d action rows"
                                   % (n, len(res2["rewards"]), len(res2["actions"]))})
        for b in range(min(n, len(res2["rewards"]))):
            i = insts[rev[b]]
            recs.append({"method": name + " (evaluator re-used)", "loader_batch": 2, "inst": i,
                         "actions": [int(a) for a in res2["actions"][b].tolist()],
                         "reward": int(round(float(res2["rewards"][b]) * ad.scale(i))),
                         "cands": [], "greedy": greedy[rev[b]], "has_id": name in ("greedy", "augment_dihedral", "augment_symmetric"),
                         "eps": 0})
    return recs


def run(tier, seed):
    t0 = time.time()
    logging.disable(logging.WARNING)
    viol, samples = [], []
    r, nrep, sym = augment_stage(tier, viol, samples)
    states, trans = r.distinct, r.generated
    # symmetric augmentation records: distances preserved (tolerance 3e-5), first copy identity
    for rec in sym:
        worst = max(abs(a - b) for ra, rb in zip(rec["d0"], rec["d1"]) for a, b in zip(ra, rb))
        rec["worst"] = worst
    fails, _, st, _ = validate_records("AugTrace", sym, ["M_Dist", "M_First", "End"], "c15a")
    states += st
    for f in fails:
        viol.append({"property": "C15", "env": "symmetric", "monitor": f[1], "inst": {"copy": sym[f[0]]["copy"]}, "actions": [],
                     "detail": "largest distance change %s units of 1e-5" % sym[f[0]]["worst"]})
    ntr = len(sym)
    for ad in adapters() + extra_adapters():
        recs = eval_stage(ad, tier, seed, viol, samples)
        wd, root = tlc.prepare("evaltrace_" + ad.name, template="EvalTrace", env_module=ad.module)
        f = os.path.join(wd, "recs.ndjson")
        tlc.dump_ndjson(f, recs)
        tlc.write_cfg(wd, root, invariants=["M_Feasible", "M_Objective", "M_Max", "M_Own", "M_Greedy", "End"])
        rr = tlc.run(wd, root, workers=1, env={"TRACE_FILE": f})
        os.remove(f)
        if len(rr.tuples("END")) != len(recs):
            raise tlc.TLCError("EvalTrace: records not consumed")
        states += rr.distinct
        ntr += len(recs)
        for t in rr.tuples("FAIL"):
            rec = recs[t[1] - 1]
            viol.append({"property": "C15", "env": ad.name + "/" + rec["method"], "monitor": t[2],
                         "inst": {k: v for k, v in rec["inst"].items() if k not in ("pts", "D")}, "actions": rec["actions"],
                         "detail": "loader batch %d reported reward %s candidates %s greedy %s" % (rec["loader_batch"], rec["reward"], rec["cands"], rec["greedy"])})
        samples.append({k: recs[-1][k] for k in ("method", "actions", "reward", "cands", "greedy")})
    # ant-colony search of DeepACO (ACO.tla / ACOTrace.tla): reported result = best over all ants x iterations of the own instance
    from . import c15c_aco
    va, ca = c15c_aco.violations(tier, seed, parts=("model", "e2e"))
    viol += [v for v in va if v["property"] == "C15"]
    states += ca["states"]
    trans += ca["transitions"]
    nrep += ca["replayed"]
    # test-time search (ActiveSearch, EAS): Search.tla / SearchTrace.tla
    from . import c15b_search
    vs, cs = c15b_search.violations(tier, seed)
    viol += [v for v in vs if v["property"] == "C15"]
    states += cs["states"]
    trans += cs["transitions"]
    nrep += cs["replayed"]
    n_new, n_known = verdict.report("C15", viol)
    cov = {"states": states, "transitions": trans, "traces_validated_against_impl": nrep + ntr, "samples": samples, "exhaustive": True,
           "replayed_points_x_copies": nrep, "eval_records": ntr, "known_finding_witnesses": n_known,
           "ant_colony_search": {k: v for k, v in ca.items() if k != "samples"},
           "test_time_search": {k: v for k, v in cs.items() if k != "samples"},
           "explanation": "Augment.tla model-checked and replayed into dihedral_8_augmentation; symmetric augmentation and all evaluation "
                          "classes validated on recorded executions (AugTrace.tla, EvalTrace over the TSP/CVRP problem definitions); ACO.tla: all "
                          "behaviours of the ant-colony search of a small scope replayed into the real AntSystem.run with scripted draws, real "
                          "DeepACOPolicy evaluation runs validated by ACOTrace.tla; Search.tla: every complete run of the ActiveSearch / EAS "
                          "protocol of a small scope replayed into the real classes, real RL4COTrainer.fit runs validated by SearchTrace.tla "
                          "(every rollout and stored solution re-scored on the original instance with TSP.tla / CVRP.tla)"}
    verdict.write_evidence("C15", tier, seed, "model_checking", cov,
                           ["coordinate-sensitive table policy as stub decoder", "exact lattice instances so that rewards are integers"],
                           time.time() - t0, n_new)
    return 1 if n_new else 0
