"""Real neural policies through the real decoding loop, recorded for DecodeTrace.tla."""
import random
import warnings

import torch

warnings.filterwarnings("ignore")
INV = ["M_InMask", "M_Lp", "M_Forced", "M_Sum", "M_Eval", "M_EvalR", "End"]


def policies(tier):
    from rl4co.models.zoo import AttentionModelPolicy
    out = [("AM", "tsp", lambda: AttentionModelPolicy(env_name="tsp", embed_dim=32, num_encoder_layers=1, num_heads=2)),
           ("AM", "cvrp", lambda: AttentionModelPolicy(env_name="cvrp", embed_dim=32, num_encoder_layers=1, num_heads=2)),
           ("AM", "op", lambda: AttentionModelPolicy(env_name="op", embed_dim=32, num_encoder_layers=1, num_heads=2)),
           ("AM", "pdp", lambda: AttentionModelPolicy(env_name="pdp", embed_dim=32, num_encoder_layers=1, num_heads=2))]
    for e in (("pctsp", "sdvrp", "cvrptw", "mtsp") if tier == "quick" else ("pctsp", "sdvrp", "cvrptw", "mtsp", "spctsp", "svrp")):
        if True:
            out.append(("AM", e, (lambda e=e: AttentionModelPolicy(env_name=e, embed_dim=32, num_encoder_layers=1, num_heads=2))))
    # PointerNetwork has its own forward loop (no encoder/decoder split): no reference loop, round trips only
    try:
        from rl4co.models.zoo import PointerNetworkPolicy
        out.append(("PtrNet", "tsp", lambda: PointerNetworkPolicy(env_name="tsp", embed_dim=32, hidden_dim=32)))
    except Exception:
        pass
    try:
        from rl4co.models.zoo import HeterogeneousAttentionModelPolicy
        out.append(("HAM", "pdp", lambda: HeterogeneousAttentionModelPolicy(env_name="pdp", embed_dim=32, num_encoder_layers=1, num_heads=2)))
    except Exception:
        pass
    return out


def masked_logp(logits, mask, tanh, temp):
    x = logits.double()
    if tanh > 0:
        x = torch.tanh(x) * tanh
    x = x.masked_fill(~mask, float("-inf")) / temp
    return torch.log_softmax(x, dim=-1)


def reference(policy, env, td0, actions, num_starts, multistart, temperature=None):
    """independent loop: encoder once, decoder per step, own masked log-softmax (float64), teacher forcing"""
    from rl4co.utils.ops import batchify

    td = td0.clone()
    hidden, _ = policy.encoder(td)
    T = actions.shape[1]
    ref, masks, forced = [], [], []
    t0 = 0
    if num_starts > 1:
        masks.append(batchify(td["action_mask"], num_starts).clone())
        td = batchify(td, num_starts)
        if multistart:
            td.set("action", actions[:, 0])
            td = env.step(td)["next"]
            ref.append(torch.zeros(actions.shape[0], dtype=torch.float64))
            forced.append(True)
            t0 = 1
        else:
            masks.pop()
    td, env, hidden = policy.decoder.pre_decoder_hook(td, env, hidden, num_starts)
    for t in range(t0, T):
        logits, mask = policy.decoder(td, hidden, num_starts)
        lp = masked_logp(logits, mask, policy.tanh_clipping, temperature if temperature is not None else policy.temperature)
        ref.append(lp.gather(1, actions[:, t:t + 1]).squeeze(1))
        masks.append(mask.clone())
        forced.append(False)
        td.set("action", actions[:, t])
        td = env.step(td)["next"]
    return torch.stack(ref, 1), masks, forced


def records(tier, seed):
    from rl4co.envs import get_env

    rnd = random.Random(seed)
    torch.manual_seed(seed)
    recs = []
    for (pname, ename, mk) in policies(tier):
        try:
            env = get_env(ename, generator_params={"num_loc": 8} if ename not in ("pdp",) else {"num_loc": 8})
            policy = mk().eval()
        except Exception as e:      # policy/env not constructible offline: recorded in evidence by absence
            continue
        B = 3
        td0 = env.reset(batch_size=[B])
        has_ref = pname != "PtrNet"
        # second pass with amplified weights (peaked distributions: index / ordering mistakes become visible) and a
        # non-default temperature given as decoding argument
        variants = [(1.0, None, ("greedy", "sampling", "multistart_greedy", "multistart_sampling")),
                    (4.0, 0.5, ("sampling", "multistart_sampling") if tier == "quick" else
                     ("greedy", "sampling", "multistart_greedy", "multistart_sampling"))]
        for (amp, temp, modes) in variants:
          if amp != 1.0:
            with torch.no_grad():
                for prm in policy.parameters():
                    if prm.dim() > 1:
                        prm.mul_(amp)
          tkw = {} if temp is None else {"temperature": temp}
          for mode in modes:
            kw = dict(tkw)
            K = 0
            if "multistart" in mode:
                if ename in ("fjsp", "jssp") or not has_ref:
                    continue
                K = 3
                kw["num_starts"] = K
            with torch.no_grad():
                torch.manual_seed(seed + 1)
                out = policy(td0.clone(), env, phase="test", decode_type=mode, return_sum_log_likelihood=False, **kw)
                actions = out["actions"]
                torch.manual_seed(seed + 1)
                out_sum = policy(td0.clone(), env, phase="test", decode_type=mode, return_sum_log_likelihood=True, **kw)
                same = torch.equal(out_sum["actions"], actions)
                if has_ref:
                    ref, masks, forced = reference(policy, env, td0, actions, K if K else 0, "multistart" in mode, temp)
                else:
                    ref = out["log_likelihood"]
                    forced = [False] * actions.shape[1]
                    masks = [torch.ones(actions.shape[0], td0["action_mask"].shape[-1], dtype=torch.bool)] * actions.shape[1]
                if pname == "PtrNet":     # its evaluation entry point is `eval_tours`
                    ev = policy(td0.clone(), env, phase="test", decode_type=mode, eval_tours=actions)
                elif "multistart" not in mode:
                    ev = policy(td0.clone(), env, actions=actions, return_sum_log_likelihood=False, **tkw)
                else:
                    # every replica re-evaluated as an ordinary (non multi-start) row of its own instance: no batchify,
                    # no cache regrouping on this path, so a replica that was decoded with another instance's
                    # embeddings shows up as a log-probability mismatch on the non-forced steps
                    idx = torch.arange(actions.shape[0]) % B
                    ev = policy(td0[idx].clone(), env, actions=actions, return_sum_log_likelihood=False, **tkw)
            if out["log_likelihood"].dim() == 1:
                # the policy only reports the summed log-likelihood (PointerNetwork): one pseudo-step per row, so that
                # the sum and the evaluate round trip are still checked
                for r in range(actions.shape[0]):
                    s_ = int(round(float(out["log_likelihood"][r]) * 1e6))
                    recs.append({"policy": pname, "env": ename, "mode": mode + ("" if amp == 1.0 else "/amp%g/T%g" % (amp, temp)),
                                 "row": r, "actions": [1], "mask": [[1]], "lp": [s_], "ref": [s_], "forced": [False],
                                 "ll_sum": int(round(float(out_sum["log_likelihood"][r]) * 1e6)) if same else s_,
                                 "eval_lp": [int(round(float(ev["log_likelihood"].reshape(actions.shape[0], -1).sum(-1)[r]) * 1e6))],
                                 "reward": int(round(float(out["reward"][r]) * 1e6)),
                                 "eval_reward": int(round(float(ev["reward"][r]) * 1e6))})
                continue
            for r in range(actions.shape[0]):
                recs.append({
                    "policy": pname, "env": ename, "mode": mode + ("" if amp == 1.0 else "/amp%g/T%g" % (amp, temp)), "row": r,
                    "actions": [int(a) + 1 for a in actions[r].tolist()],
                    "mask": [[i + 1 for i in m[r].nonzero().flatten().tolist()] for m in masks],
                    "lp": [int(round(float(x) * 1e6)) for x in out["log_likelihood"][r].tolist()],
                    "ref": [int(round(float(x) * 1e6)) for x in ref[r].tolist()],
                    "forced": forced,
                    "ll_sum": int(round(float(out_sum["log_likelihood"][r]) * 1e6)) if same else
                    int(round(float(out["log_likelihood"][r].sum()) * 1e6)),
                    "eval_lp": [int(round(float(x) * 1e6)) for x in ev["log_likelihood"][r].tolist()] if ev is not None else [],
                    "reward": int(round(float(out["reward"][r]) * 1e6)),
                    "eval_reward": int(round(float(ev["reward"][r]) * 1e6)) if ev is not None else 0,
                })
    return recs
