"""Real neural policies through the real decoding loop, recorded for DecodeTrace.tla.

Record styles (one per policy, see `policies`):
  ref    the policy has the encoder / decoder split of ConstructivePolicy: an independent reference loop (encoder once,
         decoder module per step, own float64 masked log-softmax, teacher forcing) recomputes the log-probability of every
         returned action; evaluate (`actions=`) round trip on top
  sum    the policy only reports the summed log-likelihood and has its own loop (PointerNetwork): one pseudo-step per row,
         sum + evaluate round trip only
  mdam   MDAM: P decoders ("paths") per instance, [B, P] summed log-likelihoods, no evaluate entry point; the actions of
         every path are observed through the environment handle the policy is given (get_reward is called once per path),
         the reference drives the path's own projection / context modules step by step
  ffsp   MultiStageFFSPPolicy (MatNet, one encoder/decoder pair per stage, own loop, summed log-likelihood only): the
         reference drives the stage decoders step by step
Decoding modes: greedy, sampling, multistart_greedy, multistart_sampling (forced first move), multisample_sampling
(`num_samples=K`: K sampled rollouts per instance, no forced move, evaluate through `actions=, num_samples=K`) and PolyNet's
own calling convention `decode_type="sampling", num_starts=K, multisample=True`.
Row bookkeeping of replicated batches: row r belongs to instance r mod B, replica r div B (rl4co.utils.ops.batchify).
Policies whose networks draw random numbers inside the forward pass (MatNet's random one-hot column embedding, the
hierarchical gate of the light MVMoE decoder) are recorded with the generator re-seeded before every call, so the rollout,
the reference loop and the evaluation see the same draws."""
import os
import random
import warnings

import torch

warnings.filterwarnings("ignore")
INV = ["M_InMask", "M_Lp", "M_Forced", "M_Sum", "M_Eval", "M_EvalR", "End"]
K = 3                                                  # replicas per instance in the multi-start / multi-sample modes
M4 = ("greedy", "sampling", "multistart_greedy", "multistart_sampling")
M5 = M4 + ("multisample_sampling",)
POLYNET_OWN = "sampling+num_starts+multisample"        # how rl4co.models.zoo.polynet.model.PolyNet calls its policy


def _entry(name, env, mk, **kw):
    d = {"name": name, "env": env, "mk": mk, "gp": {"num_loc": 8}, "style": "ref", "modes": M4,
         # evaluation of forced multi-start rows: "rows" = every replica re-evaluated as an ordinary row of its own instance
         # (only sound when a row's computation does not depend on its replica index and the net draws no random numbers)
         "ms_eval": "rows",
         "optional": False,      # known not to run on the pinned tree: recorded when it runs, skipped (with a note) when it raises
         "quick": True, "prep": None,
         "amp": 4.0,             # weight amplification of the second pass (peaked distributions)
         # the row-wise re-evaluation computes the same numbers in another batch layout; with amplified weights the float32
         # rounding between the two layouts was measured at up to 3.6e-5 for the instance-norm / mixture-of-experts nets
         # (tolerance of the specification: 3e-5), so those compare the amplified pass with the reference loop only
         "ms_eval_amp": True}
    d.update(kw)
    return d


class _Heat(torch.nn.Module):
    """stand-in for the GNN encoder of the non-autoregressive policies (torch_geometric is not installed offline): a small
    MLP over pairwise features -> heat-map logits [B, N, N]; the bundled NonAutoregressiveDecoder and NARGNNPolicy do the rest"""

    def __init__(self, hidden=32):
        super().__init__()
        self.net = torch.nn.Sequential(torch.nn.Linear(5, hidden), torch.nn.ReLU(), torch.nn.Linear(hidden, 1))

    def forward(self, td):
        x = td["locs"]
        n = x.shape[1]
        a = x.unsqueeze(2).expand(-1, -1, n, -1)
        b = x.unsqueeze(1).expand(-1, n, -1, -1)
        f = torch.cat([a, b, (a - b).norm(dim=-1, keepdim=True)], -1)
        return self.net(f).squeeze(-1), None


def trained_like_gates(policy):
    """MoE gating weights are initialised to zero (every expert ties): give them values as training would"""
    g = torch.Generator().manual_seed(1234)
    with torch.no_grad():
        for n, p in policy.named_parameters():
            if n.endswith("w_gate") or n.endswith("w_noise") or "dense_or_moe" in n:
                p.copy_(torch.randn(p.shape, generator=g))
    return policy


def moe_kwargs(light):
    return {"encoder": {"hidden_act": "ReLU", "num_experts": 4, "k": 2, "noisy_gating": True},
            "decoder": {"light_version": light, "num_experts": 4, "k": 2, "noisy_gating": True}}     # MVMoE_POMO's defaults


SCHED = {"num_jobs": 3, "num_machines": 2}


def policies(tier):
    from rl4co.models.zoo import AttentionModelPolicy
    quick = tier == "quick"
    kw = dict(embed_dim=32, num_encoder_layers=1, num_heads=2)
    out = []
    for e in ("tsp", "cvrp", "op", "pdp", "pctsp", "sdvrp", "cvrptw", "mtsp", "spctsp", "svrp"):
        # svrp: forced multi-start moves ignore the skill mask (the environment's checker then rejects the tour; start
        # selection is C12's subject), so only the modes without a forced move are recorded there
        modes = ("greedy", "sampling", "multisample_sampling") if e == "svrp" else \
            M5 if e in (("tsp",) if quick else ("tsp", "cvrp", "sdvrp")) else M4
        if e in ("tsp", "cvrp", "op"):
            # sampling filters: the step distribution is the FILTERED, re-normalised one
            modes = tuple(modes) + ("sampling/top_k2", "sampling/top_p60")
        out.append(_entry("AM", e, (lambda e=e: AttentionModelPolicy(env_name=e, **kw)), quick=e not in ("spctsp", "svrp"), modes=modes))
    # PointerNetwork has its own forward loop (no encoder/decoder split): no reference loop, round trips only
    try:
        from rl4co.models.zoo import PointerNetworkPolicy
        out.append(_entry("PtrNet", "tsp", lambda: PointerNetworkPolicy(env_name="tsp", embed_dim=32, hidden_dim=32),
                          style="sum", modes=("greedy", "sampling")))
    except Exception:
        pass
    try:
        from rl4co.models.zoo import HeterogeneousAttentionModelPolicy
        out.append(_entry("HAM", "pdp", lambda: HeterogeneousAttentionModelPolicy(env_name="pdp", **kw)))
    except Exception:
        pass
    # ---- POMO / SymNCO: attention model variants (instance norm, no graph context; projection head wrapper)
    out.append(_entry("POMO", "tsp", lambda: AttentionModelPolicy(env_name="tsp", normalization="instance", use_graph_context=False, **kw),
                      ms_eval_amp=False))
    out.append(_entry("POMO", "cvrp", lambda: AttentionModelPolicy(env_name="cvrp", normalization="instance", use_graph_context=False, **kw),
                      quick=False, ms_eval_amp=False))
    try:
        from rl4co.models.zoo.symnco.policy import SymNCOPolicy
        out.append(_entry("SymNCO", "tsp", lambda: SymNCOPolicy(env_name="tsp", **kw)))
        out.append(_entry("SymNCO", "cvrp", lambda: SymNCOPolicy(env_name="cvrp", **kw), quick=False))
    except Exception:
        pass
    # ---- MatNet (random one-hot column embedding drawn inside the encoder: a re-evaluation of B*K rows would draw
    #      another embedding, so forced multi-start rows are compared with the reference loop only)
    try:
        from rl4co.models.zoo.matnet.policy import MatNetPolicy
        out.append(_entry("MatNet", "atsp", lambda: MatNetPolicy(env_name="atsp", **kw), modes=M5, ms_eval=None))
        # public constructor for the flow shop (raises TypeError on the pinned tree: not constructible, skipped)
        out.append(_entry("MatNet", "ffsp", lambda: MatNetPolicy(env_name="ffsp", **kw), modes=("greedy", "sampling"), ms_eval=None,
                          gp={"num_stage": 2, "num_machine": 2, "num_job": 4}, quick=False, optional=True))
        from rl4co.models.zoo.matnet.policy import MultiStageFFSPPolicy
        out.append(_entry("MatNetFFSP", "ffsp", lambda: MultiStageFFSPPolicy(stage_cnt=2, embed_dim=32, num_heads=2, num_encoder_layers=1,
                                                                              feedforward_hidden=64),
                          style="ffsp", modes=("greedy", "sampling"),
                          gp={"num_stage": 2, "num_machine": 2, "num_job": 4, "flatten_stages": False}))
    except Exception:
        pass
    # ---- PolyNet: replica j of an instance decodes with strategy vector j, so a forced multi-start row cannot be
    #      re-evaluated as an ordinary row (strategy 0); the multi-sample evaluation keeps the replica structure
    try:
        from rl4co.models.zoo.polynet.policy import PolyNetPolicy
        pm = ("greedy", "sampling", "multisample_sampling", "multistart_greedy", "multistart_sampling", POLYNET_OWN)
        out.append(_entry("PolyNet", "tsp", lambda: PolyNetPolicy(env_name="tsp", k=K, **kw), modes=pm, ms_eval=None))
        out.append(_entry("PolyNet", "cvrp", lambda: PolyNetPolicy(env_name="cvrp", k=K, **kw), modes=pm, ms_eval=None))
        out.append(_entry("PolyNet", "sdvrp", lambda: PolyNetPolicy(env_name="sdvrp", k=K, **kw), modes=pm, ms_eval=None, quick=False))
        out.append(_entry("PolyNet(MatNet)", "atsp", lambda: PolyNetPolicy(env_name="atsp", k=K, encoder_type="MatNet", **kw),
                          modes=pm, ms_eval=None, quick=False))
    except Exception:
        pass
    # ---- L2D scheduling policies
    try:
        from rl4co.models.zoo.l2d.policy import L2DAttnPolicy, L2DPolicy, L2DPolicy4PPO
        lk = dict(embed_dim=32, num_encoder_layers=1)
        out.append(_entry("L2D", "fjsp", lambda: L2DPolicy(env_name="fjsp", **lk), gp=SCHED, modes=M5))
        out.append(_entry("L2D", "jssp", lambda: L2DPolicy(env_name="jssp", **lk), gp=SCHED, modes=M5))
        out.append(_entry("L2D(stepwise)", "fjsp", lambda: L2DPolicy(env_name="fjsp", stepwise_encoding=True, **lk), gp=SCHED, modes=M5))
        out.append(_entry("L2D4PPO", "jssp", lambda: L2DPolicy4PPO(env_name="jssp", **lk), gp=SCHED, modes=M5, quick=False))
        # the public L2DAttnPolicy raises in its first decoding step on the pinned tree (the actor's pre_decoder_hook returns a
        # 1-tuple the decoder then reads as the cache): skipped while it does, recorded as soon as it runs
        for e in ("fjsp", "jssp"):
            out.append(_entry("L2DAttn", e, (lambda e=e: L2DAttnPolicy(env_name=e, num_heads=2, **lk)), gp=SCHED, modes=M5,
                              quick=False, optional=True))
            out.append(_entry("L2DAttn(actor in L2DDecoder)", e, (lambda e=e: _l2d_attn_composed(e)), gp=SCHED,
                              modes=("greedy", "sampling"), quick=e == "fjsp"))
    except Exception:
        pass
    # ---- MVMoE: attention model with mixture-of-experts layers on the multi-task VRP (all variants in one batch)
    mt = {"num_loc": 8, "variant_preset": "all"}
    out.append(_entry("MVMoE", "mtvrp", lambda: AttentionModelPolicy(env_name="mtvrp", moe_kwargs=moe_kwargs(False), normalization="instance",
                                                                     use_graph_context=False, **kw), gp=mt, prep=trained_like_gates,
                      amp=2.0, ms_eval_amp=False))
    # light decoder: a dense-or-MoE gate is SAMPLED at every decoding step (also in eval mode), so only greedy decoding
    # consumes the generator in the same order as the reference loop and the evaluation
    out.append(_entry("MVMoE(light)", "mtvrp", lambda: AttentionModelPolicy(env_name="mtvrp", moe_kwargs=moe_kwargs(True), normalization="instance",
                                                                            use_graph_context=False, **kw), gp=mt, prep=trained_like_gates,
                      modes=("greedy",), quick=False, amp=2.0))
    # ---- non-autoregressive policies: NARGNNPolicy + NonAutoregressiveDecoder with a stand-in heat-map encoder
    try:
        from rl4co.models.zoo.nargnn.policy import NARGNNPolicy
        out.append(_entry("NARGNN(stub encoder)", "tsp", lambda: NARGNNPolicy(encoder=_Heat(), env_name="tsp")))
        # (num_samples=K raises in NonAutoregressiveDecoder.heatmap_to_logits at the first step: the mean heat-map row is not
        #  replicated for the batchified state; multi-sample decoding is therefore not recorded for this policy)
    except Exception:
        pass
    # ---- MDAM (thorough tier: on the pinned tree the reported log-likelihood is the sum of raw logits)
    try:
        from rl4co.models.zoo.mdam.policy import MDAMPolicy
        out.append(_entry("MDAM", "tsp", lambda: MDAMPolicy(env_name="tsp", **kw), style="mdam", modes=("greedy", "sampling")))
        out.append(_entry("MDAM", "cvrp", lambda: MDAMPolicy(env_name="cvrp", **kw), style="mdam", modes=("greedy", "sampling"), quick=False))
    except Exception:
        pass
    return [e for e in out if e["quick"] or not quick]


def _l2d_attn_composed(env_name):
    """the attention actor the way L2DDecoder drives it (actor(td, *hidden)): the composition that does run"""
    from rl4co.models.nn.env_embeddings.init import FJSPMatNetInitEmbedding
    from rl4co.models.zoo.l2d.decoder import L2DAttnActor, L2DDecoder
    from rl4co.models.zoo.l2d.policy import L2DPolicy
    from rl4co.models.zoo.matnet.matnet_w_sa import Encoder
    enc = Encoder(embed_dim=32, num_heads=2, num_layers=1, normalization="batch", feedforward_hidden=64,
                  init_embedding=FJSPMatNetInitEmbedding(32, scaling_factor=1000))
    dec = L2DDecoder(env_name=env_name, embed_dim=32,
                     actor=L2DAttnActor(env_name=env_name, embed_dim=32, num_heads=2, scaling_factor=1000, stepwise=False))
    return L2DPolicy(env_name=env_name, encoder=enc, decoder=dec)


def masked_logp(logits, mask, tanh, temp):
    x = logits.double()
    if tanh > 0:
        x = torch.tanh(x) * tanh
    x = x.masked_fill(~mask, float("-inf")) / temp
    return torch.log_softmax(x, dim=-1)


def filtered_logp(lp, top_k, top_p):
    """own float64 version of the sampling filters on a masked log-softmax `lp`: top-k keeps the k largest (ties kept), then
    top-p (nucleus) on the re-normalised rest keeps the smallest set of most likely actions whose mass reaches top_p
    (ascending cumulative mass <= 1 - top_p is dropped; the most likely action always stays), then re-normalises.
    Returns (log-probabilities, safe): safe[b] is False where a threshold is too close to call in float arithmetic."""
    n = lp.shape[-1]
    safe = torch.ones(lp.shape[0], dtype=torch.bool)
    if top_k > 0:
        k = min(top_k, n)
        srt = lp.sort(dim=-1, descending=True).values
        kth = srt[:, k - 1:k]
        if k < n:
            nxt = srt[:, k:k + 1]
            safe &= ~(torch.isfinite(nxt) & ((kth - nxt).abs() < 1e-4) & (kth != nxt)).squeeze(1)
        lp = torch.log_softmax(lp.masked_fill(lp < kth, float("-inf")), dim=-1)
    if 0 < top_p < 1:
        srt, idx = lp.sort(dim=-1, descending=False)
        cum = srt.exp().cumsum(-1)
        drop = cum <= (1 - top_p)
        drop[:, -1] = False
        safe &= ~((cum - (1 - top_p)).abs() < 1e-4)[:, :-1].any(-1)
        rem = torch.zeros_like(drop).scatter(1, idx, drop)
        lp = torch.log_softmax(lp.masked_fill(rem, float("-inf")), dim=-1)
    return lp, safe


def reference(policy, env, td0, actions, num_starts, multistart, temperature=None, top_k=0, top_p=0.0, reported=None):
    """independent loop: encoder once, decoder per step, own masked log-softmax (float64), teacher forcing"""
    from rl4co.utils.ops import batchify

    td = td0.clone()
    hidden, _ = policy.encoder(td)
    T = actions.shape[1]
    ref, masks, forced = [], [], []
    t0 = 0
    if num_starts > 1:
        masks.append(batchify(td["action_mask"], num_starts).clone())
        td = batchify(td, num_starts)
        if multistart:
            td.set("action", actions[:, 0])
            td = env.step(td)["next"]
            ref.append(torch.zeros(actions.shape[0], dtype=torch.float64))
            forced.append(True)
            t0 = 1
        else:
            masks.pop()
    td, env, hidden = policy.decoder.pre_decoder_hook(td, env, hidden, num_starts)
    for t in range(t0, T):
        logits, mask = policy.decoder(td, hidden, num_starts)
        lp = masked_logp(logits, mask, policy.tanh_clipping, temperature if temperature is not None else policy.temperature)
        if top_k or top_p:
            lp, safe = filtered_logp(lp, top_k, top_p)
            col = lp.gather(1, actions[:, t:t + 1]).squeeze(1)
            if reported is not None:     # a threshold too close to call: the step is released (reference := reported value)
                col = torch.where(safe, col, reported[:, t].double())
            ref.append(col)
            masks.append(mask.clone())
            forced.append(False)
            td.set("action", actions[:, t])
            td = env.step(td)["next"]
            continue
        ref.append(lp.gather(1, actions[:, t:t + 1]).squeeze(1))
        masks.append(mask.clone())
        forced.append(False)
        td.set("action", actions[:, t])
        td = env.step(td)["next"]
    return torch.stack(ref, 1), masks, forced


def mode_call(mode):
    """(decode_type, decoding kwargs, replicas per instance, forced first move)"""
    if mode in ("greedy", "sampling"):
        return mode, {}, 0, False
    if mode.startswith("sampling/top_k"):
        return "sampling", {"top_k": int(mode[len("sampling/top_k"):])}, 0, False
    if mode.startswith("sampling/top_p"):
        return "sampling", {"top_p": int(mode[len("sampling/top_p"):]) / 100.0}, 0, False
    if mode.startswith("multistart_"):
        return mode, {"num_starts": K}, K, True
    if mode == "multisample_sampling":
        return "sampling", {"num_samples": K}, K, False
    if mode == POLYNET_OWN:
        # num_starts > 1 switches DecodingStrategy to multi-start (forced, distinct first moves) whatever `multisample` says
        return "sampling", {"num_starts": K, "multisample": True}, K, True
    raise ValueError(mode)


def u(x):
    return int(round(float(x) * 1e6))


class _Tap:
    """environment handle given to a policy that keeps its per-path actions to itself: get_reward(td, actions) is called
    once per path, in path order; everything else is the real environment"""

    def __init__(self, env):
        self._env = env
        self.paths = []

    def get_reward(self, td, actions):
        self.paths.append(actions.clone())
        return self._env.get_reward(td, actions)

    def __getattr__(self, k):
        return getattr(self._env, k)


def mdam_step_logp(dec, fixed, td, p):
    """masked, normalised step distribution of path p (float64) and the mask; tanh clipping and masking are applied inside
    the decoder's own _get_logprobs"""
    lg, mask = dec._get_logprobs(fixed, td, p)
    return torch.log_softmax(lg[:, 0, :].double().masked_fill(~mask, float("-inf")), dim=-1), mask


def ffsp_step_logp(policy, td):
    """multi-stage flow shop: every stage decoder is evaluated, the row's distribution is that of its current stage"""
    from rl4co.models.zoo.am.decoder import AttentionModelDecoder
    per_stage = []
    for dec in policy.decoders:
        logits, mask = AttentionModelDecoder.forward(dec, td, dec.cached_embs, 1)
        per_stage.append(masked_logp(logits, mask, dec.tanh_clipping, 1.0))
    st = torch.stack(per_stage, 1)                          # [B, stages, actions]
    return st.gather(1, td["stage_idx"][:, None, None].expand(-1, 1, st.shape[-1])).squeeze(1)


def mdam_records(entry, policy, env, td0, mode, label, seed):
    tap = _Tap(env)
    torch.manual_seed(seed + 1)
    out = policy(td0.clone(), tap, phase="test", decode_type=mode)
    ll, rew = out["log_likelihood"], out["reward"]          # [B, P]: summed over the steps of every path
    dec = policy.decoder
    B = td0.batch_size[0]
    enc = policy.encoder(policy.init_embedding(td0.clone()))[0]
    recs = []
    for p in range(dec.num_paths):
        A = tap.paths[p]
        fixed = dec._precompute(enc.clone(), path_index=p)
        td = td0.clone()
        ref = torch.zeros(B, dtype=torch.float64)
        inmask = torch.ones(B, dtype=torch.bool)
        for t in range(A.shape[1]):
            lp, mask = mdam_step_logp(dec, fixed, td, p)
            ref += lp.gather(1, A[:, t:t + 1]).squeeze(1)
            inmask &= mask.gather(1, A[:, t:t + 1]).squeeze(1)
            td.set("action", A[:, t])
            td = env.step(td)["next"]
        for r in range(B):
            recs.append({"policy": entry["name"], "env": entry["env"], "mode": "%s/path%d" % (label, p), "row": r,
                         "actions": [1], "mask": [[1] if bool(inmask[r]) else [2]], "lp": [u(ll[r, p])], "ref": [u(ref[r])],
                         "forced": [False], "ll_sum": u(ll[r, p]), "eval_lp": [], "reward": u(rew[r, p]), "eval_reward": 0,
                         "path_actions": A[r].tolist()})
    if not torch.equal(out["actions"], tap.paths[-1]):
        # the action sequence the policy returns is the last path's
        recs.append({"policy": entry["name"], "env": entry["env"], "mode": label + "/returned-actions", "row": 0, "actions": [1], "mask": [[2]],
                     "lp": [0], "ref": [0], "forced": [False], "ll_sum": 0, "eval_lp": [], "reward": 0, "eval_reward": 0})
    return recs


def ffsp_records(entry, policy, env, td0, mode, label, seed):
    """MultiStageFFSPPolicy: decode type comes from the phase attribute; summed log-likelihood only"""
    policy.test_decode_type = mode
    torch.manual_seed(seed + 1)
    out = policy(td0.clone(), env, phase="test", num_starts=1)
    A = out["actions"]
    B = A.shape[0]
    torch.manual_seed(seed + 1)
    td = policy.pre_forward(td0.clone(), env, 1)             # encodes every stage (same random one-hot draws) and fills the caches
    ref = torch.zeros(B, dtype=torch.float64)
    inmask = torch.ones(B, dtype=torch.bool)
    for t in range(A.shape[1]):
        ref += ffsp_step_logp(policy, td).gather(1, A[:, t:t + 1]).squeeze(1)
        inmask &= td["action_mask"].gather(1, A[:, t:t + 1]).squeeze(1)
        td.set("action", A[:, t])
        td = env.step(td)["next"]
    recs = []
    for r in range(B):
        s_ = u(out["log_likelihood"][r])
        recs.append({"policy": entry["name"], "env": entry["env"], "mode": label, "row": r, "actions": [1],
                     "mask": [[1] if bool(inmask[r]) else [2]], "lp": [s_], "ref": [u(ref[r])], "forced": [False], "ll_sum": s_,
                     "eval_lp": [], "reward": u(out["reward"][r]), "eval_reward": 0, "path_actions": A[r].tolist()})
    return recs


def records(tier, seed, only=None, only_modes=None, extras=True):
    """only: set of (policy name, env name) to restrict the matrix; only_modes: predicate on the mode name"""
    from rl4co.envs import get_env

    rnd = random.Random(seed)
    torch.manual_seed(seed)
    recs = []
    for entry in policies(tier):
        pname, ename = entry["name"], entry["env"]
        if only is not None and (pname, ename) not in only:
            continue
        if only_modes is not None:
            entry = dict(entry, modes=tuple(m for m in entry["modes"] if only_modes(m)))
        try:
            env = get_env(ename, generator_params=dict(entry["gp"]))
            policy = entry["mk"]().eval()
            if entry["prep"] is not None:
                policy = entry["prep"](policy)
        except Exception as e:      # policy/env not constructible offline: recorded in evidence by absence
            _note("%s/%s not constructible: %s: %s" % (pname, ename, type(e).__name__, str(e)[:120]))
            continue
        B = 3
        td0 = env.reset(batch_size=[B])
        if entry["optional"]:
            try:
                with torch.no_grad():
                    policy(td0.clone(), env, phase="test", decode_type="greedy")
            except Exception as e:
                _note("%s/%s does not run on this tree: %s: %s" % (pname, ename, type(e).__name__, str(e)[:120]))
                continue
        has_ref = entry["style"] == "ref"
        # second pass with amplified weights (peaked distributions: index / ordering mistakes become visible) and a
        # non-default temperature given as decoding argument
        sampled = tuple(m for m in entry["modes"] if "greedy" not in m)
        variants = [(1.0, None, entry["modes"]),
                    (entry["amp"], 0.5, sampled if (tier == "quick" and sampled) else entry["modes"])]
        for (amp, temp, modes) in variants:
          if amp != 1.0:
            with torch.no_grad():
                for prm in policy.parameters():
                    if prm.dim() > 1:
                        prm.mul_(amp)
          tkw = {} if (temp is None or entry["style"] != "ref") else {"temperature": temp}
          for mode in modes:
            label = mode + ("" if amp == 1.0 else ("/amp%g/T%g" % (amp, temp) if tkw else "/amp%g" % amp))
            if entry["style"] == "mdam":
                with torch.no_grad():
                    recs += mdam_records(entry, policy, env, td0, mode, label, seed)
                continue
            if entry["style"] == "ffsp":
                with torch.no_grad():
                    recs += ffsp_records(entry, policy, env, td0, mode, label, seed)
                continue
            dtype, mkw, Kn, forced1 = mode_call(mode)
            if Kn and not has_ref:
                continue
            if os.environ.get("VERIF_VERBOSE"):
                print("[C11 nets] %s/%s/%s" % (pname, ename, label), flush=True)
            kw = dict(tkw)
            kw.update(mkw)
            with torch.no_grad():
                torch.manual_seed(seed + 1)
                out = policy(td0.clone(), env, phase="test", decode_type=dtype, return_sum_log_likelihood=False, **kw)
                actions = out["actions"]
                torch.manual_seed(seed + 1)
                out_sum = policy(td0.clone(), env, phase="test", decode_type=dtype, return_sum_log_likelihood=True, **kw)
                same = torch.equal(out_sum["actions"], actions)
                if has_ref:
                    torch.manual_seed(seed + 1)
                    ref, masks, forced = reference(policy, env, td0, actions, Kn, forced1, temp if tkw else None,
                                                   top_k=mkw.get("top_k", 0), top_p=mkw.get("top_p", 0.0), reported=out["log_likelihood"])
                else:
                    ref = out["log_likelihood"]
                    forced = [False] * actions.shape[1]
                    masks = [torch.ones(actions.shape[0], td0["action_mask"].shape[-1], dtype=torch.bool)] * actions.shape[1]
                torch.manual_seed(seed + 1)
                if pname == "PtrNet":     # its evaluation entry point is `eval_tours`
                    ev = policy(td0.clone(), env, phase="test", decode_type=dtype, eval_tours=actions)
                elif not Kn:
                    ev = policy(td0.clone(), env, actions=actions, return_sum_log_likelihood=False, **(kw if "/top_" in mode else tkw))
                elif not forced1:
                    # K sampled rollouts per instance: the evaluation replicates the batch the same way (num_samples)
                    ev = policy(td0.clone(), env, actions=actions, return_sum_log_likelihood=False, **kw)
                elif entry["ms_eval"] == "rows" and (amp == 1.0 or entry["ms_eval_amp"]):
                    # every replica re-evaluated as an ordinary (non multi-start) row of its own instance: no batchify,
                    # no cache regrouping on this path, so a replica that was decoded with another instance's
                    # embeddings shows up as a log-probability mismatch on the non-forced steps
                    idx = torch.arange(actions.shape[0]) % B
                    ev = policy(td0[idx].clone(), env, actions=actions, return_sum_log_likelihood=False, **tkw)
                else:
                    ev = None
            if out["log_likelihood"].dim() == 1:
                # the policy only reports the summed log-likelihood (PointerNetwork): one pseudo-step per row, so that
                # the sum and the evaluate round trip are still checked
                for r in range(actions.shape[0]):
                    s_ = u(out["log_likelihood"][r])
                    recs.append({"policy": pname, "env": ename, "mode": label,
                                 "row": r, "actions": [1], "mask": [[1]], "lp": [s_], "ref": [s_], "forced": [False],
                                 "ll_sum": u(out_sum["log_likelihood"][r]) if same else s_,
                                 "eval_lp": [u(ev["log_likelihood"].reshape(actions.shape[0], -1).sum(-1)[r])],
                                 "reward": u(out["reward"][r]),
                                 "eval_reward": u(ev["reward"][r])})
                continue
            for r in range(actions.shape[0]):
                recs.append({
                    "policy": pname, "env": ename, "mode": label, "row": r,
                    "actions": [int(a) + 1 for a in actions[r].tolist()],
                    "mask": [[i + 1 for i in m[r].nonzero().flatten().tolist()] for m in masks],
                    "lp": [u(x) for x in out["log_likelihood"][r].tolist()],
                    "ref": [u(x) for x in ref[r].tolist()],
                    "forced": forced,
                    "ll_sum": u(out_sum["log_likelihood"][r]) if same else u(out["log_likelihood"][r].sum()),
                    "eval_lp": [u(x) for x in ev["log_likelihood"][r].tolist()] if ev is not None else [],
                    "reward": u(out["reward"][r]),
                    "eval_reward": u(ev["reward"][r]) if ev is not None else 0,
                })
    if extras:
        recs += irrelevant_step_records(seed)
    return recs


def irrelevant_step_records(seed):
    """steps flagged as irrelevant (`td["mask"]`, the public hook ConstructivePolicy.forward hands to get_log_likelihood)
    contribute zero -- in the per-step form and in the sum, in a rollout and in the evaluation of given actions.  No bundled
    environment sets the key, so the harness adds it to the reset state of a real TSPEnv (it travels through _step untouched)."""
    from rl4co.envs import TSPEnv
    from rl4co.models.zoo import AttentionModelPolicy

    recs = []
    n, B = 6, 4
    env = TSPEnv(generator_params={"num_loc": n})
    flag = torch.tensor([[(b + 2 * t) % 3 != 0 for t in range(n)] for b in range(B)])      # False = irrelevant step
    orig = env.reset

    def reset(td=None, batch_size=None):
        out = orig(td, batch_size=batch_size)
        out["mask"] = flag[: out.shape[0]].clone()
        return out

    env.reset = reset
    policy = AttentionModelPolicy(env_name="tsp", embed_dim=32, num_encoder_layers=1, num_heads=2).eval()
    td0 = env.reset(batch_size=[B])
    for mode in ("greedy", "sampling"):
        with torch.no_grad():
            torch.manual_seed(seed + 7)
            out = policy(td0.clone(), env, phase="test", decode_type=mode, return_sum_log_likelihood=False)
            torch.manual_seed(seed + 7)
            out_sum = policy(td0.clone(), env, phase="test", decode_type=mode, return_sum_log_likelihood=True)
            actions = out["actions"]
            same = torch.equal(out_sum["actions"], actions)
            ref, masks, _ = reference(policy, env, td0, actions, 0, False)
            ev = policy(td0.clone(), env, actions=actions, return_sum_log_likelihood=False)
            ev_sum = policy(td0.clone(), env, actions=actions, return_sum_log_likelihood=True)
        for r in range(B):
            lp = [u(x) for x in out["log_likelihood"][r].tolist()]
            recs.append({"policy": "AM", "env": "tsp+irrelevant-step flags", "mode": mode, "row": r,
                         "actions": [int(a) + 1 for a in actions[r].tolist()],
                         "mask": [[i + 1 for i in m[r].nonzero().flatten().tolist()] for m in masks],
                         "lp": lp, "ref": [u(x) for x in ref[r].tolist()],
                         "forced": [not bool(f) for f in flag[r].tolist()],        # flagged steps must contribute exactly 0
                         "ll_sum": u(out_sum["log_likelihood"][r]) if same else sum(lp),
                         "eval_lp": [u(x) for x in ev["log_likelihood"][r].tolist()],
                         "reward": u(out["reward"][r]), "eval_reward": u(ev["reward"][r])})
            # the summed form of the evaluation as a pseudo-record: one step whose value must be the sum of the relevant steps
            want = sum(x for x, f in zip(lp, flag[r].tolist()) if f)
            recs.append({"policy": "AM", "env": "tsp+irrelevant-step flags", "mode": mode + "/evaluate-summed", "row": r,
                         "actions": [1], "mask": [[1]], "lp": [u(ev_sum["log_likelihood"][r])], "ref": [want], "forced": [False],
                         "ll_sum": u(ev_sum["log_likelihood"][r]), "eval_lp": [u(ev_sum["log_likelihood"][r])],
                         "reward": u(out["reward"][r]), "eval_reward": u(ev_sum["reward"][r])})
    return recs


NOTES = []


def _note(s):
    NOTES.append(s)
    if os.environ.get("VERIF_VERBOSE"):
        print("[C11 nets] " + s, flush=True)
