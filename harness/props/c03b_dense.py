"""C03 / C07 / C04 (growth) -- the STEP-WISE (dense) reward interfaces of rl4co:
  * DenseRewardTSPEnv                      (spec/env/DenseTSP.tla,     property C03)
  * FJSPEnv / JSSPEnv(stepwise_reward=True) (spec/env/FJSPStepwise.tla, property C07)
i.e. what StepwisePPO reads with `env.get_reward(next_td, None)` after every environment step.

(1) TLC model-checks the dense interface over the instance families of the existing adapters (harness/envs/tsp.py,
    fjsp.py): wrapper spec/common/DenseSolo.tla.tmpl, invariants ObsIsDefined StepRewardIsLBDecrease TelescopesRunning
    Telescopes LBNeverAboveMakespan MinLBNeverAboveMakespan PaddingRewardZero; every terminal behaviour (with the model's step
    rewards, the rewards PART 1 demands, the total) and every reachable state (projection) is exported.
(2a) the REAL environments are expanded breadth-first over every True mask entry (all rows of a depth in one real batch, rows
    permuted at every depth, finished rows kept in the batch and stepped with mask-admitted padding actions next to rows still
    running), the per-step reward being read the way StepwisePPO reads it; sampled episodes are re-run solo (batch of one) and
    as rows of mixed batches; every recorded row is validated by TLC (spec/common/DenseTrace.tla.tmpl).
(2a') the real StepwisePPO.shared_step drives the real environments with a random mask-confined stub policy; the transitions
    it hands to its replay buffer (reward = what it read after the step; rows that finish early keep being stepped) are
    re-assembled per row and validated by the same trace spec (monitors prefixed "ppo-").
(2b) every behaviour TLC explored is replayed into the real environment (rows of different length in one batch), comparing
    after every action the reward with what the specification demands and the projected state with the model's.
Violations: "C03" (dense TSP), "C07" (scheduling), "C04" (a row's rewards depend on padding / batch-mates).
LBNeverAboveMakespan is reported as an OBSERVATION (cov["observations"]), never as a violation: the properties at stake do not
demand that the feature called "lower bound" is one."""
import concurrent.futures as cf
import logging
import math
import os
import random
import sys
import time
import warnings

os.environ.setdefault("VERIF_RUN_ID", "%d" % os.getpid())      # private TLC scratch (set by harness/check.py otherwise)
_REPO = os.environ.get("VERIF_REPO", "/repo")
if _REPO not in sys.path:
    sys.path.insert(0, _REPO)

import torch  # noqa: E402

from .. import tlc  # noqa: E402
from ..driver import done_of, group_by, mask_list  # noqa: E402
from ..envs.fjsp import FJSP, JSSP, _Guard, _inst  # noqa: E402
from ..envs.tsp import TSP  # noqa: E402

warnings.filterwarnings("ignore")

BAD = 77777777          # "not a value the specification can produce" (non-integral / non-finite number under an exact embedding)
SOLO_INV = ["ObsIsDefined", "StepRewardIsLBDecrease", "TelescopesRunning", "Telescopes", "LBNeverAboveMakespan",
            "MinLBNeverAboveMakespan", "PaddingRewardZero", "Emit", "EmitQ"]
TRACE_INV = ["M_Driver", "M_Ends", "M_DObs", "M_DStep", "M_DTele", "M_DTerm", "M_DPad", "M_DBound", "DConf", "End"]
# what PART 2 of DenseTSP.tla assumes of the code at hand (DenseRewardTSPEnv._step): flip both after a repair of the
# environment (first step free, closing leg charged on the finishing step)
# the code-shaped model of DenseRewardTSPEnv: both former defects (first step charged d(0, a1); closing leg never charged) are
# repaired in /repo (finding F45), so the model carries neither; VERIF_DENSE_TSP_QUIRKS=1 models the pre-repair code
DENSE_TSP_QUIRKS = {"q_first0": False, "q_noclose": False}
if os.environ.get("VERIF_DENSE_TSP_QUIRKS"):
    DENSE_TSP_QUIRKS = {"q_first0": True, "q_noclose": True}
MAX_WITNESSES = 25      # per (env, monitor) class


def crash_site(exc):
    repo = os.path.realpath(os.environ.get("VERIF_REPO", "/repo"))
    tb = exc.__traceback__
    frames = []
    while tb is not None:
        frames.append((os.path.realpath(tb.tb_frame.f_code.co_filename), tb.tb_lineno))
        tb = tb.tb_next
    for fn, ln in reversed(frames):
        if "site-packages" in fn or fn.startswith("<"):
            continue
        if fn.startswith(os.path.join(repo, "rl4co")):
            return "%s:%d" % (os.path.relpath(fn, repo), ln)
        return None
    return None


def to_int(v):
    """exact embedding: a real number that must be an integer in the module's units"""
    if v != v or v in (float("inf"), float("-inf")):
        return BAD
    iv = int(round(v))
    return iv if abs(v - iv) <= 2e-3 else BAD


# ---------------------------------------------------------------------------------------------------------------
# adapters: the existing ones (families, exact embeddings, projections) pointed at the step-wise environments
# ---------------------------------------------------------------------------------------------------------------
class DenseMixin:
    prop = "C03"
    torchrl = False

    def dunit(self, inst):
        return 1

    def step_rewards(self, env, td_next, insts):
        """what StepwisePPO reads after a step: env.get_reward(next_td, None), per row, in the module's integer units"""
        r = env.get_reward(td_next, None)
        r = r.reshape(td_next.shape[0], -1)[:, 0].tolist()
        return [to_int(x * self.scale(i) * self.dunit(i)) for x, i in zip(r, insts)]

    def terminal(self, env, td, hists, insts):
        """the terminal reward path: env.get_reward(td, actions) of finished rows"""
        L = max(len(h) for h in hists)       # rows finish after different numbers of steps (scheduling: the actions are not read)
        acts = torch.tensor([list(h) + [0] * (L - len(h)) for h in hists], dtype=torch.long)
        try:
            r = env.get_reward(td, acts).reshape(td.shape[0], -1)[:, 0].tolist()
        except Exception:       # noqa: BLE001
            r = []
            for k in range(td.shape[0]):
                try:
                    r.append(float(env.get_reward(td[k:k + 1], acts[k:k + 1]).reshape(-1)[0]))
                except Exception:       # noqa: BLE001
                    r.append(float("nan"))
        return [to_int(x * self.scale(i)) for x, i in zip(r, insts)]

    def obs(self, td, r, inst):
        return {"x": 0}

    def dproj(self, td, r, inst):
        raise NotImplementedError


class DenseTSPAd(DenseMixin, TSP):
    name = "tsp_dense"
    tag = "tsp_dense"
    module = "DenseTSP"
    prop = "C03"
    pad_steps = 0

    def family(self, tier, seed=0):
        fam = TSP.family(self, tier, seed)
        for i in fam:
            i.update(DENSE_TSP_QUIRKS)
        return fam

    def make_env(self, inst):
        from rl4co.envs import DenseRewardTSPEnv

        return DenseRewardTSPEnv(generator_params={"num_loc": inst["N"]})

    def dproj(self, td, r, inst):
        p = self.project(td, r, inst)
        return [p["cur"], p["i"], p["first"]]


class FJSPStepAd(DenseMixin, FJSP):
    name = "fjsp_stepwise"
    tag = "fjsp_stepwise"
    module = "FJSPStepwise"
    prop = "C07"
    torchrl = False
    max_ops = {"quick": 4, "thorough": 5}       # instances with more operations are left to the base pipeline
    stride = {"quick": 1, "thorough": 1}

    def family(self, tier, seed=0):
        fam = [i for i in super().family(tier, seed) if i["N"] <= self.max_ops[tier]]
        fam = fam[:: self.stride[tier]]
        fam += self._sentinel()
        for k, i in enumerate(fam):
            i["id"] = k + 1
        return fam

    def _sentinel(self):
        """one machine is busy beyond INIT_FINISH = 9999 while a job still has two unscheduled operations (job shop shaped, so
        the same instance serves FJSPEnv and JSSPEnv): calc_lower_bound reads the finish time of an unscheduled predecessor
        as 9999"""
        out = []
        for wait in (False, True):
            out.append(_inst(2, 2, 4, (1, 2), ((12000, 0), (0, 10500), (1, 0)), wait, self.jssp))
        return out

    def dunit(self, inst):
        k = 1
        for n in range(2, inst["M"] + 1):
            k = k * n // math.gcd(k, n)
        return k

    def _mk(self, inst):
        from rl4co.envs.scheduling.fjsp.env import FJSPEnv

        return FJSPEnv(generator_params=self._params(inst), mask_no_ops=not inst["wait"], stepwise_reward=True,
                       _torchrl_mode=self.torchrl)

    def make_env(self, inst):
        self._env = self._mk(inst)
        return _Guard(self._env)

    def final(self, td, r, inst):
        return {}

    def lbs(self, td, r, inst):
        k = self.dunit(inst)
        return [to_int(float(x) * k) for x in td["lbs"][r].tolist()]

    def obs(self, td, r, inst):
        return {"lbs": self.lbs(td, r, inst)}

    def dproj(self, td, r, inst):
        return [int(round(float(td["time"][r]))), self.lbs(td, r, inst), self._ints(td["busy_until"][r]),
                [int(x) for x in td["next_op"][r].tolist()], bool(td["done"][r].all())]


class JSSPStepAd(FJSPStepAd, JSSP):
    name = "jssp_stepwise"
    tag = "jssp_stepwise"
    module = "FJSPStepwise"
    jssp = True
    torchrl = True          # the way tests/test_training.py::test_l2d_ppo builds it
    max_ops = {"quick": 4, "thorough": 5}
    stride = {"quick": 1, "thorough": 2}

    def _mk(self, inst):
        from rl4co.envs.scheduling.jssp.env import JSSPEnv

        p = self._params(inst)
        p["one2one_ma_map"] = False
        return JSSPEnv(generator_params=p, mask_no_ops=not inst["wait"], stepwise_reward=True, _torchrl_mode=self.torchrl)


ADAPTERS = [DenseTSPAd, FJSPStepAd, JSSPStepAd]


# ---------------------------------------------------------------------------------------------------------------
# real executions
# ---------------------------------------------------------------------------------------------------------------
class _Row:
    __slots__ = ("inst", "a", "mask", "done", "st", "ob", "rew", "state", "pad", "reward", "ctx")

    def __init__(self, inst):
        self.inst, self.a, self.mask, self.done, self.st, self.ob, self.rew = inst, [], [], [], [], [], []
        self.state, self.reward, self.ctx = "live", 0, "bfs"
        self.pad = {"a": [], "mask": [], "done": [], "rew": [], "ob": [], "st": []}

    def child(self):
        c = _Row(self.inst)
        c.a, c.mask, c.done, c.st, c.ob, c.rew = list(self.a), list(self.mask), list(self.done), list(self.st), list(self.ob), \
            list(self.rew)
        return c

    def record(self, end):
        return {"inst": self.inst, "a": self.a, "mask": self.mask, "done": self.done, "st": self.st, "ob": self.ob,
                "rew": self.rew, "reward": self.reward, "pad": self.pad, "end": end, "ctx": self.ctx}


def _observe(ad, td, k, row, pad=False):
    tgt = row.pad if pad else row
    m, d = mask_list(td["action_mask"][k]), bool(done_of(td)[k])
    if pad:
        tgt["mask"].append(m), tgt["done"].append(d)
        tgt["st"].append(ad.project(td, k, row.inst)), tgt["ob"].append(ad.obs(td, k, row.inst))
    else:
        tgt.mask.append(m), tgt.done.append(d)
        tgt.st.append(ad.project(td, k, row.inst)), tgt.ob.append(ad.obs(td, k, row.inst))


def bfs_dense(ad, insts, pad_steps, seed=0):
    """exhaustive expansion of the real step-wise environment; finished rows stay in the batch for `pad_steps` more steps"""
    episodes = []
    for key, group in group_by(insts, ad.group_key).items():
        env = ad.make_env(group[0])
        td = env.reset(ad.to_td(group))
        rows = [_Row(i) for i in group]
        for k, row in enumerate(rows):
            _observe(ad, td, k, row)
        depth, cap = 0, max(ad.step_cap(i) for i in group)
        while rows:
            am, dn = td["action_mask"], done_of(td)
            fresh = [k for k, row in enumerate(rows) if row.state == "live" and bool(dn[k])]
            if fresh:       # terminal reward of the rows that have just finished
                tr = ad.terminal(env, td[torch.tensor(fresh)].clone(), [rows[k].a for k in fresh], [rows[k].inst for k in fresh])
                for k, v in zip(fresh, tr):
                    rows[k].reward, rows[k].state = v, "pad"
            src, acts, nxt = [], [], []
            for k, row in enumerate(rows):
                offered = mask_list(am[k])
                if row.state == "pad":
                    if len(row.pad["a"]) >= pad_steps or not offered:
                        episodes.append(row.record("done"))
                    else:
                        src.append(k), acts.append(offered[0]), nxt.append(row)
                elif not offered or depth >= cap:
                    episodes.append(row.record("cap" if offered else "deadend"))
                else:
                    for a in offered:
                        src.append(k), acts.append(a), nxt.append(row.child())
            if not src:
                break
            td_n = td[torch.tensor(src)].clone()
            td_n.set("action", torch.tensor(acts, dtype=torch.long))
            td_n = env.step(td_n)["next"]
            rew = ad.step_rewards(env, td_n, [row.inst for row in nxt])
            for k, row in enumerate(nxt):
                if row.state == "pad":
                    row.pad["a"].append(acts[k]), row.pad["rew"].append(rew[k])
                    _observe(ad, td_n, k, row, pad=True)
                else:
                    row.a.append(acts[k]), row.rew.append(rew[k])
                    _observe(ad, td_n, k, row)
            g = torch.Generator().manual_seed(7000 + 31 * seed + depth)
            perm = torch.randperm(len(nxt), generator=g)
            rows = [nxt[k] for k in perm.tolist()]
            td = td_n[perm]
            depth += 1
    return episodes


def run_rows_dense(ad, items, extra_pad, ctx):
    """a batch whose row r follows its own action sequence; rows that have exhausted theirs (they are finished) are stepped
    with a mask-admitted padding action while slower rows are still running.  -> one trace record per row"""
    insts = [it[0] for it in items]
    seqs = [list(it[1]) for it in items]
    env = ad.make_env(insts[0])
    td = env.reset(ad.to_td(insts))
    rows = [_Row(i) for i in insts]
    for k, row in enumerate(rows):
        row.ctx = "%s:%d/%d" % (ctx, k, len(rows))
        _observe(ad, td, k, row)
    T = max(len(s) for s in seqs) + extra_pad
    for t in range(T):
        am, dn = td["action_mask"], done_of(td)
        fresh = [k for k, row in enumerate(rows) if row.state == "live" and len(row.a) == len(seqs[k]) and bool(dn[k])]
        if fresh:
            tr = ad.terminal(env, td[torch.tensor(fresh)].clone(), [rows[k].a for k in fresh], [rows[k].inst for k in fresh])
            for k, v in zip(fresh, tr):
                rows[k].reward, rows[k].state = v, "pad"
        acts, stuck = [], False
        for k, row in enumerate(rows):
            if row.state == "live" and len(row.a) < len(seqs[k]):
                acts.append(seqs[k][len(row.a)])
            else:
                offered = mask_list(am[k])
                if not offered:
                    stuck = True
                acts.append(offered[0] if offered else 0)
        if stuck:           # a finished row has nothing to be padded with (fixed-length environments): stop here
            break
        td.set("action", torch.tensor(acts, dtype=torch.long))
        td = env.step(td)["next"]
        rew = ad.step_rewards(env, td, insts)
        for k, row in enumerate(rows):
            if row.state == "live" and len(row.a) < len(seqs[k]):
                row.a.append(acts[k]), row.rew.append(rew[k])
                _observe(ad, td, k, row)
            else:
                row.pad["a"].append(acts[k]), row.pad["rew"].append(rew[k])
                _observe(ad, td, k, row, pad=True)
    dn = done_of(td)
    fresh = [k for k, row in enumerate(rows) if row.state == "live" and bool(dn[k])]
    if fresh:
        tr = ad.terminal(env, td[torch.tensor(fresh)].clone(), [rows[k].a for k in fresh], [rows[k].inst for k in fresh])
        for k, v in zip(fresh, tr):
            rows[k].reward, rows[k].state = v, "pad"
    out = [row.record("done" if row.state == "pad" else "cap") for row in rows]
    for k, rec in enumerate(out):   # what is needed to run this very batch again (judge(): driver self-check)
        rec["_again"] = {"items": items, "extra_pad": extra_pad, "row": k, "torchrl": ad.torchrl}
    return out


def batch_records(ad, eps, tier, seed):
    """sampled finished episodes: solo (batch of one, no padding) and as rows of mixed batches"""
    rnd = random.Random(seed)
    done = [e for e in eps if e["end"] == "done"]
    if not done:
        return []
    m = 12 if tier == "quick" else 120
    recs = []
    base_mode = ad.torchrl
    ad.torchrl = not base_mode      # scheduling: the other step interface (RL4COEnvBase.step with / without _torchrl_mode)
    for key, group in group_by(done, lambda e: ad.group_key(e["inst"])).items():
        share = max(1 if tier == "quick" else 3, (m * len(group)) // len(done))
        sample = rnd.sample(group, min(share, len(group)))
        sample += [min(group, key=lambda e: len(e["a"])), max(group, key=lambda e: len(e["a"]))]
        for e in sample:
            it = (e["inst"], e["a"])
            recs += run_rows_dense(ad, [it], 0, "solo")
            others = lambda n: [(o["inst"], o["a"]) for o in (rnd.choice(group) for _ in range(n))]  # noqa: E731
            for b in ([it, it], others(1) + [it], [it] + others(2), others(rnd.randint(3, 6)) + [it]):
                recs += run_rows_dense(ad, b, 1 if ad.pad_steps > 0 else 0, "batch")
    ad.torchrl = base_mode
    return recs


def ppo_records(ad, fam, tier, seed):
    """what StepwisePPO CONSUMES: the real StepwisePPO.shared_step (phase "train", a batch that only fills the buffer) drives the
    real step-wise environment with a stub policy (uniformly random mask-admitted actions); the transitions it hands to its
    replay buffer (state before the step, action, `reward` = env.get_reward(next_td, None) after the scaler) are re-assembled
    into one trace record per batch row -- rows that finish early are the padding part -- and validated like all other rows"""
    import torch.nn as nn
    from rl4co.models.rl import StepwisePPO

    class Pol(nn.Module):
        def __init__(self, gen):
            super().__init__()
            self.p = nn.Parameter(torch.zeros(1))
            self.gen = gen

        def act(self, td, env, phase="train"):
            m = td["action_mask"].float()
            m = torch.where(m.sum(-1, keepdim=True) > 0, m, torch.ones_like(m))
            td["action"] = torch.multinomial(m, 1, generator=self.gen).squeeze(-1)
            td["logprobs"] = torch.zeros(td.batch_size[0])
            return td

    class Env:
        """the real environment, observed: the state after the last step is needed to close the records"""
        def __init__(self, env):
            self.env, self.name, self.last = env, env.name, None

        def reset(self, batch):
            return self.env.reset(batch)

        def step(self, td):
            out = self.env.step(td)
            self.last = out["next"]
            return out

        def get_reward(self, td, actions):
            return self.env.get_reward(td, actions)

    recs = []
    groups = list(group_by(fam, ad.group_key).items())
    rnd = random.Random(300 + seed)
    rnd.shuffle(groups)
    for key, group in groups[: (3 if tier == "quick" else 12)]:
        insts = list(group)
        rnd.shuffle(insts)
        insts = insts[:24]
        env = Env(ad._mk(insts[0]) if hasattr(ad, "_mk") else ad.make_env(insts[0]))
        gen = torch.Generator().manual_seed(500 + seed)
        mod = StepwisePPO(env, Pol(gen), update_timestep=2, buffer_size=100000, batch_size=len(insts), mini_batch_size=4,
                          max_grad_norm=None, reward_scale=None)
        mod.log_dict = lambda *a, **k: None
        stored, orig = [], mod.rb.extend
        mod.rb.extend = lambda td: (stored.append(td.clone()), orig(td))[1]
        mod.shared_step(ad.to_td(insts), 1, "train")
        rows = [_Row(i) for i in insts]
        for t, td in enumerate(stored + [env.last]):
            rew = None
            if t > 0:       # the reward stored with the transition t-1, in the module's integer units
                r = stored[t - 1]["reward"].reshape(len(insts), -1)[:, 0].tolist()
                rew = [to_int(x * ad.scale(i) * ad.dunit(i)) for x, i in zip(r, insts)]
                acts = stored[t - 1]["action"].tolist()
            dn = done_of(td)
            for k, row in enumerate(rows):
                row.ctx = "ppo:%d/%d" % (k, len(rows))
                if t > 0 and row.state == "live":
                    row.a.append(int(acts[k])), row.rew.append(rew[k])
                elif t > 0:
                    row.pad["a"].append(int(acts[k])), row.pad["rew"].append(rew[k])
                _observe(ad, td, k, row, pad=(t > 0 and row.state != "live"))
            fresh = [k for k, row in enumerate(rows) if row.state == "live" and bool(dn[k])]
            if fresh:
                tr = ad.terminal(env, td[torch.tensor(fresh)].clone(), [rows[k].a for k in fresh], [rows[k].inst for k in fresh])
                for k, v in zip(fresh, tr):
                    rows[k].reward, rows[k].state = v, "pad"
        recs += [row.record("done" if row.state == "pad" else "cap") for row in rows]
    return recs


def validate(ad, records, tag):
    """TLC trace validation, sharded over <= 4 single-worker JVMs -> fails [(rec, clause, step)], drifts, obs, states"""
    n = len(records)
    if n == 0:
        return [], [], [], 0
    k = max(1, min(4, (n + 299) // 300))
    bounds = [(i * n) // k for i in range(k + 1)]

    def one(j):
        lo, hi = bounds[j], bounds[j + 1]
        wd, root = tlc.prepare("densetrace_%s_%d" % (tag, j), template="DenseTrace", env_module=ad.module)
        f = os.path.join(wd, "traces.ndjson")
        tlc.dump_ndjson(f, [{k_: v for k_, v in r.items() if k_ not in ("ctx", "_again")} for r in records[lo:hi]])
        tlc.write_cfg(wd, root, invariants=TRACE_INV)
        r = tlc.run(wd, root, workers=1, env={"TRACE_FILE": f}, heap="3g")
        if r.violated:
            raise tlc.TLCError("dense trace spec invariant violated (should only print): %s" % r.violated)
        os.remove(f)
        return ([(lo + t[1] - 1, t[2], t[3]) for t in r.tuples("FAIL")], [(lo + t[1] - 1, t[2]) for t in r.tuples("DRIFT")],
                [(lo + t[1] - 1, t[3]) for t in r.tuples("OBS")], {lo + t[1] - 1 for t in r.tuples("END")}, r.distinct)

    fails, drifts, obs, ended, states = [], [], [], set(), 0
    with cf.ThreadPoolExecutor(max_workers=k) as ex:
        for a, b, c, d, e in ex.map(one, range(k)):
            fails += a
            drifts += b
            obs += c
            ended |= d
            states += e
    if len(ended) != n:
        raise tlc.TLCError("%s: %d of %d dense traces not consumed" % (tag, n - len(ended), n))
    return fails, drifts, obs, states


# ---------------------------------------------------------------------------------------------------------------
# specification -> code: replay of every TLC behaviour
# ---------------------------------------------------------------------------------------------------------------
def replay(ad, fam, behaviours, states, seed, out):
    """behaviours: [(id, hist, model rewards, demanded rewards, total)], states: {(id, hist): projection}"""
    by_id = {i["id"]: i for i in fam}
    rnd = random.Random(100 + seed)
    n = 0
    for key, group in group_by(behaviours, lambda b: ad.group_key(by_id[b[0]])).items():
        group = list(group)
        rnd.shuffle(group)
        for c in range(0, len(group), 1024):
            chunk = group[c:c + 1024]
            insts = [by_id[b[0]] for b in chunk]
            env = ad.make_env(insts[0])
            td = env.reset(ad.to_td(insts))
            dead = [False] * len(chunk)
            tot = [0] * len(chunk)
            last = [None] * len(chunk)
            for k, b in enumerate(chunk):
                if ad.dproj(td, k, insts[k]) != states.get((b[0], ()), None):
                    out("drift", "replay-state", insts[k], [], "after reset: real %s model %s" % (
                        ad.dproj(td, k, insts[k]), states.get((b[0], ()))))
            T = max(len(b[1]) for b in chunk) + (1 if ad.pad_steps > 0 else 0)
            for t in range(T):
                am = td["action_mask"]
                acts, stuck = [], False
                for k, b in enumerate(chunk):
                    if t < len(b[1]):
                        a = b[1][t]
                        if not dead[k] and not bool(am[k, a]):
                            dead[k] = True
                            out("drift", "replay-mask", insts[k], b[1][:t + 1], "step %d: action %d not offered by the real mask %s"
                                % (t, a, mask_list(am[k])))
                    else:
                        offered = mask_list(am[k])
                        if not offered:
                            stuck = True
                        a = offered[0] if offered else 0
                    acts.append(a)
                if stuck:
                    break
                td.set("action", torch.tensor(acts, dtype=torch.long))
                td = env.step(td)["next"]
                rew = ad.step_rewards(env, td, insts)
                for k, b in enumerate(chunk):
                    if dead[k]:
                        continue
                    pj = ad.dproj(td, k, insts[k])
                    if t < len(b[1]):
                        pre = b[1][:t + 1]
                        tot[k] += rew[k]
                        if rew[k] != b[3][t]:
                            out("viol", "replay-step-reward", insts[k], pre, "step %d (action %d): reward %s, the specification "
                                "demands %s (model of the code: %s) [units 1/%d]" % (t + 1, acts[k], rew[k], b[3][t], b[2][t],
                                                                                   ad.scale(insts[k]) * ad.dunit(insts[k])))
                        elif rew[k] != b[2][t]:
                            out("drift", "replay-step-reward", insts[k], pre, "reward %s model %s" % (rew[k], b[2][t]))
                        want = states.get((b[0], tuple(pre)))
                        if pj != want:
                            lbs_differ = want is not None and len(pj) > 1 and isinstance(pj[1], list) and pj[1] != want[1]
                            out("viol" if lbs_differ else "drift", "replay-lbs" if lbs_differ else "replay-state", insts[k], pre,
                                "after step %d: real %s, specification %s" % (t + 1, pj, want))
                        if t + 1 == len(b[1]):
                            n += 1
                            if not pj or not bool(done_of(td)[k]):
                                out("drift", "replay-not-done", insts[k], pre, "episode not finished")
                            if tot[k] != b[4]:
                                out("viol", "replay-telescopes", insts[k], pre, "the step rewards add up to %s, the specification "
                                    "demands %s [units 1/%d]" % (tot[k], b[4], ad.scale(insts[k]) * ad.dunit(insts[k])))
                    else:       # padding step of a finished row next to rows still running
                        if rew[k] != 0 or pj != last[k]:
                            out("viol4", "replay-pad", insts[k], b[1] + [acts[k]], "padding step after the episode: reward %s, "
                                "state %s -> %s" % (rew[k], last[k], pj))
                    last[k] = pj
    return n


# ---------------------------------------------------------------------------------------------------------------
def _solo(ad, fam, fam_file):
    wd, root = tlc.prepare("densesolo_" + ad.tag, template="DenseSolo", env_module=ad.module)
    tlc.write_cfg(wd, root, invariants=SOLO_INV)
    r = tlc.run(wd, root, workers=4, env={"FAMILY_FILE": fam_file}, coverage=True, heap="4g")
    if r.violated:
        raise tlc.TLCError("DenseSolo invariant violated (should only print): %s" % r.violated)
    return r


def run_adapter(ad, tier, seed, solo_future, val_pool, fam, viols, cov):
    """real stage now; returns the closure that judges it once TLC has validated the recorded rows"""
    t0 = time.time()
    counts, drift = {}, []
    env_name = ad.name + ("(torchrl_mode)" if ad.torchrl else "")

    def add(prop, monitor, inst, actions, detail):
        key = (prop, monitor)
        counts[key] = counts.get(key, 0) + 1
        if counts[key] <= MAX_WITNESSES:
            viols.append({"property": prop, "env": env_name, "monitor": monitor,
                          "inst": {k: v for k, v in inst.items() if k != "pts"}, "actions": list(actions), "detail": detail})

    def out(kind, monitor, inst, actions, detail):
        if kind == "viol":
            add(ad.prop, monitor, inst, actions, detail)
        elif kind == "viol4":
            add("C04", monitor, inst, actions, detail)
        else:
            drift.append({"kind": monitor, "inst": inst["id"], "actions": list(actions), "detail": detail})

    # ---- (2a) real environment: exhaustive expansion + batch compositions, validated by TLC ----
    try:
        eps = bfs_dense(ad, fam, ad.pad_steps, seed)
        t_bfs = time.time() - t0
        recs = eps + batch_records(ad, eps, tier, seed)
        recs += ppo_records(ad, fam, tier, seed)
    except Exception as e:      # noqa: BLE001
        where = crash_site(e)
        if where is None:
            raise
        add(ad.prop, "library-raised", fam[0], [], "%s at %s: %s" % (type(e).__name__, where, str(e)[:200]))
        cov["per_env"][env_name] = {"crashed": where}
        return lambda: None
    t_real = time.time() - t0
    vf = val_pool.submit(validate, ad, recs, ad.tag)
    return lambda: judge(ad, fam, eps, recs, vf, solo_future, seed, viols, cov, add, out, drift, counts, env_name, t_bfs, t_real)


def judge(ad, fam, eps, recs, val_future, solo_future, seed, viols, cov, add, out, drift, counts, env_name, t_bfs, t_real):
    by_id = {i["id"]: i for i in fam}
    obsv = []
    t2 = time.time()
    fails, drifts, obs, tstates = val_future.result()
    t_val = time.time() - t2
    failed = {}
    for (k, mon, step) in fails:
        failed.setdefault(k, []).append((mon, step))
    # what fails when the row runs truly alone (batch of one, no padding): key -> failing monitors (empty set = all pass)
    solo_fail = {}
    for k, e in enumerate(recs):
        if e["ctx"].startswith("solo"):
            solo_fail.setdefault((e["inst"]["id"], tuple(e["a"])), set()).update(m for m, _ in failed.get(k, []))
    for k, fl in sorted(failed.items()):
        e = recs[k]
        key = (e["inst"]["id"], tuple(e["a"]))
        if any(mon == "driver" for mon, _ in fl):
            # the recorded action is not in the mask recorded one step earlier.  The sequence was mask-confined when the row was
            # expanded alone (bfs), so for a batch row this says: next to these batch-mates the row was offered a different
            # mask.  The very same batch is executed again: if the row is again refused its action, that is a reproducible
            # dependence of the mask on the batch-mates (C04, witness = the batch); if not, the first execution cannot be
            # reproduced and says nothing certain about rl4co: the record is dropped and counted.
            step = min(st for mon, st in fl if mon == "driver")
            again = e.get("_again")
            rep = None
            if again is not None:
                mode, ad.torchrl = ad.torchrl, again["torchrl"]
                try:
                    r2 = run_rows_dense(ad, again["items"], again["extra_pad"], "again")[again["row"]]
                    seq2 = [m for m in r2["mask"]]
                    rep = any(t < len(seq2) and a not in seq2[t] for t, a in enumerate(r2["a"]))
                except Exception as ex:     # noqa: BLE001
                    rep = None
                    print("NOTE dense-reward harness: re-execution raised %s" % type(ex).__name__)
                ad.torchrl = mode
            if rep:
                add("C04", "batch-mask", e["inst"], e["a"], "step %d ctx=%s: the action is not offered next to the batch-mates %s "
                    "(offered when the row runs alone); reproduced by a second execution of the same batch" % (
                        step, e["ctx"], [(o[0]["id"], list(o[1])) for o in again["items"]]))
                continue
            counts["dropped_by_driver_self_check"] = counts.get("dropped_by_driver_self_check", 0) + 1
            print("NOTE dense-reward harness: record %d (%s, ctx %s) dropped by the driver self-check (not reproduced by a second "
                  "execution of the same batch)" % (k, env_name, e["ctx"]))
            continue
        for mon, step in fl:
            detail = "step %d ctx=%s rew=%s pad.rew=%s terminal=%s end=%s ob=%s [units 1/%d]" % (
                step, e["ctx"], e["rew"], e["pad"]["rew"], e["reward"], e["end"], [o.get("lbs", "") for o in e["ob"]][:6],
                ad.scale(e["inst"]) * ad.dunit(e["inst"]))
            pre = "ppo-" if e["ctx"].startswith("ppo") else ""
            if mon == "pad":
                add("C04", pre + "pad", e["inst"], e["a"] + e["pad"]["a"], detail)
            elif not e["ctx"].startswith("solo") and key in solo_fail and mon not in solo_fail[key]:
                add("C04", "batch-" + mon, e["inst"], e["a"], detail)       # right alone, wrong next to batch-mates
            elif not e["ctx"].startswith("batch"):                          # (a batch row that also fails alone is reported once)
                add(ad.prop, pre + mon, e["inst"], e["a"], detail)
    for (k, step) in drifts[:10]:
        drift.append({"kind": "trace", "inst": recs[k]["inst"]["id"], "actions": recs[k]["a"], "step": step, "ctx": recs[k]["ctx"]})
    if len(drifts) > 10:
        drift.append({"kind": "trace", "more": len(drifts) - 10})
    for (k, step) in obs:
        obsv.append(("trace", recs[k]["inst"]["id"], tuple(recs[k]["a"]), step))
    # ---- (1) model level ----
    r = solo_future.result()
    mf = {}
    for t in r.tuples("MODELFAIL"):
        mf.setdefault(t[1], []).append((t[2], t[3]))
    behaviours = sorted((t[1], list(t[2]), list(t[3]), list(t[4]), t[5]) for t in r.tuples("T"))   # TLC's print order is not fixed
    states = {(t[1], tuple(t[2])): t[3] for t in r.tuples("Q")}
    if len(states) != r.distinct:
        raise tlc.TLCError("%s: %d of %d model states exported" % (ad.tag, len(states), r.distinct))
    real = {(e["inst"]["id"], tuple(e["a"])) for e in eps if e["end"] == "done"}
    model = {(b[0], tuple(b[1])) for b in behaviours}
    if real != model:
        drift.append({"kind": "behaviour-sets", "only_model": len(model - real), "only_real": len(real - model)})
    # ---- (2b) replay ----
    t1 = time.time()
    try:
        nrep = replay(ad, fam, behaviours, states, seed, out)
    except Exception as e:      # noqa: BLE001
        where = crash_site(e)
        if where is None:
            raise
        add(ad.prop, "library-raised", fam[0], [], "replay: %s at %s: %s" % (type(e).__name__, where, str(e)[:200]))
        nrep = 0
    t_rep = time.time() - t1
    for d in drift[:6]:
        print("MODEL-DRIFT %s %s: %s" % (ad.prop, env_name, str(d)[:300]))
    lb_model = mf.get("LBNeverAboveMakespan", [])
    lbmin_model = mf.get("MinLBNeverAboveMakespan", [])
    if lb_model or obsv:
        w = lb_model[0] if lb_model else None
        cov["observations"].append({
            "env": env_name, "what": "the 'lower bound' on display exceeds the final makespan (LBNeverAboveMakespan)",
            "model_behaviours": len(lb_model), "of": len(behaviours), "real_episodes": len({(o[1], o[2]) for o in obsv}),
            "with_min_instead_of_mean": len(lbmin_model),
            "witness": None if w is None else {"inst": {k: v for k, v in by_id[w[0]].items() if k != "pts"}, "actions": w[1]},
            "witness_min": None if not lbmin_model else {"inst": by_id[lbmin_model[0][0]], "actions": lbmin_model[0][1]}})
    other = {k: len(v) for k, v in mf.items() if k not in ("LBNeverAboveMakespan", "MinLBNeverAboveMakespan")}
    cov["states"] += r.distinct + tstates
    cov["transitions"] += r.generated
    cov["replayed"] += nrep
    cov["per_env"][env_name] = {
        "instances": len(fam), "model_states": r.distinct, "model_behaviours": len(behaviours), "model_depth": r.depth,
        "tlc_coverage": r.coverage(), "model_invariant_failures": other,
        "real_episodes": len(eps), "real_pad_steps": sum(len(e["pad"]["a"]) for e in recs), "batch_rows": sum(1 for e in recs if e["ctx"].startswith(("solo", "batch"))),
        "stepwise_ppo_rows": sum(1 for e in recs if e["ctx"].startswith("ppo")),
        "traces_validated": len(recs), "trace_states": tstates, "replayed_behaviours": nrep,
        "violation_counts": {("%s/%s" % k if isinstance(k, tuple) else str(k)): v for k, v in counts.items()}, "drift": drift[:10],
        "wall_s": {"bfs": round(t_bfs, 1), "real": round(t_real, 1), "trace_tlc": round(t_val, 1), "solo_tlc": round(r.wall, 1),
                   "replay": round(t_rep, 1)},
        "sample": None if not eps else {"inst": eps[0]["inst"]["id"], "a": eps[0]["a"], "rew": eps[0]["rew"],
                                        "terminal": eps[0]["reward"], "pad_rew": eps[0]["pad"]["rew"]}}


def violations(tier, seed, props=None):
    """-> (violations, coverage).  props: restrict to the adapters deciding these properties, e.g. ("C03",) = dense TSP only,
    ("C07",) = scheduling only; None or anything containing "C04" = all (every adapter can produce C04 verdicts)"""
    t0 = time.time()
    logging.disable(logging.WARNING)
    torch.set_num_threads(min(4, torch.get_num_threads()))
    viols = []
    cov = {"states": 0, "transitions": 0, "replayed": 0, "per_env": {}, "observations": [], "dense_tsp_quirks_assumed": DENSE_TSP_QUIRKS}
    ads = [cls() for cls in ADAPTERS if props is None or "C04" in props or cls.prop in props]
    fams = []
    for ad in ads:
        fam = ad.family(tier, seed)
        ff = os.path.join(tlc.OUT, "fam_%s.json" % ad.tag)
        tlc.dump_json(ff, fam)
        fams.append((fam, ff))
    # two TLC lanes next to the real expansions (torch, <= 4 threads): the model runs (one at a time, 4 workers) and the
    # trace validations (one adapter at a time, <= 4 single-worker JVMs)
    ex = cf.ThreadPoolExecutor(max_workers=1)
    futs = [ex.submit(_solo, ad, fam, ff) for ad, (fam, ff) in zip(ads, fams)]
    ex.shutdown(wait=False)
    val_pool = cf.ThreadPoolExecutor(max_workers=1)
    judges = [run_adapter(ad, tier, seed, fut, val_pool, fam, viols, cov) for ad, (fam, ff), fut in zip(ads, fams, futs)]
    val_pool.shutdown(wait=False)
    for j in judges:
        j()
    import rl4co

    cov["rl4co"] = os.path.dirname(rl4co.__file__)
    cov["wall_s"] = round(time.time() - t0, 1)
    return viols, cov


if __name__ == "__main__":
    import json

    tier = sys.argv[1] if len(sys.argv) > 1 else "quick"
    seed = int(sys.argv[2]) if len(sys.argv) > 2 else 0
    t0 = time.time()
    v, cov = violations(tier, seed)
    classes = {}
    for x in v:
        classes.setdefault((x["property"], x["env"], x["monitor"]), []).append(x)
    for key, xs in classes.items():
        print("VIOLATION property=%s env=%s monitor=%s (%d witnesses kept)" % (key[0], key[1], key[2], len(xs)))
        print("  inst=%s\n  actions=%s %s" % (json.dumps(xs[0]["inst"], default=str)[:500], xs[0]["actions"], xs[0]["detail"][:500]))
    for o in cov["observations"]:
        print("OBSERVATION %s" % json.dumps(o, default=str)[:900])
    for name, c in cov["per_env"].items():
        print("  %s %s" % (name, json.dumps({k: c[k] for k in c if k not in ("drift", "sample")}, default=str)))
        print("     sample %s" % json.dumps(c.get("sample"), default=str)[:300])
    print(json.dumps({k: cov[k] for k in ("states", "transitions", "replayed", "wall_s", "rl4co", "dense_tsp_quirks_assumed")}))
    print("violations=%d wall=%.1fs" % (len(v), time.time() - t0))
    sys.exit(1 if v else 0)
