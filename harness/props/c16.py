"""C16 -- training losses are the stated surrogates, with their gradients.
(1) TLC explores spec/train/Reinforce.tla: every (rewards, log-likelihoods, baseline inputs) of a small scope, for the
    baselines no / exponential (stateful over successive steps) / extra (rollout values) / critic / shared, and
    spec/train/PPOSurrogate.tla for the clipped objective;
(2) every explored step is replayed into the REAL REINFORCE.calculate_loss (NoBaseline, ExponentialBaseline,
    rollout `extra`, CriticBaseline via A2C), POMO.shared_step (shared baseline, multi-start regrouping), the SymNCO
    loss functions and PPO.shared_step, driven by a stub policy whose outputs are the specification's values;
    after loss.backward() the gradients reaching the log-likelihoods / the critic output are compared with the
    specification's exact rationals."""
import logging
import time
import warnings
from fractions import Fraction

import torch
import torch.nn as nn
from tensordict import TensorDict

from .. import tlc, verdict

warnings.filterwarnings("ignore")


def fr(r):
    return Fraction(r[0], r[1])


class StubPolicy(nn.Module):
    """public extension point: any nn.Module returning the policy output dict"""

    def __init__(self):
        super().__init__()
        self.p = nn.Parameter(torch.zeros(1))
        self.train_decode_type = "sampling"
        self.val_decode_type = "greedy"
        self.test_decode_type = "greedy"
        self.out = {}

    def forward(self, td, env=None, phase="train", **kw):
        return dict(self.out)


class StubCritic(nn.Module):
    def __init__(self, n):
        super().__init__()
        self.V = nn.Parameter(torch.zeros(n, 1))

    def forward(self, x, hidden=None):
        return self.V


def near(x, f, tol=1e-5):
    return abs(float(x) - float(f)) <= tol * (1 + abs(float(f)))


def replay_reinforce(tuples, C, viol, samples):
    from rl4co.envs import TSPEnv
    from rl4co.models.rl import A2C, REINFORCE
    from rl4co.models.rl.reinforce.baselines import ExponentialBaseline, NoBaseline
    from rl4co.models.zoo import POMO
    from rl4co.models.zoo.symnco.losses import problem_symmetricity_loss

    n = int(C["NRows"])
    B = int(C["GroupB"])
    K = n // B
    beta = int(C["BetaN"]) / int(C["BetaD"])
    env = TSPEnv(generator_params={"num_loc": 4}, check_solution=False)
    table = {}
    for (_, kind, hist, adv, loss, gL, gX) in tuples:
        key = (kind, tuple(tuple(tuple(x) for x in st) for st in hist))
        table[key] = ([fr(a) for a in adv], fr(loss), [fr(g) for g in gL], [fr(g) for g in gX] if gX else [])
    maxlen = max(len(k[1]) for k in table)
    nrep = 0
    pol = StubPolicy()
    critic = StubCritic(n)
    mods = {}

    def module(kind):
        if kind not in mods:
            if kind in ("no", "extra"):                  # "extra": values arrive with the batch
                m = REINFORCE(env, pol, baseline=NoBaseline())
            elif kind == "exp":
                m = REINFORCE(env, pol, baseline=ExponentialBaseline(beta=beta))
            elif kind == "warmup":
                m = REINFORCE(env, pol, baseline=NoBaseline())   # the baseline object is created per history below
            elif kind == "critic":
                m = A2C(env, pol, critic=critic)
            else:
                m = POMO(env, pol, num_starts=K, num_augment=1)
            m.log_dict = lambda *a, **k: None        # Lightning logging is not under test
            mods[kind] = m
        return mods[kind]

    from rl4co.models.rl.reinforce.baselines import get_reinforce_baseline

    def baselines_for(kind):
        """the baseline objects of a history, built through the PUBLIC factory with non-default keyword arguments
        (label, constructor); None = keep the module's own"""
        if kind == "exp":
            # (b) the default "rollout" baseline during its warm-up (alpha = 0) IS the exponential baseline with exp_beta
            return [("exponential", lambda: get_reinforce_baseline("exponential", beta=beta)),
                    ("rollout(warm-up, alpha=0)", lambda: get_reinforce_baseline("rollout", n_epochs=3, exp_beta=beta, bl_alpha=0.1))]
        if kind == "warmup":
            def mk():
                wb = get_reinforce_baseline("warmup", baseline="exponential", beta=int(C["Beta2N"]) / int(C["Beta2D"]),
                                            n_epochs=int(C["AlphaD"]), warmup_exp_beta=beta)
                for e in range(int(C["AlphaN"])):        # alpha = AlphaN / AlphaD after AlphaN epoch callbacks
                    wb.epoch_callback(None, env=None, batch_size=1, device="cpu", epoch=e, dataset_size=None)
                return wb
            return [("warmup(exponential)", mk)]
        return [(None, None)]

    gen_batch = None
    for (kind, hist, bl_label, bl_mk) in [(k[0], k[1], lab, mk) for k in table if len(k[1]) == maxlen for (lab, mk) in baselines_for(k[0])]:
        mod = module(kind)
        if gen_batch is None:
            gen_batch = env.generator(B)
        if bl_mk is not None:
            mod.baseline = bl_mk()                   # fresh state for every history
        for j in range(len(hist)):
            R, Lneg, X = hist[j]
            adv, loss, gL, gX = table[(kind, hist[: j + 1])]
            reward = torch.tensor(R, dtype=torch.float32)
            ll = torch.tensor([-float(x) for x in Lneg], requires_grad=True)
            batch = TensorDict({}, batch_size=[n])
            if kind == "extra":
                batch = TensorDict({"extra": torch.tensor(X, dtype=torch.float32)}, batch_size=[n])
            if kind == "critic":
                with torch.no_grad():
                    critic.V.copy_(torch.tensor(X, dtype=torch.float32).view(n, 1))
                critic.V.grad = None
            if kind == "shared":
                pol.out = {"reward": reward, "log_likelihood": ll, "actions": torch.zeros(n, 4, dtype=torch.long)}
                out = mod.shared_step(gen_batch.clone(), 0, "train")
                lossv = out["loss"]
            else:
                out = mod.calculate_loss(TensorDict({}, batch_size=[n]), batch, {}, reward, ll)
                lossv = out["loss"]
            lossv.backward()
            nrep += 1
            bad = []
            if not near(lossv, loss):
                bad.append("loss %s, surrogate %s" % (float(lossv), loss))
            if any(not near(g, e) for g, e in zip(ll.grad.tolist(), gL)):
                bad.append("d loss/d log-likelihood %s, surrogate %s" % (ll.grad.tolist(), [str(g) for g in gL]))
            if kind == "critic" and any(not near(g, e) for g, e in zip(critic.V.grad.view(-1).tolist(), gX)):
                bad.append("d loss/d value %s, expected %s (baseline must be detached in the advantage)"
                           % (critic.V.grad.view(-1).tolist(), [str(g) for g in gX]))
            if kind in ("extra", "exp") and j == len(hist) - 1:
                # integer reward scaling (reward_scale=2): the ADVANTAGE (after the baseline subtraction) is divided by 2
                if "scaled" not in mods:
                    mods["scaled"] = REINFORCE(env, pol, baseline=NoBaseline(), reward_scale=2)
                    mods["scaled"].log_dict = lambda *a, **k: None
                ms = mods["scaled"]
                if kind == "exp":
                    ms.baseline = ExponentialBaseline(beta=beta)
                    for jj in range(j):
                        ms.baseline.eval(None, torch.tensor(hist[jj][0], dtype=torch.float32))
                else:
                    ms.baseline = NoBaseline()
                ll2 = torch.tensor([-float(x) for x in Lneg], requires_grad=True)
                o2 = ms.calculate_loss(TensorDict({}, batch_size=[n]), batch, {}, reward.clone(), ll2)
                o2["loss"].backward()
                if not near(o2["loss"], loss / 2) or any(not near(g, e / 2) for g, e in zip(ll2.grad.tolist(), gL)):
                    bad.append("reward_scale=2: loss %s grad %s, surrogate/2 = %s %s" % (float(o2["loss"]), ll2.grad.tolist(), loss / 2, [str(g / 2) for g in gL]))
            if kind == "shared":
                # the SymNCO loss uses the same shared-baseline surrogate along a dimension
                r2 = reward.view(K, B).t().contiguous()
                l2 = ll.detach().view(K, B).t().contiguous().requires_grad_(True)
                ls = problem_symmetricity_loss(r2, l2, dim=1)
                ls.backward()
                g2 = l2.grad.t().contiguous().view(-1).tolist()
                if not near(ls, loss) or any(not near(g, e) for g, e in zip(g2, gL)):
                    bad.append("SymNCO problem_symmetricity_loss %s grad %s" % (float(ls), g2))
                # solution symmetricity: baseline = mean over the LAST axis (augmentations) of a [batch, starts, aug] reward
                from rl4co.models.zoo.symnco.losses import solution_symmetricity_loss
                r3 = r2.view(B, 1, K).contiguous()
                l3 = ll.detach().view(K, B).t().contiguous().view(B, 1, K).requires_grad_(True)
                ls3 = solution_symmetricity_loss(r3, l3)
                if torch.is_tensor(ls3) and ls3.requires_grad:
                    ls3.backward()
                g3 = (l3.grad if l3.grad is not None else torch.zeros_like(l3)).view(B, K).t().contiguous().view(-1).tolist()
                if not near(ls3, loss) or any(not near(g, e) for g, e in zip(g3, gL)):
                    bad.append("SymNCO solution_symmetricity_loss on [B,1,K] %s grad %s" % (float(ls3), g3))
            if bad:
                viol.append({"property": "C16", "env": {"no": "REINFORCE", "exp": "REINFORCE+exponential", "extra": "REINFORCE+rollout-extra",
                                                        "critic": "A2C", "shared": "POMO", "warmup": "REINFORCE+warmup"}[kind], "monitor": "replay-surrogate",
                             "inst": {"kind": kind, "baseline_built_as": bl_label, "steps": [list(map(list, st)) for st in hist[: j + 1]]}, "actions": [],
                             "detail": "; ".join(bad)[:600]})
                break
    samples.append({"kind": kind, "steps": [list(map(list, st)) for st in hist], "spec_loss": str(loss),
                    "spec_grad_loglik": [str(g) for g in gL]})
    # ---- running advantage scaling (reward_scale = "scale" / "norm"): the advantages are the specification's (exact), the
    # statistics are "mean and sample standard deviation of ALL advantage values seen so far" (C20's definition), whatever the
    # shape of the advantage tensor ([n] for REINFORCE, [B, K] for the shared-baseline multi-start module)
    import statistics

    eps = float(torch.finfo(torch.float32).eps)
    for mode in ("scale", "norm"):
        for kind in ("no", "shared"):
            hists = sorted(k[1] for k in table if k[0] == kind and len(k[1]) == maxlen)
            # the scalers are STATEFUL across training steps: chains of three histories fed to the same module one after the
            # other (for these baseline-free / shared-baseline kinds the advantage of a step does not depend on earlier steps)
            stride = max(1, len(hists) // 40)
            chains = [[hists[i], hists[(i * 7 + 3) % len(hists)], hists[(i * 13 + 5) % len(hists)]] for i in range(0, len(hists), stride)]
            for chain in chains:
                steps = [h[: j + 1] for h in chain for j in range(len(h))]
                hist = tuple(h[-1] for h in steps)
                if kind == "no":
                    m = REINFORCE(env, pol, baseline=NoBaseline(), reward_scale=mode)
                else:
                    m = POMO(env, pol, num_starts=K, num_augment=1, reward_scale=mode)
                m.log_dict = lambda *a, **k: None
                seen = []
                for j in range(len(hist)):
                    R, Lneg, X = hist[j]
                    adv = [float(a) for a in table[(kind, steps[j])][0]]
                    seen += adv
                    reward = torch.tensor(R, dtype=torch.float32)
                    ll = torch.tensor([-float(x) for x in Lneg], requires_grad=True)
                    if kind == "shared":
                        pol.out = {"reward": reward, "log_likelihood": ll, "actions": torch.zeros(n, 4, dtype=torch.long)}
                        lossv = m.shared_step(gen_batch.clone(), 0, "train")["loss"]
                    else:
                        lossv = m.calculate_loss(TensorDict({}, batch_size=[n]), TensorDict({}, batch_size=[n]), {}, reward, ll)["loss"]
                    nrep += 1
                    if len(seen) < 2 or statistics.stdev(seen) < 1e-9:
                        continue                      # degenerate statistics: recorded, not judged
                    lossv.backward()
                    mu, sd = statistics.fmean(seen), statistics.stdev(seen)
                    sc = [(a - (mu if mode == "norm" else 0.0)) / (sd + eps) for a in adv]
                    exp_loss = -sum(a * (-float(x)) for a, x in zip(sc, Lneg)) / n
                    exp_g = [-a / n for a in sc]
                    bad = []
                    if not near(lossv, exp_loss, 2e-4):
                        bad.append("loss %s, reference %s" % (float(lossv), exp_loss))
                    if any(not near(g, e, 2e-4) for g, e in zip(ll.grad.tolist(), exp_g)):
                        bad.append("d loss/d log-likelihood %s, reference %s" % (ll.grad.tolist(), exp_g))
                    if bad:
                        viol.append({"property": "C16", "env": ("REINFORCE" if kind == "no" else "POMO") + "+reward_scale=" + mode,
                                     "monitor": "replay-scaled-surrogate",
                                     "inst": {"kind": kind, "mode": mode, "steps": [list(map(list, st)) for st in hist[: j + 1]]},
                                     "actions": [], "detail": ("advantages seen so far %s (mean %.6f, sample std %.6f); " % (seen, mu, sd)
                                                               + "; ".join(bad))[:700]})
                        break
    return nrep


def symnco_stage(viol, samples):
    """SymNCO.shared_step as a whole (the loss FUNCTIONS on given [B, A, S] tensors are replayed from Reinforce.tla above):
    the REGROUPING of a real step's rollouts.  A stub policy returns, in the layout the library itself produces for
    augmentation x multi-start (start, augmentation, instance), rewards and log-likelihoods that name (instance, start,
    augmentation); the stated surrogates are recomputed exactly: L_ps baseline = mean over the augmented copies (same start),
    L_ss baseline = mean over the starts (same copy), every group inside ONE instance; inference: the reported best is the maximum
    over all rollouts of the instance; invariance loss: copies of the same instance are compared."""
    from rl4co.envs import TSPEnv
    from rl4co.models.zoo.symnco.losses import invariance_loss
    from rl4co.models.zoo.symnco.model import SymNCO

    n = 0
    env = TSPEnv(generator_params={"num_loc": 4}, check_solution=False)
    for (B, S, A) in ((2, 3, 2), (3, 2, 4), (1, 3, 2), (2, 2, 2)):
        rew = lambda b, s_, a: Fraction(100 * b + 10 * s_ * s_ + 3 * a + (7 * b * s_) % 5)          # noqa: E731
        lln = lambda b, s_, a: Fraction(1000 + 100 * s_ + 10 * a + b, 1000)                          # noqa: E731  (= -log-lik.)

        class Stub(nn.Module):
            def __init__(self):
                super().__init__()
                self.p = nn.Parameter(torch.zeros(1))
                self.train_decode_type, self.val_decode_type, self.test_decode_type = "sampling", "greedy", "greedy"

            def forward(self, td, env=None, phase="train", num_starts=0, **kw):
                rows = td.shape[0] * num_starts
                idx = [(i // (A * B), (i % (A * B)) // B, i % B) for i in range(rows)]      # (start, augmentation, instance)
                self.ll = torch.tensor([-float(lln(b, s_, a)) for (s_, a, b) in idx], requires_grad=True)
                return {"reward": torch.tensor([float(rew(b, s_, a)) for (s_, a, b) in idx]), "log_likelihood": self.ll,
                        "proj_embeddings": torch.zeros(td.shape[0], 1, 2), "actions": torch.zeros(rows, 4, dtype=torch.long)}

        pol = Stub()
        m = SymNCO(env, pol, num_augment=A, num_starts=S)
        m.log_dict = lambda *a, **k: None
        m.train_metrics = ["loss", "loss_ps", "loss_ss"]
        m.val_metrics = ["max_aug_reward"]
        out = m.shared_step(env.generator(B), 0, "train")
        N = B * A * S
        mean = lambda xs: sum(xs) / len(xs)                                                           # noqa: E731
        ps = -sum((rew(b, s_, a) - mean([rew(b, s_, x) for x in range(A)])) * -lln(b, s_, a)
                  for b in range(B) for s_ in range(S) for a in range(A)) / N
        ss = -sum((rew(b, s_, a) - mean([rew(b, x, a) for x in range(S)])) * -lln(b, s_, a)
                  for b in range(B) for s_ in range(S) for a in range(A)) / N
        bad = []
        if not near(out["train/loss_ps"], ps, 2e-5):
            bad.append("problem-symmetricity loss %s, surrogate with the mean over the augmented copies %s" % (float(out["train/loss_ps"]), float(ps)))
        if not near(out["train/loss_ss"], ss, 2e-5):
            bad.append("solution-symmetricity loss %s, surrogate with the mean over the starts %s" % (float(out["train/loss_ss"]), float(ss)))
        o = m.shared_step(env.generator(B), 0, "val")
        want = mean([max(rew(b, s_, a) for s_ in range(S) for a in range(A)) for b in range(B)])
        if not near(o["val/max_aug_reward"], want, 1e-6):
            bad.append("reported best reward (mean over instances) %s, maximum over all rollouts of each instance %s"
                       % (float(o["val/max_aug_reward"]), float(want)))
        if B > 1:
            pe = torch.zeros(A * B, 1, B)
            for a in range(A):
                for b in range(B):
                    pe[a * B + b, 0, b] = 1.0           # instance b points along axis b in every copy: similarity exactly A - 1
            inv = float(invariance_loss(pe, A))
            if abs(inv - (A - 1)) > 1e-6:
                bad.append("invariance loss %s for identical copies of mutually orthogonal instances, expected %d (copies of "
                           "different instances are compared)" % (inv, A - 1))
        n += 1
        if bad:
            viol.append({"property": "C16", "env": "SymNCO.shared_step", "monitor": "replay-regrouped-surrogate",
                         "inst": {"batch": B, "num_starts": S, "num_augment": A}, "actions": [], "detail": "; ".join(bad)[:700]})
    samples.append({"symnco_step": {"configs (B, S, A)": [[2, 3, 2], [3, 2, 4], [1, 3, 2], [2, 2, 2]]}})
    return n


def replay_ppo(tuples, C, viol, samples):
    from rl4co.envs import TSPEnv
    from rl4co.models.rl import PPO

    n = int(C["NRows"])
    T = 2
    env = TSPEnv(generator_params={"num_loc": 4}, check_solution=False)
    clip = int(C["ClipN"]) / int(C["ClipD"])
    vf = int(C["VfN"]) / int(C["VfD"])
    ent = int(C["EntN"]) / int(C["EntD"])
    LOG2 = 0.6931471805599453

    class PPOStub(StubPolicy):
        def forward(self, td, env=None, phase="train", actions=None, **kw):
            if actions is None:           # rollout with the old policy
                return {"reward": self.R, "log_likelihood": self.old, "actions": torch.zeros(n, T, dtype=torch.long)}
            # evaluation of the given actions with the current policy: per-step log-likelihoods.
            # rows may arrive in any order (shuffled mini-batch): identify them by the id riding in td
            idx = td["rid"].view(-1)
            self.last_idx = idx
            return {"log_likelihood": self.new[idx], "entropy": self.ent[idx]}

    nrep = 0
    pol = PPOStub()
    critic = StubCritic(n)

    class IdxCritic(nn.Module):
        def __init__(s):
            super().__init__()
            s.inner = critic

        def forward(s, td, hidden=None):
            return critic.V[td["rid"].view(-1)]

    mod = PPO(env, pol, critic=IdxCritic(), clip_range=clip, ppo_epochs=1, mini_batch_size=n, vf_lambda=vf,
              entropy_lambda=ent, normalize_adv=False, max_grad_norm=None)
    mod.log_dict = lambda *a, **k: None

    class _Opt:
        def zero_grad(self):
            pass

        def step(self):
            pass

    mod.optimizers = lambda: _Opt()                 # Lightning trainer plumbing (manual optimisation)
    mod.manual_backward = lambda l: l.backward()
    gen_batch = env.generator(n)
    gen_batch["rid"] = torch.arange(n)
    doff = int(C["DOff"])
    for (_, R, D, X, E, loss, gL, gX, gE) in tuples:
        critic.V.grad = None
        with torch.no_grad():
            critic.V.copy_(torch.tensor(X, dtype=torch.float32).view(n, 1))
        pol.R = torch.tensor(R, dtype=torch.float32)
        pol.old = torch.zeros(n)
        # new per-step log-likelihoods: sum over steps = D * ln 2  (ratio = 2^D)
        new = torch.zeros(n, T)
        new[:, 0] = torch.tensor([(d - doff) * LOG2 for d in D])
        pol.new = new.requires_grad_(True)
        pol.ent = torch.tensor([float(e) for e in E], requires_grad=True)
        out = mod.shared_step(gen_batch.clone(), 0, "train")
        nrep += 1
        bad = []
        lossv = out["loss"]
        expL = [fr(g) for g in gL]
        if not near(lossv, fr(loss), 1e-4):
            bad.append("loss %s, surrogate %s" % (float(lossv), fr(loss)))
        g = pol.new.grad
        if any(not near(g[r, t], expL[r], 1e-4) for r in range(n) for t in range(T)):
            bad.append("d loss/d log-likelihood %s, surrogate %s" % (g.tolist(), [str(x) for x in expL]))
        if any(not near(a, fr(b), 1e-4) for a, b in zip(critic.V.grad.view(-1).tolist(), gX)):
            bad.append("d loss/d value %s, expected %s" % (critic.V.grad.view(-1).tolist(), [str(fr(x)) for x in gX]))
        if any(not near(a, fr(b), 1e-4) for a, b in zip(pol.ent.grad.tolist(), gE)):
            bad.append("d loss/d entropy %s, expected %s" % (pol.ent.grad.tolist(), [str(fr(x)) for x in gE]))
        # the same batch split into mini-batches of size n-1 (the last one is partial): every mini-batch loss is the MEAN over
        # its own rows, so the gradient of row r in a mini-batch of m rows is the specification's value times n/m
        if n >= 3:
            steps = []

            class _Opt2:
                def zero_grad(self_):
                    pol.new.grad = None
                    critic.V.grad = None
                    pol.ent.grad = None

                def step(self_):
                    steps.append((pol.last_idx.tolist(), pol.new.grad.clone(), critic.V.grad.clone().view(-1)))

            mod.optimizers = lambda: _Opt2()
            mod.ppo_cfg["mini_batch_size"] = n - 1
            pol.new = new.detach().clone().requires_grad_(True)
            pol.ent = torch.tensor([float(e) for e in E], requires_grad=True)
            mod.shared_step(gen_batch.clone(), 0, "train")
            mod.ppo_cfg["mini_batch_size"] = n
            mod.optimizers = lambda: _Opt()
            seen = sorted(i for (idx, _, _) in steps for i in idx)
            if seen != list(range(n)):
                bad.append("mini-batches do not partition the batch: %s" % [idx for (idx, _, _) in steps])
            for (idx, gl, gx) in steps:
                m = len(idx)
                for r in idx:
                    if not near(gl[r, 0], expL[r] * n / m, 1e-4) or not near(gx[r], fr(gX[r]) * n / m, 1e-4):
                        bad.append("mini-batch %s (size %d): d loss/d log-likelihood of row %d is %s, mean-over-the-mini-batch surrogate "
                                   "gives %s" % (idx, m, r, float(gl[r, 0]), expL[r] * n / m))
                        break
        if bad:
            viol.append({"property": "C16", "env": "PPO", "monitor": "replay-ppo-surrogate",
                         "inst": {"reward": R, "log_ratio_in_ln2": [d - doff for d in D], "value": X, "entropy": E}, "actions": [],
                         "detail": "; ".join(bad)[:600]})
    samples.append({"ppo": {"reward": R, "log_ratio_in_ln2": D, "value": X, "entropy": E, "spec_loss": str(fr(loss))}})
    return nrep


def run(tier, seed):
    t0 = time.time()
    logging.disable(logging.WARNING)
    quick = tier == "quick"
    viol, samples = [], []
    states = trans = nrep = 0
    model_viol = []
    cfgs = [dict(Kinds='{"no","extra","critic","shared"}', NRows="4", GroupB="2", RVals="{0,1,3}" if not quick else "{0,3}",
                 LVals="{1,2}", XVals="{0,2}", MaxSteps="1", BetaN="4", BetaD="5"),
            dict(Kinds='{"exp"}', NRows="2", GroupB="1", RVals="{0,1,3}", LVals="{1,2}", XVals="{0}", MaxSteps="3", BetaN="4", BetaD="5"),
            dict(Kinds='{"exp"}', NRows="3", GroupB="1", RVals="{0,2}", LVals="{1}", XVals="{0}", MaxSteps="2", BetaN="0", BetaD="1"),
            # warm-up mixture in the mixed regime: alpha = 1/3 (after the first of three warm-up epochs), inner baseline EMA(1/2)
            dict(Kinds='{"warmup"}', NRows="2", GroupB="1", RVals="{0,1,3}", LVals="{1}", XVals="{0}", MaxSteps="3", BetaN="4", BetaD="5")]
    if not quick:
        cfgs.append(dict(Kinds='{"shared"}', NRows="6", GroupB="2", RVals="{0,1,3}", LVals="{1,2}", XVals="{0}", MaxSteps="1",
                         BetaN="4", BetaD="5"))
        cfgs.append(dict(Kinds='{"shared"}', NRows="6", GroupB="3", RVals="{0,1,3}", LVals="{1}", XVals="{0}", MaxSteps="1",
                         BetaN="4", BetaD="5"))
    for i, C in enumerate(cfgs):
        C.setdefault("Beta2N", "1"); C.setdefault("Beta2D", "2"); C.setdefault("AlphaN", "1"); C.setdefault("AlphaD", "3")
        wd, root = tlc.prepare("reinforce_%d" % i, module="Reinforce")
        tlc.write_cfg(wd, root, constants=C, invariants=["SharedZeroMean", "NoBroadcast", "MeanZero", "Emit"])
        r = tlc.run(wd, root, timeout=3000)
        states += r.distinct
        trans += r.generated
        model_viol += r.violated
        tup = r.tuples("G")
        nrep += replay_reinforce(tup, C, viol, samples)
    CP = dict(NRows="3", RVals="{0,2}", DVals="{0,1,2}", DOff="1", XVals="{0,3}" if quick else "{0,1,3}", EVals="{1}" if quick else "{1,2}",
              ClipN="1", ClipD="5", VfN="1", VfD="2", EntN="1", EntD="100")
    wd, root = tlc.prepare("pposurrogate", module="PPOSurrogate")
    tlc.write_cfg(wd, root, constants=CP, invariants=["ClipBound", "Emit"])
    r = tlc.run(wd, root, timeout=3000)
    states += r.distinct
    trans += r.generated
    model_viol += r.violated
    nrep += replay_ppo(r.tuples("P"), CP, viol, samples)
    nrep += symnco_stage(viol, samples)
    # step-wise PPO (buffer, mini-batches) and n-step PPO (returns, bootstrap, value clipping): StepwisePPO.tla / NStepPPO.tla
    from . import c16b
    vb, cb = c16b.violations(tier, seed)
    viol += vb
    states += cb["states"]
    trans += cb["transitions"]
    nrep += cb["replayed"]
    if model_viol:
        print("MODEL-DRIFT C16: specification invariants violated: %s" % model_viol)
    n_new, n_known = verdict.report("C16", viol)
    cov = {"states": states, "transitions": trans, "traces_validated_against_impl": nrep, "samples": samples[:6],
           "exhaustive": True, "model_constants": cfgs + [CP], "known_finding_witnesses": n_known,
           "stepwise_and_nstep_ppo": {k: v for k, v in cb.items() if k not in ("samples",)},
           "explanation": "Reinforce.tla / PPOSurrogate.tla enumerate all training steps of a small scope (stateful exponential "
                          "baseline over successive steps); each is replayed into the real loss code with a stub policy and the "
                          "autograd gradients are compared with the specification's exact values. StepwisePPO.tla / NStepPPO.tla: every "
                          "explored case (rewards x values x log-ratios x mini-batch subsets; tours x 2-opt moves x curriculum "
                          "options) replayed into the real shared_step of StepwisePPO / n_step_PPO (real torchrl buffer, real "
                          "TSPkoptEnv)."}
    verdict.write_evidence("C16", tier, seed, "model_checking", cov,
                           ["autograd itself is trusted", "Lightning logging/optimizer plumbing replaced by no-op doubles",
                            "warm-up mixtures are covered by C20 (values) - here the baselines no/exponential/mean/extra/critic/shared"],
                           time.time() - t0, n_new)
    return 1 if n_new else 0
