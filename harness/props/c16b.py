"""C16 (growth) -- the two other PPO variants: StepwisePPO (L2D scheduling models) and n-step PPO (DACT / N2S / NeuOpt).
(1) TLC explores spec/train/StepwisePPO.tla (one mini-batch update over a replay buffer of per-step transitions: per-step
    ratio / clip, value target = the step's own scaled reward, entropy bonus; every admissible mini-batch of the buffer) and
    spec/train/NStepPPO.tla (n-step returns with gamma and a bootstrapped, detached value of the last state, per-step
    ratio / clip, value clipping around the first epoch's prediction, several epochs and chunks; the rewards are either small
    integers or computed by the specification of TSPkoptEnv from tours and 2-opt moves on an integer-distance instance,
    including the curriculum warm-up step and the CL_best jump);  the n-step return recurrence, telescoping into TD errors,
    clip bounds and value-clip bounds are invariants.
(2) every explored case is replayed into the REAL StepwisePPO.shared_step (real torchrl replay buffer, real RewardScaler;
    scripted environment / policy doubles) and the REAL n_step_PPO.shared_step (scripted policy / critic doubles; the REAL
    TSPkoptEnv in mode "env"); the losses of every mini-batch / epoch and, after backward, the gradients reaching the
    log-likelihoods, values and entropies (leaf tensors) are compared with the specification's exact rationals; gradients
    reaching anything that must be detached (bootstrap value, old values, old log-likelihoods) must be zero."""
import concurrent.futures as cf
import logging
import os
import sys
import time
import warnings
from fractions import Fraction

_repo = os.environ.get("VERIF_REPO", "/repo")
if _repo not in sys.path:
    sys.path.insert(0, _repo)

import torch  # noqa: E402
import torch.nn as nn  # noqa: E402
from tensordict import TensorDict  # noqa: E402

from .. import embed, tlc  # noqa: E402

warnings.filterwarnings("ignore")
PID = "C16"
LOG2 = 0.6931471805599453
TOL = 1e-4
STEPWISE_INV = ["ClipBound", "Pessimistic", "ValueGradIsAdv", "OnPolicyIsA2C", "ScaleIsOnReward", "Emit"]
NSTEP_INV = ["RetRecurrence", "RetBootstrap", "Telescoping", "ClipBound", "ValueClipBound", "FirstEpochOnPolicy",
             "EnvRewardNonNeg", "Emit"]


def fr(r):
    return Fraction(r[0], r[1])


def near(x, f, tol=TOL):
    return abs(float(x) - float(f)) <= tol * (1 + abs(float(f)))


def crash_site(exc):
    """file:line of the innermost frame inside rl4co, provided no harness frame is deeper"""
    repo = os.path.realpath(os.environ.get("VERIF_REPO", "/repo"))
    tb = exc.__traceback__
    frames = []
    while tb is not None:
        frames.append((os.path.realpath(tb.tb_frame.f_code.co_filename), tb.tb_lineno))
        tb = tb.tb_next
    for fn, ln in reversed(frames):
        if "site-packages" in fn or fn.startswith("<"):
            continue
        if fn.startswith(os.path.join(repo, "rl4co")):
            return "%s:%d" % (os.path.relpath(fn, repo), ln)
        return None
    return None


class _Opt:
    """Lightning's manual-optimisation plumbing: zero_grad / step are observation points, nothing is updated"""

    def __init__(self, leaves, on_step):
        self.leaves, self.on_step = leaves, on_step

    def zero_grad(self):
        for x in self.leaves():
            x.grad = None

    def step(self):
        self.on_step()


def grad_of(x):
    return torch.zeros_like(x) if x.grad is None else x.grad.detach().clone()


# ---------------------------------------------------------------------------------------------------------------
# StepwisePPO
# ---------------------------------------------------------------------------------------------------------------
class SchedEnvStub:
    """scripted stand-in of a stepwise-reward scheduling environment (FJSPEnv(stepwise_reward=True) interface as used by
    StepwisePPO.shared_step): reset -> state, step -> {"next": new state carrying the step reward [B]}, done after T steps.
    Like FJSPEnv._step it returns a NEW TensorDict (the stored transition is the state before the step)."""
    name = "sched_stub"

    def __init__(self, T):
        self.T = T
        self.R = None                  # [NAcc, T, B] unscaled step rewards

    def reset(self, batch):
        B = batch.batch_size[0]
        return TensorDict({"rid": torch.arange(B), "t": torch.zeros(B, dtype=torch.long), "acc": batch["acc"].clone(),
                           "done": torch.zeros(B, 1, dtype=torch.bool)}, batch_size=[B])

    def step(self, td):
        nt = td.clone()
        nt["t"] = td["t"] + 1
        nt["done"] = (nt["t"] >= self.T).view(-1, 1)
        nt["reward"] = self.R[td["acc"], td["t"], td["rid"]].clone()
        return {"next": nt}

    def get_reward(self, td, actions):
        return td["reward"]


class SchedPolicyStub(nn.Module):
    """act / evaluate of L2DPolicy4PPO with prescribed outputs (shapes as the real policy: log-probabilities [m], value
    [m, 1], entropy [m]).  The script is a class attribute: StepwisePPO deep-copies the policy into policy_old."""
    script = None

    def __init__(self):
        super().__init__()
        self.p = nn.Parameter(torch.zeros(1))

    def tid(self, td):
        sc = SchedPolicyStub.script
        return (td["acc"] * sc["T"] + td["t"]) * sc["B"] + td["rid"]

    def act(self, td, env, phase="train"):
        sc = SchedPolicyStub.script
        td["logprobs"] = sc["old"][self.tid(td)].clone()
        td["action"] = torch.zeros(td.batch_size[0], dtype=torch.long)
        return td

    def evaluate(self, td):
        sc = SchedPolicyStub.script
        i = self.tid(td)
        sc["last"] = i.tolist()
        return sc["ll"][i], sc["V"][i].view(-1, 1), sc["E"][i]


def stepwise_configs(tier):
    q = tier == "quick"
    base = dict(NAcc="1", Scale="1", DOff="1", ClipN="1", ClipD="5", VfN="1", VfD="2", EntN="1", EntD="100")
    L = [
        # every combination of (reward, ratio, value, entropy) on two successive steps of one row
        dict(NSteps="2", NRows="1", MB="2", RVals="{0,2}", DVals="{0,1,2}", XVals="{0,3}", EVals="{1}" if q else "{1,2}"),
        # two rows x two steps in one mini-batch (which reward / old log-probability belongs to which transition), reward_scale = 2
        dict(NSteps="2", NRows="2", MB="4", Scale="2", RVals="{0,3}", DVals="{0,2}", XVals="{1}", EVals="{1}"),
        # mini-batch smaller than the buffer: 3 of 4 (the incomplete second mini-batch is dropped), 2 of 4 (two mini-batches)
        dict(NSteps="2", NRows="2", MB="3", RVals="{0,2}" if q else "{0,1,2}", DVals="{2}", XVals="{0,3}", EVals="{1}"),
        dict(NSteps="2", NRows="2", MB="2", RVals="{0,2}", DVals="{0}", XVals="{0,3}", EVals="{1}"),
        # update_timestep = 2: the buffer accumulates the transitions of two batches before the update
        dict(NAcc="2", NSteps="2", NRows="1", MB="4", RVals="{0,2}", DVals="{2}", XVals="{1}", EVals="{1,2}"),
    ]
    if not q:
        L += [dict(NSteps="3", NRows="1", MB="3", RVals="{0,3}", DVals="{0,1,2}", XVals="{0,2}", EVals="{1}"),
              dict(NSteps="2", NRows="2", MB="4", Scale="3", RVals="{0,3}", DVals="{0,1,2}", XVals="{1}", EVals="{1}"),
              dict(NSteps="2", NRows="2", MB="4", RVals="{1}", DVals="{0,2}", XVals="{0,2}", EVals="{1,3}"),
              dict(NAcc="2", NSteps="1", NRows="2", MB="2", RVals="{0,2}", DVals="{0,2}", XVals="{1}", EVals="{1}")]
    return [dict(base, **c) for c in L]


def replay_stepwise(tuples, C, viol, samples):
    from rl4co.models.rl import StepwisePPO

    NAcc, T, B, MB, scale = (int(C[k]) for k in ("NAcc", "NSteps", "NRows", "MB", "Scale"))
    N = NAcc * T * B
    doff = int(C["DOff"])
    EPOCHS = 2
    table = {}
    for (_, R, D, X, E, S, loss, gL, gX, gE, _mr) in tuples:
        table.setdefault((tuple(R), tuple(D), tuple(X), tuple(E)), {})[tuple(S)] = (fr(loss), [fr(g) for g in gL], [fr(g) for g in gX],
                                                                                   [fr(g) for g in gE])
    env = SchedEnvStub(T)
    pol = SchedPolicyStub()
    mod = StepwisePPO(env, pol, clip_range=int(C["ClipN"]) / int(C["ClipD"]), update_timestep=NAcc, buffer_size=4 * N,
                      ppo_epochs=EPOCHS, batch_size=B, mini_batch_size=MB, vf_lambda=int(C["VfN"]) / int(C["VfD"]),
                      entropy_lambda=int(C["EntN"]) / int(C["EntD"]), max_grad_norm=None,
                      reward_scale=None if scale == 1 else scale)
    mod.log_dict = lambda *a, **k: None                 # Lightning logging is not under test
    sc = {"T": T, "B": B}
    SchedPolicyStub.script = sc
    steps, losses = [], []
    mod.optimizers = lambda: _Opt(lambda: (sc["ll"], sc["V"], sc["E"]),
                                  lambda: steps.append((sc["last"], grad_of(sc["ll"]), grad_of(sc["V"]), grad_of(sc["E"]))))
    mod.manual_backward = lambda l: (losses.append(l.detach().clone()), l.backward())
    # old log-probabilities: distinct exact floats per transition (the ratio must pair each new value with ITS old one)
    old = torch.tensor([-(1 + i) / 4 for i in range(N)])
    sc["old"] = old
    label = "StepwisePPO"
    nrep = 0
    raised = set()
    for base in sorted(table):
        R, D, X, E = base
        env.R = torch.tensor(R, dtype=torch.float32).view(NAcc, T, B)
        sc["ll"] = (old + torch.tensor([(d - doff) * LOG2 for d in D])).requires_grad_(True)
        sc["V"] = torch.tensor([float(x) for x in X], requires_grad=True)
        sc["E"] = torch.tensor([float(e) for e in E], requires_grad=True)
        del steps[:], losses[:]
        inst = {"n_accumulated_batches": NAcc, "steps": T, "rows": B, "mini_batch_size": MB, "reward_scale": scale,
                "reward[acc][step][row]": env.R.long().tolist(), "log_ratio_in_ln2": [d - doff for d in D], "value": list(X),
                "entropy": list(E)}
        out, fatal = {}, False
        for a in range(NAcc):
            # Lightning's batch_idx: with update_timestep = NAcc the update happens at the multiples of NAcc, i.e. after
            # the batches 1 .. NAcc have been collected (the update at batch 0 emptied the buffer)
            bidx = a + 1
            try:
                out = mod.shared_step(TensorDict({"acc": torch.full((B,), a, dtype=torch.long)}, batch_size=[B]), bidx, "train")
            except Exception as e:                      # noqa: BLE001
                where = crash_site(e)
                if where is None:
                    raise
                if where not in raised:                 # one witness per configuration and site
                    raised.add(where)
                    viol.append({"property": PID, "env": label, "monitor": "library-raised", "cls": where,
                                 "inst": dict(inst, update_timestep=NAcc, batch_idx=bidx, where=where), "actions": [],
                                 "detail": "shared_step(batch, batch_idx=%d, 'train') with update_timestep=%d raised %s: %s%s"
                                           % (bidx, NAcc, type(e).__name__, str(e)[:200],
                                              " (this batch is only collected into the buffer; the update is due at batch_idx %d)"
                                              % NAcc if bidx % NAcc else "")})
                if bidx % NAcc == 0 or len(mod.rb) != (a + 1) * T * B:
                    fatal = True                        # the update itself failed / the rollout was not stored
                    mod.rb.empty()
                    break
                # the rollout of this batch is in the buffer: go on to the batch at which the update is due
        if fatal:
            continue
        nrep += 1
        bad = []
        per_epoch = N // MB
        if len(steps) != EPOCHS * per_epoch:
            bad.append("%d mini-batch updates, expected %d epochs x %d" % (len(steps), EPOCHS, per_epoch))
        for ep in range(EPOCHS):
            ids = [i for (idx, _, _, _) in steps[ep * per_epoch:(ep + 1) * per_epoch] for i in idx]
            if len(set(ids)) != len(ids) or any(len(idx) != MB for (idx, _, _, _) in steps[ep * per_epoch:(ep + 1) * per_epoch]):
                bad.append("epoch %d: mini-batches %s are not disjoint sets of %d stored transitions" % (
                    ep, [idx for (idx, _, _, _) in steps[ep * per_epoch:(ep + 1) * per_epoch]], MB))
        if len(mod.rb) != 0:
            bad.append("replay buffer holds %d transitions after the update" % len(mod.rb))
        for j, (idx, gl, gx, ge) in enumerate(steps):
            key = tuple(sorted(i + 1 for i in idx))
            if key not in table[base]:
                bad.append("mini-batch %s is not a set of %d distinct transitions" % (idx, MB))
                continue
            loss, eL, eX, eE = table[base][key]
            if not near(losses[j], loss):
                bad.append("mini-batch %s: loss %s, surrogate %s" % (list(key), float(losses[j]), loss))
            if any(not near(a, b) for a, b in zip(gl.tolist(), eL)):
                bad.append("mini-batch %s: d loss/d log-prob %s, surrogate %s" % (list(key), gl.tolist(), [str(x) for x in eL]))
            if any(not near(a, b) for a, b in zip(gx.tolist(), eX)):
                bad.append("mini-batch %s: d loss/d value %s, expected %s (advantage detached, target = step reward)"
                           % (list(key), gx.tolist(), [str(x) for x in eX]))
            if any(not near(a, b) for a, b in zip(ge.tolist(), eE)):
                bad.append("mini-batch %s: d loss/d entropy %s, expected %s" % (list(key), ge.tolist(), [str(x) for x in eE]))
        if torch.is_tensor(out.get("loss")) and losses and not near(out["loss"].view(-1)[-1], losses[-1]):
            bad.append("returned loss %s differs from the last mini-batch's %s" % (out["loss"].view(-1).tolist(), float(losses[-1])))
        if bad:
            viol.append({"property": PID, "env": label, "monitor": "replay-stepwise-surrogate", "inst": inst, "actions": [],
                         "detail": "; ".join(bad)[:700]})
    if table:
        k = next(iter(table[base]))
        samples.append({"stepwise_ppo": inst, "mini_batch": list(k), "spec_loss": str(table[base][k][0]),
                        "spec_grad_logprob": [str(g) for g in table[base][k][1]]})
    return nrep


# ---------------------------------------------------------------------------------------------------------------
# n-step PPO
# ---------------------------------------------------------------------------------------------------------------
class ImproveEnvStub:
    """scripted stand-in of an improvement environment as used by n_step_PPO.shared_step: step() updates the TensorDict
    in place (reward [B] of the step, step counter i)"""
    name = "improve_stub"

    def __init__(self):
        self.R = None                  # [steps, B]

    def reset(self, batch):
        B = batch.batch_size[0]
        return TensorDict({"i": torch.zeros(B, 1, dtype=torch.long), "cost_current": torch.zeros(B), "cost_bsf": torch.zeros(B),
                           "rec_best": torch.zeros(B, 2, dtype=torch.long)}, batch_size=[B])

    def step(self, td):
        t = int(td["i"][0, 0])
        td.update({"reward": self.R[t].clone(), "i": td["i"] + 1})
        return {"next": td}


class ImprovePolicyStub(nn.Module):
    """DACTPolicy's interface with prescribed outputs: sets td["action"] ([B, 2] 2-opt move), returns log_likelihood [B, 1],
    actions, embeds (here: a code telling the critic double which state it is looking at)"""

    def __init__(self, sc):
        super().__init__()
        self.p = nn.Parameter(torch.zeros(1))
        self.sc = sc

    def forward(self, td, env=None, phase="train", return_actions=True, return_embeds=False, only_return_embed=False,
                actions=None, **kw):
        sc = self.sc
        B = td.batch_size[0]
        step = int(td["i"][0, 0])                       # environment steps made so far (curriculum steps included)
        i = (step - sc["cl"]) % sc["n"]
        code = torch.tensor([[float(i), 0.0]]).expand(B, 2).clone()
        if only_return_embed:                           # state after the chunk: bootstrap value
            code[:, 1] = 1.0
            return {"embeds": code}
        if actions is None:
            a = sc["moves"][step].clone()
            td.set("action", a)
            if not return_embeds:                       # curriculum warm-up (no gradient, nothing stored)
                return {"log_likelihood": torch.zeros(B, 1), "actions": a, "cost_bsf": td["cost_bsf"]}
            if i == 0:
                sc["chunk"] += 1
                sc["k"] = 0
            return {"log_likelihood": sc["LL"][0][i].view(B, 1), "actions": a.clone(), "embeds": code, "cost_bsf": td["cost_bsf"]}
        if not torch.equal(actions, sc["moves"][step]):
            sc["notes"].append("re-evaluation of step %d with actions %s, stored %s" % (step, actions.tolist(), sc["moves"][step].tolist()))
        return {"log_likelihood": sc["LL"][sc["k"]][i].view(B, 1), "embeds": code, "cost_bsf": td["cost_bsf"]}


class ImproveCriticStub(nn.Module):
    """CriticNetwork(customized=True) interface: critic(embeds, cost_bsf[:, None]) -> value [B, 1]"""

    def __init__(self, sc):
        super().__init__()
        self.p = nn.Parameter(torch.zeros(1))
        self.sc = sc

    def forward(self, x, hidden=None):
        sc = self.sc
        i, boot = int(x[0, 0]), int(x[0, 1])
        v = sc["Vb"][sc["k"]] if boot else sc["V"][sc["k"]][i]
        return v.view(-1, 1)


def rec_of(order):
    rec = [0] * len(order)
    for j, v in enumerate(order):
        rec[v] = order[(j + 1) % len(order)]
    return rec


def env_case(nsteps, nmv=5):
    """integer points with integer pairwise distances (coordinates used as they are: rewards are integers)"""
    pts, _ = embed.template(5, 0)
    row2_moves = [[1, 2], [3, 4], [0, 4], [2, 3], [1, 4], [0, 2]]
    return {"pts": pts, "D": embed.dist_matrix(pts), "grid": 1,
            "tours": [rec_of([0, 3, 1, 2, 4]), rec_of([0, 1, 2, 3, 4])],
            "clmoves": [[1, 3], [2, 0]],
            "moves": [[0, 2], [1, 3], [4, 1], [3, 0], [2, 4]][:nmv],
            "row2": {"rec0": rec_of([0, 2, 4, 1, 3]), "cl": [0, 3], "moves": row2_moves[:nsteps]}}


DUMMY_CASE = {"D": [[0]], "grid": 1, "tours": [], "clmoves": [], "moves": [], "row2": {"rec0": [], "cl": [0, 0], "moves": []}}


def nstep_configs(tier):
    """EnvMoves (mode env): how many of the 2-opt moves of env_case row 1 may choose from at every step"""
    q = tier == "quick"
    base = dict(Mode='"abs"', NChunks="1", NEpochs="2", GamN="1", GamD="2", ClipN="1", ClipD="5", VfN="1", VfD="2",
                RVals="{0,2}", ROff="1", XVals="{0,2}", BVals="{0,2}", DVals="{0,2}", DOff="1", EnvMoves="5")
    L = [
        # one row, two steps, two epochs: all rewards (-1 / +1), values, bootstrap values, ratios 1/2 (1) 2; gamma = 1/2
        dict(NStep="2", NRows="1", XVals="{0,2}" if q else "{0,1,3}", DVals="{2}" if q else "{0,2}"),
        # two rows (step-major flattening of [n, B]); gamma = 1/2
        dict(NStep="2", NRows="2", RVals="{0,3}", XVals="{1}", BVals="{2}", DVals="{0,2}" if q else "{0,1,2}"),
        # three epochs: value clipping stays anchored at the FIRST epoch's prediction
        dict(NStep="2", NRows="1", NEpochs="3", RVals="{0,2}" if q else "{0,2,4}", XVals="{0,2}", BVals="{1}", DVals="{2}"),
        # two chunks of n steps (T_train = 2 n), three steps, gamma = 1 and 1/2
        dict(NStep="2", NRows="1", NChunks="2", GamD="1", RVals="{0,2}", XVals="{1}", BVals="{0,2}", DVals="{0,2}"),
        dict(NStep="3", NRows="1", RVals="{0,2}", XVals="{0,3}" if not q else "{1}", BVals="{0,4}", DVals="{0,2}" if q else "{2}"),
        # the REAL TSPkoptEnv: rewards from tours and 2-opt moves, curriculum step and CL_best jump; gamma = 1/2 and 1
        dict(Mode='"env"', NStep="2", NRows="2", XVals="{2}", BVals="{4}", DVals="{0}"),
        dict(Mode='"env"', NStep="2", NRows="2", GamD="1", XVals="{1}", BVals="{0}", DVals="{2}"),
        # dyadic clip range 1/4: cases where the clipped and the unclipped value error are equal with the value outside
        # the clip range (the maximum is not differentiable there: any sub-gradient is accepted)
        dict(NStep="3", NRows="1", ClipD="4", RVals="{1,2}", XVals="{0,2}", BVals="{1}", DVals="{1}" if q else "{0,1,2}"),
    ]
    if not q:
        L += [dict(Mode='"env"', NStep="2", NRows="2", NChunks="2", XVals="{3}", BVals="{1}", DVals="{2}", EnvMoves="3"),
              dict(Mode='"env"', NStep="2", NRows="2", XVals="{2}", BVals="{3}", DVals="{0,2}", EnvMoves="3"),
              dict(Mode='"env"', NStep="3", NRows="2", XVals="{2}", BVals="{3}", DVals="{2}", EnvMoves="4"),
              dict(NStep="2", NRows="2", NEpochs="2", RVals="{1,3}", XVals="{0,2}", BVals="{1}", DVals="{2}"),
              dict(NStep="2", NRows="1", NEpochs="3", GamN="1", GamD="4", RVals="{1}", XVals="{0,2}", BVals="{0,2}", DVals="{0}")]
    return [dict(base, **c) for c in L]


def replay_nstep(tuples, C, case, viol, samples):
    from rl4co.models.rl import n_step_PPO

    mode = C["Mode"].strip('"')
    n, B, K, chunks = (int(C[k]) for k in ("NStep", "NRows", "NEpochs", "NChunks"))
    doff = int(C["DOff"])
    gamma = int(C["GamN"]) / int(C["GamD"])
    sc = {"n": n, "cl": 0, "notes": []}
    pol, critic = ImprovePolicyStub(sc), ImproveCriticStub(sc)
    if mode == "env":
        from rl4co.envs import TSPkoptEnv

        nn_ = len(case["pts"])
        env = TSPkoptEnv(generator_params=dict(num_loc=nn_), k_max=2)
        locs = torch.tensor(case["pts"], dtype=torch.float32) / float(case["grid"])
        label = "n_step_PPO+tsp_kopt"
    else:
        env = ImproveEnvStub()
        label = "n_step_PPO"
    mod = n_step_PPO(env, pol, critic, clip_range=int(C["ClipN"]) / int(C["ClipD"]), ppo_epochs=K,
                     vf_lambda=int(C["VfN"]) / int(C["VfD"]), normalize_adv=False, max_grad_norm=None, gamma=gamma,
                     n_step=n, T_train=chunks * n, CL_best=False)
    mod.log_dict = lambda *a, **k: None
    snaps, losses = [], []

    def leaves():
        return list(sc["LL"]) + list(sc["V"]) + list(sc["Vb"])

    def on_step():
        snaps.append((sc["chunk"], sc["k"], [grad_of(x) for x in sc["LL"]], [grad_of(x) for x in sc["V"]],
                      [grad_of(x) for x in sc["Vb"]]))
        sc["k"] += 1

    mod.optimizers = lambda: _Opt(leaves, on_step)
    mod.manual_backward = lambda l: (losses.append(l.detach().clone()), l.backward())
    old = torch.tensor([[-(1 + t * B + b) / 4 for b in range(B)] for t in range(n)])
    nrep = 0
    inst = None
    for (_, src, rw, V, Vb, D, out) in tuples:
        sc["LL"] = [old.clone().requires_grad_(True)] + [
            (old + torch.tensor([[(d - doff) * LOG2 for d in row] for row in D[k - 1]])).requires_grad_(True) for k in range(1, K)]
        sc["V"] = [torch.tensor(V[k], dtype=torch.float32, requires_grad=True) for k in range(K)]
        sc["Vb"] = [torch.tensor(Vb[k], dtype=torch.float32, requires_grad=True) for k in range(K)]
        sc["chunk"], sc["k"] = -1, 0
        del snaps[:], losses[:], sc["notes"][:]
        inst = {"n_step": n, "rows": B, "ppo_epochs": K, "chunks": chunks, "gamma": str(Fraction(int(C["GamN"]), int(C["GamD"]))),
                "reward[chunk][step][row]": [[[str(fr(x)) for x in st] for st in ch] for ch in rw],
                "value[epoch][step][row]": V, "bootstrap_value[epoch][row]": Vb,
                "log_ratio_in_ln2[epoch>1][step][row]": [[[d - doff for d in row] for row in Dk] for Dk in D]}
        if mode == "env":
            rec0, cl, jump, ms = src
            r2 = case["row2"]
            sc["cl"] = len(cl)
            moves = [[list(cl[0]), r2["cl"]]] if cl else []
            moves += [[list(ms[j]), r2["moves"][j]] for j in range(chunks * n)]
            sc["moves"] = [torch.tensor(m, dtype=torch.long) for m in moves]
            mod.CL_num = float(len(cl))
            mod.CL_best = bool(jump)
            rec0s = torch.tensor([list(rec0), r2["rec0"]], dtype=torch.long)
            env.generator._get_initial_solutions = lambda coords: rec0s.clone()
            batch = TensorDict({"locs": locs.unsqueeze(0).expand(B, nn_, 2).clone()}, batch_size=[B])
            inst.update({"points": case["pts"], "grid": case["grid"], "initial_tours(successor arrays)": rec0s.tolist(),
                         "curriculum_moves": moves[:len(cl)], "CL_best": bool(jump), "moves[step][row]": moves[len(cl):]})
        else:
            sc["cl"] = 0
            sc["moves"] = [torch.zeros(B, 2, dtype=torch.long)] * (chunks * n)
            env.R = torch.tensor([[float(fr(x)) for x in st] for ch in rw for st in ch], dtype=torch.float32)
            batch = TensorDict({}, batch_size=[B])
        try:
            mod.shared_step(batch, 0, "train")
        except Exception as e:                          # noqa: BLE001
            where = crash_site(e)
            if where is None:
                raise
            viol.append({"property": PID, "env": label, "monitor": "library-raised", "cls": where, "inst": dict(inst, where=where),
                         "actions": [], "detail": "%s: %s" % (type(e).__name__, str(e)[:300])})
            break
        finally:
            if mode == "env":
                del env.generator._get_initial_solutions
        nrep += 1
        bad = list(sc["notes"][:2])
        if [(c, k) for (c, k, _, _, _) in snaps] != [(c, k) for c in range(chunks) for k in range(K)]:
            bad.append("updates made for (chunk, epoch) %s" % [(c, k) for (c, k, _, _, _) in snaps])
        else:
            for j, (c, k, gLL, gV, gVb) in enumerate(snaps):
                loss, eL, eV, tie = fr(out[c][k][0]), out[c][k][1], out[c][k][2], out[c][k][3]
                tag = "chunk %d epoch %d: " % (c + 1, k + 1)
                if not near(losses[j], loss):
                    bad.append(tag + "loss %s, surrogate %s (policy part %s, value part %s)" % (
                        float(losses[j]), loss, fr(out[c][k][4]), fr(out[c][k][5])))
                if any(not near(gLL[k][t][b], fr(eL[t][b])) for t in range(n) for b in range(B)):
                    bad.append(tag + "d loss/d log-likelihood %s, surrogate %s" % (gLL[k].tolist(), [[str(fr(x)) for x in r] for r in eL]))
                for t in range(n):
                    for b in range(B):
                        g, e = float(gV[k][t][b]), fr(eV[t][b])
                        ok = near(g, e) if not tie[t][b] else (min(0, float(e)) - TOL <= g <= max(0, float(e)) + TOL)
                        if not ok:
                            bad.append(tag + "d loss/d value[step %d][row %d] = %s, expected %s%s" % (
                                t + 1, b + 1, g, e, " (any value between 0 and that: tie of the two squares)" if tie[t][b] else ""))
                stray = [("log-likelihood of epoch %d" % (kk + 1), gLL[kk]) for kk in range(K) if kk != k] + \
                        [("value of epoch %d" % (kk + 1), gV[kk]) for kk in range(K) if kk != k] + \
                        [("bootstrap value of epoch %d" % (kk + 1), gVb[kk]) for kk in range(K)]
                for name, g in stray:
                    if float(g.abs().max()) > 1e-7:
                        bad.append(tag + "gradient %s reaches the %s, which must be detached" % (g.tolist(), name))
        if bad:
            viol.append({"property": PID, "env": label, "monitor": "replay-nstep-surrogate", "inst": inst,
                         "actions": inst.get("moves[step][row]", []), "detail": "; ".join(bad)[:800]})
    if inst is not None:
        samples.append({label: inst, "spec_loss[chunk][epoch]": [[str(fr(o[0])) for o in ch] for ch in out]})
    return nrep


def interface_drift():
    """the doubles must return what the real components return (shapes): L2DPolicy4PPO.act / evaluate and FJSPEnv's stepwise
    reward for StepwisePPO; DACTPolicy, the DACT critic and TSPkoptEnv's step reward for n-step PPO"""
    from rl4co.envs import FJSPEnv, TSPkoptEnv
    from rl4co.models import DACT
    from rl4co.models.zoo.l2d.policy import L2DPolicy4PPO

    notes = []
    B = 3
    env = FJSPEnv(generator_params=dict(num_jobs=2, num_machines=2, min_ops_per_job=1, max_ops_per_job=2), stepwise_reward=True)
    pol = L2DPolicy4PPO(env_name="fjsp", embed_dim=16, num_encoder_layers=1)
    td = env.reset(batch_size=[B])
    with torch.no_grad():
        td = pol.act(td, env, phase="train")
        nxt = env.step(td)["next"]
        lp, v, e = pol.evaluate(td)
    got = (tuple(td["logprobs"].shape), tuple(env.get_reward(nxt, None).shape), tuple(lp.shape), tuple(v.shape), tuple(e.shape),
           nxt is not td)
    if got != ((B,), (B,), (B,), (B, 1), (B,), True):
        notes.append("L2D components return (logprobs, reward, evaluate: logp, value, entropy, step returns new td) = %s" % (got,))
    env2 = TSPkoptEnv(generator_params=dict(num_loc=6), k_max=2)
    m = DACT(env2, policy_kwargs=dict(embed_dim=16, num_encoder_layers=1, num_heads=2, feedforward_hidden=16),
             critic_kwargs=dict(num_heads=2, feedforward_hidden=16))
    td = env2.reset(batch_size=[B])
    with torch.no_grad():
        out = m.policy(td, env2, phase="train", return_embeds=True)
        val = m.critic(out["embeds"].detach(), td["cost_bsf"].unsqueeze(-1))
        env2.step(td)
    got = (tuple(out["log_likelihood"].shape), tuple(out["actions"].shape), tuple(val.shape), tuple(td["reward"].shape))
    if got != ((B, 1), (B, 2), (B, 1), (B,)):
        notes.append("DACT components return (log_likelihood, actions, value, reward) = %s" % (got,))
    return notes


# ---------------------------------------------------------------------------------------------------------------
def _tlc_job(job):
    kind, i, C = job
    t0 = time.time()
    if kind == "stepwise":
        wd, root = tlc.prepare("c16b_stepwise_%d" % i, module="StepwisePPO")
        tlc.write_cfg(wd, root, constants=C, invariants=STEPWISE_INV)
        r = tlc.run(wd, root, workers=4, heap="2g", timeout=3000)
        case = None
        tup = r.tuples("W")
    else:
        wd, root = tlc.prepare("c16b_nstep_%d" % i, module="NStepPPO")
        case = env_case(int(C["NChunks"]) * int(C["NStep"]), int(C["EnvMoves"])) if C["Mode"] == '"env"' else DUMMY_CASE
        f = os.path.join(wd, "case.json")
        tlc.dump_json(f, {k: v for k, v in case.items() if k != "pts"})
        tlc.write_cfg(wd, root, constants={k: v for k, v in C.items() if k != "EnvMoves"}, invariants=NSTEP_INV)
        r = tlc.run(wd, root, workers=4, heap="2g", timeout=3000, env={"CASE_FILE": f})
        tup = r.tuples("N")
    return kind, C, case, r.distinct, r.generated, list(r.violated), tup, time.time() - t0


def violations(tier, seed):
    """-> (violations of C16 by StepwisePPO / n_step_PPO, coverage)"""
    t0 = time.time()
    logging.disable(logging.WARNING)
    torch.set_num_threads(1)
    jobs = [("stepwise", i, C) for i, C in enumerate(stepwise_configs(tier))] + \
           [("nstep", i, C) for i, C in enumerate(nstep_configs(tier))]
    viol, samples, drift, per_cfg = [], [], [], []
    states = trans = replayed = cases = 0
    t_replay = 0.0
    ex = cf.ThreadPoolExecutor(max_workers=5)
    futures = [ex.submit(_tlc_job, j) for j in jobs]       # the replays below overlap with the TLC runs still going on
    ex.shutdown(wait=False)
    for fut in futures:
        (kind, C, case, distinct, generated, violated, tup, wall) = fut.result()
        states += distinct
        trans += generated
        cases += len(tup)
        if violated:
            drift.append("%s %s: %s" % (kind, C, violated))
        tr = time.time()
        if kind == "stepwise":
            k = replay_stepwise(tup, C, viol, samples)
        else:
            k = replay_nstep(tup, C, case, viol, samples)
        replayed += k
        t_replay += time.time() - tr
        per_cfg.append({"module": "StepwisePPO" if kind == "stepwise" else "NStepPPO", "constants": C, "cases": len(tup),
                        "real_shared_step_runs": k, "tlc_s": round(wall, 1), "replay_s": round(time.time() - tr, 1)})
    try:
        drift += ["doubles differ from the real components: " + x for x in interface_drift()]
    except Exception as e:                              # noqa: BLE001
        if crash_site(e) is None:
            raise
        drift.append("interface probe of the real L2D / DACT components raised %s at %s" % (type(e).__name__, crash_site(e)))
    for d in drift:
        print("MODEL-DRIFT C16: specification invariants violated: %s" % d)
    cov = {"states": states, "transitions": trans, "replayed": replayed, "tlc_cases": cases, "configs": per_cfg,
           "samples": samples[:2] + samples[-2:], "model_drift": drift,
           "wall_split_s": {"total": round(time.time() - t0, 1), "replay": round(t_replay, 1),
                            "tlc_sum_over_jobs": round(sum(c["tlc_s"] for c in per_cfg), 1)}}
    return viol, cov


if __name__ == "__main__":
    import json

    tier = sys.argv[1] if len(sys.argv) > 1 else "quick"
    seed = int(sys.argv[2]) if len(sys.argv) > 2 else 0
    t0 = time.time()
    v, cov = violations(tier, seed)
    classes = {}
    for x in v:
        classes.setdefault((x["env"], x["monitor"], x.get("cls", "")), []).append(x)
    for key, xs in classes.items():
        print("VIOLATION property=C16 env=%s monitor=%s%s (%d witnesses)" % (key[0], key[1], " cls=" + key[2] if key[2] else "", len(xs)))
        print("  inst=%s\n  %s" % (json.dumps(xs[0]["inst"], default=str)[:900], xs[0]["detail"][:700]))
    print(json.dumps({k: cov[k] for k in ("states", "transitions", "replayed", "tlc_cases", "wall_split_s", "model_drift")}))
    for c in cov["configs"]:
        print("  %s cases=%d runs=%d tlc=%ss replay=%ss %s" % (c["module"], c["cases"], c["real_shared_step_runs"], c["tlc_s"], c["replay_s"],
                                                             {k: v_ for k, v_ in c["constants"].items() if k not in ("ClipN", "ClipD", "VfN", "VfD", "EntN", "EntD")}))
    print("violations=%d wall=%.1fs" % (len(v), time.time() - t0))
    sys.exit(1 if v else 0)
