"""C20 (growth) -- the META-LEARNING callback rl4co/utils/meta_trainer.py :: ReptileCallback as one state machine.

spec/train/Reptile.tla models the callback over the hooks Lightning calls (on_fit_start, on_train_epoch_start, the epoch's
optimiser steps as an input, on_train_epoch_end, then the module's own on_train_epoch_end) on exact rationals.
(1) TLC model-checks it for all runs of the scope (epochs x num_tasks x task draws x training shifts): AlphaSchedule,
    MetaIsConvexStep, MetaWrittenBack, TaskSchedule, InnerLoopLength, PolicyStartsFromMeta, EnvMatchesTask,
    OptimizerPerEpoch;
(2) every run TLC explored is replayed into the REAL callback attached to a real POMO / REINFORCE module over a real
    TSP / CVRP environment, with a stub policy whose single parameter is the "version", a minimal trainer object and the
    task draws scripted through the callback module's `random`; the abstract state projected from the real objects
    (alpha, policy parameter, meta model, task models, selected tasks, current task, generator parameters + what the
    generator really produces, training-set instance size, optimiser identity / state / learning rate) is compared with
    the specification's after every hook;
(3) real RL4COTrainer.fit runs (tiny AttentionModelPolicy, cpu) with the callback, observed by one callback placed before
    and one placed after it, are written as traces (one per probed network coordinate) and validated by TLC against
    spec/train/ReptileTrace.tla; so is a sample of the replayed executions;
(4) data_type "distribution" / "size_distribution": the generator's EFFECTIVE sampling parameters after _load_task.
`violations(tier, seed)` returns (violations, coverage); every violation carries property "C20"."""
import contextlib
import io
import logging
import math
import os
import sys
import time
import warnings
from fractions import Fraction

os.environ.setdefault("VERIF_RUN_ID", "%d" % os.getpid())
_REPO = os.environ.get("VERIF_REPO", "/repo")
if _REPO not in sys.path:
    sys.path.insert(0, _REPO)

import torch  # noqa: E402
import torch.nn as nn  # noqa: E402

from .. import tlc, verdict  # noqa: E402

warnings.filterwarnings("ignore")

FLOOR = dict(FlN="1", FlD="10000")
TSP = dict(MinSize="6", MaxSize="7", Size0="5", Cap0="0", HasCap="FALSE")
CVRP = dict(MinSize="19", MaxSize="21", Size0="20", Cap0="30", HasCap="TRUE")
CONFIGS = {
    "quick": [
        # alpha 1 -> 1/2, 1/4, ...; two tasks; shifts {-1, +2}; lr drops in epoch int(3/4 maxEp) - 1
        dict(C=dict(MaxEpochs="4", Bs="{1,2}", A0N="1", A0D="1", DN="1", DD="2", Theta0="1", Shifts="{0,3}", ShiftOff="1",
                    SchN="3", SchD="4", **TSP, **FLOOR), world="tsp-pomo", trace_sample=40),
        # the floor 0.0001 of alpha is reached after two epochs
        dict(C=dict(MaxEpochs="3", Bs="{1,2}", A0N="3", A0D="10000", DN="1", DD="2", Theta0="2", Shifts="{2,4}", ShiftOff="1",
                    SchN="1", SchD="2", **TSP, **FLOOR), world="tsp-pomo", trace_sample=0),
        # a generator with a capacity: sizes on both sides of 20, constant alpha 1/2
        dict(C=dict(MaxEpochs="3", Bs="{2}", A0N="1", A0D="2", DN="1", DD="1", Theta0="0", Shifts="{2}", ShiftOff="1",
                    SchN="1", SchD="1", **CVRP, **FLOOR), world="cvrp-reinforce", trace_sample=20),
    ],
    "thorough": [
        dict(C=dict(MaxEpochs="5", Bs="{1,2}", A0N="1", A0D="1", DN="1", DD="2", Theta0="1", Shifts="{0,3}", ShiftOff="1",
                    SchN="3", SchD="4", **TSP, **FLOOR), world="tsp-pomo", trace_sample=100),
        # six epochs, one training shift
        dict(C=dict(MaxEpochs="6", Bs="{1,2}", A0N="1", A0D="1", DN="1", DD="2", Theta0="1", Shifts="{3}", ShiftOff="1",
                    SchN="3", SchD="4", **TSP, **FLOOR), world="tsp-pomo", trace_sample=60),
        # three tasks, three shifts, constant alpha 3/4
        dict(C=dict(MaxEpochs="3", Bs="{1,2}", A0N="3", A0D="4", DN="1", DD="1", Theta0="1", Shifts="{0,1,3}", ShiftOff="1",
                    SchN="1", SchD="2", MinSize="6", MaxSize="8", Size0="7", Cap0="0", HasCap="FALSE", **FLOOR),
             world="tsp-pomo", trace_sample=100),
        dict(C=dict(MaxEpochs="4", Bs="{1,2}", A0N="3", A0D="10000", DN="1", DD="2", Theta0="2", Shifts="{2,4}", ShiftOff="1",
                    SchN="1", SchD="2", **TSP, **FLOOR), world="tsp-pomo", trace_sample=0),
        dict(C=dict(MaxEpochs="4", Bs="{1,2}", A0N="1", A0D="2", DN="1", DD="1", Theta0="0", Shifts="{2}", ShiftOff="1",
                    SchN="1", SchD="1", **CVRP, **FLOOR), world="cvrp-reinforce", trace_sample=50),
    ],
}
INVARIANTS = ["TypeOK", "AlphaSchedule", "AlphaOfUpdate", "MetaIsConvexStep", "MetaWrittenBack", "TaskSchedule",
              "InnerLoopLength", "PolicyStartsFromMeta", "EnvMatchesTask", "OptimizerPerEpoch", "Emit"]
PROPERTIES = ["MetaOnlyAtBatchStart", "PolicyChangesOnlyThere"]
TRACE_INV = ["M_Alpha", "M_Step", "M_Reset", "M_Keep", "M_Meta", "M_Inner", "M_Task", "M_Sample", "M_Env", "M_Opt",
             "M_Drift", "End"]
FIELDS = ["pc", "ep", "alpha", "pol", "meta", "hasMeta", "tms", "sel", "cur", "genN", "genCap", "dataN", "optNew",
          "optFresh", "lrDec"]
ENV = "ReptileCallback"
BAD = -777777
LR0 = 1e-2


# ----------------------------------------------------------------------------------------------------------------
# the world: real environment + real RL module, stub policy with one visible parameter, minimal trainer
# ----------------------------------------------------------------------------------------------------------------
class VersionPolicy(nn.Module):
    """the whole model is ONE number; the replay never runs it (the epoch's training is an input of the specification)"""

    def __init__(self, v):
        super().__init__()
        self.p = nn.Parameter(torch.tensor(float(v)))
        self.train_decode_type = "sampling"
        self.val_decode_type = "greedy"
        self.test_decode_type = "greedy"

    def forward(self, td, env=None, phase="train", **kw):
        raise RuntimeError("the stub policy is never run")


class FakeTrainer:
    """what ReptileCallback and RL4COLitModule.on_train_epoch_end read / write of their trainer"""

    def __init__(self, max_epochs, optimizer):
        self.current_epoch = 0
        self.max_epochs = max_epochs
        self.optimizers = [optimizer]
        self.loggers = []


class ScriptedRandom:
    """stands in for the `random` module inside rl4co.utils.meta_trainer: the draws are inputs of the specification"""

    def __init__(self, passthrough=None):
        self.queue, self.pops, self.drawn, self.passthrough, self.unexpected = [], [], [], passthrough, 0

    def sample(self, population, k):
        self.pops.append(list(population))
        if self.passthrough is not None:
            r = self.passthrough.sample(population, k)
        else:
            if not self.queue:                 # a draw the specification does not make at this point
                self.unexpected += 1
                r = [population[0]]
            else:
                r = [self.queue.pop(0)]
        self.drawn.append(r[0])
        return r

    def __getattr__(self, name):           # any other use of `random` by the code under test: the real module
        import random as _r

        return getattr(_r, name)


@contextlib.contextmanager
def scripted(passthrough=False):
    import random as _r

    import rl4co.utils.meta_trainer as MT

    real = MT.random
    sr = ScriptedRandom(_r if passthrough else None)
    MT.random = sr
    try:
        yield sr
    finally:
        MT.random = real


def make_callback(K, data_type="size"):
    from rl4co.utils.meta_trainer import ReptileCallback

    with contextlib.redirect_stdout(io.StringIO()):
        return ReptileCallback(num_tasks=K["B"], alpha=K["A0N"] / K["A0D"], alpha_decay=K["DN"] / K["DD"],
                               min_size=K["MinSize"], max_size=K["MaxSize"], sch_bar=K["SchN"] / K["SchD"],
                               data_type=data_type, print_log=False)


def make_module(world, size0, theta0, policy=None, lr=LR0, **kw):
    from rl4co.envs import CVRPEnv, TSPEnv
    from rl4co.models import POMO
    from rl4co.models.rl import REINFORCE

    pol = policy if policy is not None else VersionPolicy(theta0)
    data = dict(batch_size=2, train_data_size=2, val_data_size=2, test_data_size=2, optimizer_kwargs={"lr": lr})
    data.update(kw)
    if world == "tsp-pomo":
        env = TSPEnv(generator_params=dict(num_loc=size0), check_solution=False)
        mod = POMO(env, pol, num_augment=1, **data)
    elif world == "cvrp-pomo":
        env = CVRPEnv(generator_params=dict(num_loc=size0), check_solution=False)
        mod = POMO(env, pol, num_augment=1, **data)
    else:
        env = CVRPEnv(generator_params=dict(num_loc=size0), check_solution=False)
        mod = REINFORCE(env, pol, baseline="no", **data)
    return env, pol, mod


_WORLDS = {}


def fresh_world(world, K):
    """the module / environment objects are built once per configuration (their construction is not part of the protocol)
    and put back into the state they have when a fit starts: initial parameter, generator as constructed"""
    key = (world, K["Size0"])
    if key not in _WORLDS:
        env, pol, mod = make_module(world, K["Size0"], K["Theta0"])
        _WORLDS[key] = (env, pol, mod, dict(vars(env.generator)))
    env, pol, mod, gen0 = _WORLDS[key]
    gen = env.generator
    for k in list(vars(gen)):
        if k not in gen0:
            delattr(gen, k)
    for k, v in gen0.items():
        setattr(gen, k, v)
    with torch.no_grad():
        pol.p.fill_(float(K["Theta0"]))
    pol.p.grad = None
    return env, pol, mod


def kints(C):
    return {k: (v == "TRUE") if k == "HasCap" else int(v) for k, v in C.items() if k not in ("Bs", "Shifts")}


class Observer:
    """projection of the real objects onto the variables of Reptile.tla"""

    def __init__(self, cb, mod, trainer, probe, lr0):
        self.cb, self.mod, self.trainer, self.probe, self.lr0 = cb, mod, trainer, probe, lr0
        self.opts = [trainer.optimizers[0]]        # (kept referenced: identities cannot be recycled)

    def value(self, sd):
        return float(sd[self.probe[0]].reshape(-1)[self.probe[1]])

    def observe(self, trained_sizes=None):
        cb, mod = self.cb, self.mod
        gen = mod.env.generator
        o = {"ep": int(self.trainer.current_epoch), "alpha": float(cb.alpha), "pol": self.value(mod.state_dict())}
        o["hasMeta"] = hasattr(cb, "meta_model_state_dict")
        o["meta"] = self.value(cb.meta_model_state_dict) if o["hasMeta"] else 0.0
        o["tms"] = [self.value(sd) for sd in getattr(cb, "task_models", [])]
        sel = getattr(cb, "selected_tasks", [])
        o["sel"] = [int(t[0]) if isinstance(t, tuple) and len(t) == 1 else BAD for t in sel]
        tp = getattr(cb, "task_params", None)
        o["cur"] = int(tp[0]) if isinstance(tp, tuple) and len(tp) == 1 else BAD
        # generator parameters: the attribute AND what the generator really produces
        n = int(gen.num_loc)
        td = gen(batch_size=[1])
        eff = int(td["locs"].shape[-2])                  # (CVRP: the depot is a separate entry)
        o["genN"] = n if eff == n else BAD
        if hasattr(gen, "capacity"):
            c = float(gen.capacity)
            o["genCap"] = int(c) if c == int(c) and float(td["capacity"].reshape(-1)[0]) == c else BAD
        else:
            o["genCap"] = 0
        item = mod.train_dataset[0]
        o["dataN"] = int(item["locs"].shape[-2])
        if trained_sizes is not None:             # (fit) the batches the trainer really delivered in this epoch
            o["dataN"] = o["dataN"] if set(trained_sizes) == {o["dataN"]} else BAD
        # optimiser
        opt = self.trainer.optimizers[0]
        if not any(opt is x for x in self.opts):
            self.opts.append(opt)
        o["optNew"] = len(self.opts) - 1
        held = [id(p) for g in opt.param_groups for p in g["params"]]
        want = [id(p) for p in mod.parameters()]
        ok = (len(self.opts) == 1 or type(opt) is torch.optim.Adam) and opt is self.opts[-1] and held == want \
            and len(self.trainer.optimizers) == 1
        o["optFresh"] = len(opt.state) == 0
        ratio = math.log10(self.lr0 / float(opt.param_groups[0]["lr"]))
        o["lrDec"] = int(round(ratio)) if ok and abs(ratio - round(ratio)) < 1e-6 else BAD
        o["weight_decay"] = float(opt.param_groups[0].get("weight_decay", 0.0))
        return o


def hkey(h):
    return tuple(tuple(tuple(y) if isinstance(y, list) else y for y in x) for x in h)


def near(x, fr, tol=2e-6):
    return abs(float(x) - float(Fraction(*fr))) <= tol * max(1.0, abs(float(x)))


def differences(action, real, spec, boundary):
    """components of the projected real state that differ from the specification's state, as clauses"""
    out = []
    if abs(real["alpha"] - float(Fraction(*spec["alpha"]))) > 1e-12:
        out.append(("alpha-schedule", "alpha %r, specification %s" % (real["alpha"], Fraction(*spec["alpha"]))))
    if not near(real["pol"], spec["pol"]):
        clause = ("meta-update-is-reptile-step" if action == "end" and boundary else
                  "policy-starts-from-meta" if action == "start" else "policy-changed-outside-update")
        out.append((clause, "policy parameter %r, specification %s" % (real["pol"], Fraction(*spec["pol"]))))
    if real["hasMeta"] != spec["hasMeta"] or (spec["hasMeta"] and not near(real["meta"], spec["meta"])):
        out.append(("meta-model-state", "meta model %s, specification %s"
                    % (real["meta"] if real["hasMeta"] else None, Fraction(*spec["meta"]) if spec["hasMeta"] else None)))
    if len(real["tms"]) != len(spec["tms"]):
        out.append(("inner-loop-length", "%d task models, specification %d" % (len(real["tms"]), len(spec["tms"]))))
    elif not all(near(a, b) for a, b in zip(real["tms"], spec["tms"])):
        out.append(("meta-model-state", "task models %s, specification %s" % (real["tms"], [Fraction(*b) for b in spec["tms"]])))
    if real["sel"] != spec["sel"] or real["cur"] != spec["cur"]:
        out.append(("task-schedule", "selected tasks %s current %s, specification %s current %s"
                    % (real["sel"], real["cur"], spec["sel"], spec["cur"])))
    if (real["genN"], real["genCap"], real["dataN"]) != (spec["genN"], spec["genCap"], spec["dataN"]):
        out.append(("env-matches-task", "generator num_loc %s capacity %s, training instances of size %s; specification %s / %s / %s"
                    % (real["genN"], real["genCap"], real["dataN"], spec["genN"], spec["genCap"], spec["dataN"])))
    if (real["optNew"], real["optFresh"], real["lrDec"]) != (spec["optNew"], spec["optFresh"], spec["lrDec"]):
        out.append(("optimizer-reset-per-epoch", "optimisers created %s, state empty %s, lr decays %s; specification %s / %s / %s"
                    % (real["optNew"], real["optFresh"], real["lrDec"], spec["optNew"], spec["optFresh"], spec["lrDec"])))
    return out


def scaled(x, S):
    return int(round(float(x) * S))


def as_obs(o, S):
    """the observation as the trace specification reads it"""
    a = Fraction(o["alpha"]).limit_denominator(10 ** 7)
    return {"ep": o["ep"], "alpha": [a.numerator, a.denominator], "pol": scaled(o["pol"], S), "meta": scaled(o["meta"], S),
            "hasMeta": o["hasMeta"], "nTms": len(o["tms"]), "sel": o["sel"], "cur": o["cur"], "genN": o["genN"],
            "genCap": o["genCap"], "dataN": o["dataN"], "optNew": o["optNew"], "optFresh": o["optFresh"], "lrDec": o["lrDec"]}


# ----------------------------------------------------------------------------------------------------------------
# (2) replay of the specification's runs into the real objects
# ----------------------------------------------------------------------------------------------------------------
def replay_run(max_ep, B, hist, table, K, world, S=1024):
    """drive the real callback / module through one run of the specification;
    returns (trace record, [(step, clause, detail)])"""
    K = dict(K, B=B)
    env, pol, mod = fresh_world(world, K)
    mod.setup("fit")
    trainer = FakeTrainer(max_ep, mod.configure_optimizers())
    mod._trainer = trainer
    cb = make_callback(K)
    obsv = Observer(cb, mod, trainer, ("policy.p", 0), LR0)
    task_set = [(n,) for n in range(K["MinSize"], K["MaxSize"] + 1)]
    events, bad = [], []
    with scripted() as sr:
        for j, act in enumerate(hist):
            name = act[0]
            ev = {"a": name}
            n_pops = len(sr.pops)
            if name == "fit":
                sr.queue = [(n,) for n in act[1]]
                cb.on_fit_start(trainer, mod)
                ev["tasks"] = list(act[1])
            elif name == "start":
                cb.on_train_epoch_start(trainer, mod)
            elif name == "train":
                # the optimiser the trainer would use now takes a (zero-gradient) step: its state becomes non-empty;
                # the net effect of the epoch's steps is the specification's input
                opt = trainer.optimizers[0]
                for g in opt.param_groups:
                    for p in g["params"]:
                        p.grad = torch.zeros_like(p)
                opt.step()
                opt.zero_grad()
                with torch.no_grad():
                    pol.p.add_(float(act[1]))
            elif name == "end":
                sr.queue = [(n,) for n in act[1]]
                cb.on_train_epoch_end(trainer, mod)
                ev["tasks"] = list(act[1])
            elif name == "regen":
                mod.on_train_epoch_end()
                trainer.current_epoch += 1
            o = obsv.observe()
            if name == "train":
                ev["v"] = scaled(o["pol"], S)
            ev["obs"] = as_obs(o, S)
            events.append(ev)
            spec = dict(zip(FIELDS, table[(max_ep, B, hkey(hist[: j + 1]))]))
            boundary = name == "end" and len(spec["tms"]) == B
            for clause, detail in differences(name, o, spec, boundary):
                bad.append((j, clause, detail))
            if sr.queue:
                bad.append((j, "task-schedule", "%d of the %d task draws of the specification did not happen in %s"
                            % (len(sr.queue), len(act[1]), name)))
            if sr.unexpected:
                bad.append((j, "task-schedule", "%d task draws in %s that the specification does not make there" % (sr.unexpected, name)))
            if any(p != task_set for p in sr.pops[n_pops:]):
                bad.append((j, "task-drawn-from-task-set", "drawn from %s, task set %s" % (sr.pops[-1], task_set)))
            if bad:
                break
    return {"maxEp": max_ep, "B": B, "S": S, "tol": 0, "pol0": scaled(K["Theta0"], S), "ev": events}, bad


# ----------------------------------------------------------------------------------------------------------------
# (3) a real RL4COTrainer.fit observed by two callbacks around the Reptile callback
# ----------------------------------------------------------------------------------------------------------------
def fit_trace(max_ep, K, world, seed, S=10000, lr=LR0, n_probes=3):
    import lightning.pytorch as pl

    from rl4co.models.zoo.am import AttentionModelPolicy
    from rl4co.utils.trainer import RL4COTrainer

    torch.manual_seed(seed)
    env_name = "tsp" if world.startswith("tsp") else "cvrp"
    policy = AttentionModelPolicy(env_name=env_name, embed_dim=16, num_encoder_layers=1, num_heads=2, feedforward_hidden=16,
                                  normalization="instance", use_graph_context=False)
    env, pol, mod = make_module(world, K["Size0"], None, policy=policy, lr=lr, batch_size=4, train_data_size=8,
                                val_data_size=4, test_data_size=4)
    cb = make_callback(K)
    keys = [k for k, v in mod.state_dict().items() if v.dtype.is_floating_point and v.numel() > 0]
    n_cand = 4 * n_probes                  # candidates; the n_probes coordinates that training moved most are kept
    probes = [(keys[(i * (len(keys) - 1)) // max(1, n_cand - 1)], 0) for i in range(n_cand)]
    events, cur = [], {"sizes": [], "obsv": None, "n_drawn": 0}

    def snapshot():
        return {k: v.detach().clone() for k, v in mod.state_dict().items()}

    def record(name, sr, trainer, sizes=None, tasks=False):
        if cur["obsv"] is None:
            cur["obsv"] = [Observer(cb, mod, trainer, pr, lr) for pr in probes]
        obs = [ob.observe(sizes) for ob in cur["obsv"]]
        ev = {"a": name, "obs": obs}
        if tasks:
            drawn = sr.drawn[cur["n_drawn"]:]
            cur["n_drawn"] = len(sr.drawn)
            ev["tasks"] = [int(t[0]) if isinstance(t, tuple) and len(t) == 1 else BAD for t in drawn]
            ev["pops"] = sr.pops[-len(drawn):] if drawn else []
        events.append(ev)

    with scripted(passthrough=True) as sr:
        class Before(pl.Callback):
            def on_train_epoch_start(self, trainer, m):
                if trainer.current_epoch > 0:
                    record("regen", sr, trainer)
                cur["sizes"] = []

            def on_train_batch_start(self, trainer, m, batch, batch_idx):
                cur["sizes"].append(int(batch["locs"].shape[-2]))

            def on_train_epoch_end(self, trainer, m):
                record("train", sr, trainer, sizes=cur["sizes"])

            def on_train_end(self, trainer, m):
                record("regen", sr, trainer)

        class After(pl.Callback):
            def on_fit_start(self, trainer, m):
                record("fit", sr, trainer, tasks=True)

            def on_train_epoch_start(self, trainer, m):
                record("start", sr, trainer)

            def on_train_epoch_end(self, trainer, m):
                record("end", sr, trainer, tasks=True)

        pol0 = snapshot()
        trainer = RL4COTrainer(max_epochs=max_ep, accelerator="cpu", devices=1, precision="32-true", logger=False,
                               enable_checkpointing=False, enable_progress_bar=False, enable_model_summary=False,
                               callbacks=[Before(), cb, After()])
        trainer.fit(mod)
    recs = []
    moved = []
    for i in range(len(probes)):
        vals = [e["obs"][i]["pol"] for e in events]
        moved.append(sum(abs(a - b) for a, b in zip(vals, vals[1:])))
    keep = sorted(sorted(range(len(probes)), key=lambda i: -moved[i])[:n_probes])
    for i, pr in enumerate(probes):
        if i not in keep:
            continue
        evs = []
        for e in events:
            o = e["obs"][i]
            ev = {"a": e["a"], "obs": as_obs(o, S)}
            if "tasks" in e:
                ev["tasks"] = e["tasks"]
            if e["a"] == "train":
                ev["v"] = scaled(o["pol"], S)
            evs.append(ev)
        recs.append({"maxEp": max_ep, "B": K["B"], "S": S, "tol": 3, "pol0": scaled(float(pol0[pr[0]].reshape(-1)[pr[1]]), S),
                     "ev": evs, "probe": "%s[%d]" % pr})
    task_set = [(n,) for n in range(K["MinSize"], K["MaxSize"] + 1)]
    notes = {"world": world, "probes": [r["probe"] for r in recs],
             "populations_ok": all(p == task_set for e in events for p in e.get("pops", [])),
             "moved": [[r["ev"][k]["obs"]["pol"] for k in range(len(r["ev"])) if r["ev"][k]["a"] in ("train", "end")] for r in recs],
             "weight_decay_seen": sorted({e["obs"][0]["weight_decay"] for e in events}),
             "callbacks": [type(c).__name__ for c in trainer.callbacks]}
    return recs, notes


# ----------------------------------------------------------------------------------------------------------------
# (4) data_type "distribution" / "size_distribution": does _load_task re-parameterise what the generator SAMPLES?
# ----------------------------------------------------------------------------------------------------------------
def distribution_probe():
    """after _load_task((m, c)) the generator must sample locations from the mixture (m, c): the parameters its sampler
    really uses are compared with the task (Gaussian_Mixture(num_modes, cdist); (0, 0) = uniform)"""
    from rl4co.envs import TSPEnv

    out, seen = [], []
    for dt, gp, task in (("distribution", dict(num_loc=10), (3, 50)),
                         ("distribution", dict(num_loc=10, loc_distribution="gaussian_mixture", num_modes=0, cdist=0), (3, 50)),
                         ("size_distribution", dict(num_loc=10, loc_distribution="gaussian_mixture", num_modes=0, cdist=0), (55, 3, 50))):
        env = TSPEnv(generator_params=gp, check_solution=False)
        _, pol, mod = make_module("tsp-pomo", 10, 0.0)
        mod.env = env
        with contextlib.redirect_stdout(io.StringIO()):
            from rl4co.utils.meta_trainer import ReptileCallback

            cb = ReptileCallback(num_tasks=1, alpha=0.5, alpha_decay=1.0, min_size=5, max_size=6, data_type=dt, print_log=False)
        with scripted() as sr:
            sr.queue = [task, task]
            cb.on_fit_start(None, mod)
            cb.selected_tasks = [task]
            cb._load_task(mod, 0)
        gen = env.generator
        smp = gen.loc_sampler
        eff = (int(getattr(smp, "num_modes", 0)), int(getattr(smp, "cdist", 0)))
        td = gen(batch_size=[2])
        want = tuple(task[-2:])
        n_ok = dt == "distribution" or int(td["locs"].shape[-2]) == task[0]
        seen.append({"data_type": dt, "generator_params": {k: str(v) for k, v in gp.items()}, "task": list(task),
                     "sampler": type(smp).__name__, "sampler_params": list(eff), "num_loc_ok": bool(n_ok)})
        if eff != want or not n_ok:
            out.append({"property": "C20", "env": "%s[data_type=%s]" % (ENV, dt), "monitor": "env-matches-task-effective",
                        "inst": {"generator_params": {k: str(v) for k, v in gp.items()}, "task": list(task)},
                        "actions": [["on_fit_start"], ["_load_task", list(task)]],
                        "detail": "after _load_task(%s) the generator has attributes num_modes=%s cdist=%s but samples locations with %s"
                                  "(num_modes, cdist) = %s: the sampled task does not change the data"
                                  % (task, getattr(gen, "num_modes", None), getattr(gen, "cdist", None), type(smp).__name__, eff)})
    return out, seen


# ----------------------------------------------------------------------------------------------------------------
def validate_records(module, recs, invariants, tag, shards=4, per_shard=60, constants=None):
    """as common.validate_records (same contract) with the constants of the configuration in the cfg"""
    import concurrent.futures as cf

    n = len(recs)
    if n == 0:
        return [], [], 0, set()
    k = max(1, min(shards, (n + per_shard - 1) // per_shard))
    bounds = [(i * n) // k for i in range(k + 1)]

    def one(j):
        lo, hi = bounds[j], bounds[j + 1]
        wd, root = tlc.prepare("%s_%s_%d" % (module.lower(), tag, j), module=module)
        f = os.path.join(wd, "recs.ndjson")
        tlc.dump_ndjson(f, recs[lo:hi])
        tlc.write_cfg(wd, root, constants=constants, invariants=invariants, init_next=("TInit", "TNext"))
        r = tlc.run(wd, root, workers=1, env={"TRACE_FILE": f}, heap="2g")
        if r.violated:
            raise tlc.TLCError("%s: invariant %s violated (monitors should only print)" % (module, r.violated))
        os.remove(f)
        return ([[lo + t[1] - 1] + t[2:] for t in r.tuples("FAIL")], [lo + t[1] - 1 for t in r.tuples("DRIFT")],
                r.distinct, {lo + t[1] - 1 for t in r.tuples("END")})

    fails, drifts, states, ended = [], [], 0, set()
    with cf.ThreadPoolExecutor(max_workers=k) as ex:
        for a, b, c, d in ex.map(one, range(k)):
            fails += a
            drifts += b
            states += c
            ended |= d
    if len(ended) != n:
        raise tlc.TLCError("%s: %d of %d records not consumed" % (module, n - len(ended), n))
    return fails, drifts, states, ended


def crash_site(exc):
    repo = os.path.realpath(_REPO)
    tb = exc.__traceback__
    frames = []
    while tb is not None:
        frames.append((os.path.realpath(tb.tb_frame.f_code.co_filename), tb.tb_lineno))
        tb = tb.tb_next
    for fn, ln in reversed(frames):
        if "site-packages" in fn or fn.startswith("<"):
            continue
        if fn.startswith(os.path.join(repo, "rl4co")):
            return "%s:%d" % (os.path.relpath(fn, repo), ln)
        return None
    return None


def raised(exc, what, inst):
    where = crash_site(exc)
    if where is None or isinstance(exc, tlc.TLCError):
        raise exc
    return {"property": "C20", "env": ENV, "monitor": "library-raised", "inst": dict(inst, where=where), "actions": what,
            "detail": "%s: %s" % (type(exc).__name__, str(exc)[:300])}


def mkviol(clause, prefix, rec, upto, detail, inst):
    return {"property": "C20", "env": ENV, "monitor": prefix + clause,
            "inst": dict(inst, max_epochs=rec["maxEp"], num_tasks=rec["B"], probe=rec.get("probe", "policy.p")),
            "actions": [[e["a"]] + ([e["tasks"]] if e.get("tasks") else []) + ([e["v"] / rec["S"]] if "v" in e else [])
                        for e in rec["ev"][:upto]],
            "detail": detail}


def inst_of(C, world):
    return {"world": world, "alpha": "%s/%s" % (C["A0N"], C["A0D"]), "alpha_decay": "%s/%s" % (C["DN"], C["DD"]),
            "sch_bar": "%s/%s" % (C["SchN"], C["SchD"]), "min_size": C["MinSize"], "max_size": C["MaxSize"],
            "num_loc": C["Size0"]}


FITS = {
    # (max_epochs, num_tasks, world, constants)
    "quick": [(4, 2, "tsp-pomo", dict(A0N="1", A0D="1", DN="1", DD="2", SchN="3", SchD="4", MinSize="6", MaxSize="8",
                                      Size0="5", Cap0="0", HasCap="FALSE"))],
    "thorough": [(4, 2, "tsp-pomo", dict(A0N="1", A0D="1", DN="1", DD="2", SchN="3", SchD="4", MinSize="6", MaxSize="8",
                                         Size0="5", Cap0="0", HasCap="FALSE")),
                 (3, 1, "cvrp-pomo", dict(A0N="1", A0D="2", DN="1", DD="1", SchN="1", SchD="1", MinSize="19", MaxSize="21",
                                          Size0="20", Cap0="30", HasCap="TRUE")),
                 (3, 2, "tsp-pomo", dict(A0N="3", A0D="4", DN="1", DD="2", SchN="1", SchD="2", MinSize="6", MaxSize="7",
                                         Size0="7", Cap0="0", HasCap="FALSE"))],
}


def violations(tier, seed):
    logging.disable(logging.WARNING)
    import rl4co

    t0 = time.time()
    viol, samples, per_cfg, drift_notes, model_viol = [], [], [], [], []
    states = transitions = n_runs = n_steps = n_traces = 0
    for ci, cfgd in enumerate(CONFIGS[tier]):
        C, world = cfgd["C"], cfgd["world"]
        K = kints(C)
        wd, root = tlc.prepare("reptile_%d" % ci, module="Reptile")
        tlc.write_cfg(wd, root, constants=C, invariants=INVARIANTS, properties=PROPERTIES)
        r = tlc.run(wd, root, workers=4, coverage=True, timeout=3000, heap="4g")
        states += r.distinct
        transitions += r.generated
        model_viol += r.violated
        tup = r.tuples("S")
        if len(tup) != r.distinct:
            raise tlc.TLCError("Reptile: parsed %d of %d states" % (len(tup), r.distinct))
        table = {(t[1], t[2], hkey(t[3])): t[4] for t in tup}
        leaves = sorted(k for k, a in table.items() if a[0] == "done")
        acts = {}
        for (_, b, h) in table:
            if h:
                a = table[(_, b, h)]
                nm = h[-1][0] + (":boundary" if h[-1][0] == "end" and h[-1][1] else "") \
                    + (":reload" if h[-1][0] == "start" and a[1] % b else "")
                acts[nm] = acts.get(nm, 0) + 1
        per_cfg.append({"constants": C, "world": world, "states": r.distinct, "complete_runs": len(leaves), "depth": r.depth,
                        "explored_actions": acts, "tlc_coverage": r.coverage(), "tlc_wall_s": round(r.wall, 1)})
        recs, t1, n_raised = [], time.time(), 0
        inst = inst_of(C, world)
        for (max_ep, b, h) in leaves:
            hl = [list(x) for x in h]
            try:
                rec, bad = replay_run(max_ep, b, hl, table, K, world)
            except Exception as ex:  # noqa: BLE001
                viol.append(raised(ex, hl, dict(inst, max_epochs=max_ep, num_tasks=b)))
                n_raised += 1
                if n_raised >= 5:
                    break
                continue
            recs.append(rec)
            n_runs += 1
            n_steps += len(rec["ev"])
            for (j, clause, detail) in bad:
                viol.append(mkviol(clause, "replay-", rec, j + 1, "after action %d (%s): %s" % (j + 1, h[j][0], detail), inst))
        per_cfg[-1]["replay_wall_s"] = round(time.time() - t1, 1)
        # a sample of the same real executions as traces, judged by TLC (exact: values are multiples of 1 / 1024)
        k = cfgd["trace_sample"]
        if k and recs:
            step = max(1, len(recs) // k)
            smp = recs[::step][:k] + [recs[-1]]
            fails, drifts, st, _ = validate_records("ReptileTrace", smp, TRACE_INV, "replay%d" % ci, constants=C)
            states += st
            n_traces += len(smp)
            for f in fails:
                i, clause, l = f[0], f[1], f[2]
                viol.append(mkviol(clause, "trace-", smp[i], l, "event %d: observed %s" % (l, smp[i]["ev"][l - 1]["obs"]), inst))
            drift_notes += [("replay", ci, i) for i in drifts]
        if recs:
            samples.append({"replayed_run": {"max_epochs": recs[-1]["maxEp"], "num_tasks": recs[-1]["B"],
                                             "actions": [[e["a"], e.get("tasks", e.get("v", ""))] for e in recs[-1]["ev"]],
                                             "final_state": recs[-1]["ev"][-1]["obs"]}})
    # ---- real trainer runs
    fit_notes, t1, n_fit = [], time.time(), 0
    for fi, (max_ep, b, world, C) in enumerate(FITS[tier]):
        C = dict(C, MaxEpochs=str(max_ep), Bs="{%d}" % b, Theta0="0", Shifts="{0}", ShiftOff="0", **FLOOR)
        K = dict(kints(C), B=b)
        inst = inst_of(C, world)
        try:
            recs, notes = fit_trace(max_ep, K, world, seed)
        except Exception as ex:  # noqa: BLE001
            viol.append(raised(ex, [["RL4COTrainer.fit"]], dict(inst, max_epochs=max_ep, num_tasks=b)))
            continue
        n_fit += 1
        fit_notes.append(notes)
        if not notes["populations_ok"]:
            viol.append(mkviol("task-drawn-from-task-set", "fit-", recs[0], 0, "random.sample was given another population", inst))
        # draws per hook: B at fit start and at the end of every epoch that completes a batch, none otherwise
        got = [len(e["tasks"]) for e in recs[0]["ev"] if "tasks" in e]
        want = [b] + [b if (e + 1) % b == 0 else 0 for e in range(len(got) - 1)]
        if got != want:
            viol.append(mkviol("task-schedule", "fit-", recs[0], len(recs[0]["ev"]),
                               "task draws per hook (fit start, then every epoch end) %s, expected %s" % (got, want), inst))
            continue
        fails, drifts, st, _ = validate_records("ReptileTrace", recs, TRACE_INV, "fit%d" % fi, constants=C)
        states += st
        n_traces += len(recs)
        for f in fails:
            i, clause, l = f[0], f[1], f[2]
            viol.append(mkviol(clause, "fit-", recs[i], l, "event %d (%s): observed %s"
                               % (l, recs[i]["ev"][l - 1]["a"], recs[i]["ev"][l - 1]["obs"]), inst))
        drift_notes += [("fit", fi, i) for i in drifts]
        if fi == 0:
            samples.append({"fit_run": {"world": world, "probe": recs[0]["probe"],
                                        "events": [[e["a"], e.get("tasks", ""), e["obs"]["alpha"], e["obs"]["pol"], e["obs"]["meta"],
                                                    e["obs"]["cur"], e["obs"]["dataN"], e["obs"]["optNew"], e["obs"]["lrDec"]]
                                                   for e in recs[0]["ev"]]}})
    fit_wall = time.time() - t1
    # ---- effective parameters of the generator for the distribution task types
    dviol, dseen = distribution_probe()
    viol += dviol
    if model_viol:
        print("MODEL-DRIFT C20b: Reptile.tla violates %s" % sorted(set(model_viol)))
    if drift_notes:
        print("MODEL-DRIFT C20b: harness bookkeeping (epoch counter / trained value) differs from the specification at %s"
              % drift_notes[:5])
    cov = {"states": states, "transitions": transitions, "replayed": n_runs,
           "traces_validated_against_impl": n_runs + n_traces, "samples": samples[:4], "exhaustive": True,
           "replayed_runs": n_runs, "replayed_actions": n_steps, "tlc_validated_traces": n_traces, "fit_runs": n_fit,
           "fit_wall_s": round(fit_wall, 1), "fit_notes": fit_notes, "distribution_probe": dseen, "models": per_cfg,
           "rl4co": os.path.dirname(rl4co.__file__), "wall_s": round(time.time() - t0, 1),
           "explanation": "Reptile.tla (ReptileCallback over Lightning's hooks, exact rationals) model-checked for all runs of "
                          "the scope; every run replayed into the real callback + module + environment with state comparison "
                          "after every hook; real RL4COTrainer.fit runs and a sample of the replays validated by TLC against "
                          "ReptileTrace.tla."}
    return viol, cov


ASSUMPTIONS = ["stub policy: the whole model is one float32 parameter; an epoch's training is an input (integer shift)",
               "task draws are inputs: the `random` name inside rl4co.utils.meta_trainer is replaced by a scripted object "
               "(replay) / a recording pass-through (fit)",
               "replay: hooks called in Lightning's order (callback.on_train_epoch_end before the module's) with a minimal "
               "trainer object (current_epoch, max_epochs, optimizers)",
               "fit: scalars logged in units of 1e-4, tolerance 3 units; three probed coordinates of the network",
               "data_type 'size' in the state machine; 'distribution' / 'size_distribution' only in the effective-parameter probe",
               "single device, cpu, float32"]


def run(tier, seed):
    import json

    t0 = time.time()
    viol, cov = violations(tier, seed)
    n_new, _ = verdict.report("C20", viol)
    d = os.path.join(verdict.ROOT, "out", "agents", "grow_reptile")
    os.makedirs(d, exist_ok=True)
    scratch = os.path.realpath(os.environ.get("VERIF_REPO", "/repo")) != "/repo"
    with open(os.path.join(d, "evidence_C20b_%s%s.json" % (tier, "_scratch" if scratch else "")), "w") as f:
        json.dump({"property_id": "C20B_REPTILE", "tier": tier, "seed": seed, "level": "model_checking", "coverage": cov,
                   "assumptions": ASSUMPTIONS, "wall_s": round(time.time() - t0, 2), "violations": n_new}, f, indent=1, default=str)
    print("[C20b] states=%d replayed_runs=%d actions=%d traces=%d fit_runs=%d violations=%d wall=%.1fs"
          % (cov["states"], cov["replayed_runs"], cov["replayed_actions"], cov["tlc_validated_traces"], cov["fit_runs"],
             n_new, time.time() - t0))
    return 1 if n_new else 0


if __name__ == "__main__":
    tier = "quick"
    seed = 0
    args = [a for a in sys.argv[1:]]
    for i, a in enumerate(args):
        if a in ("quick", "thorough"):
            tier = a
        elif a == "--tier":
            tier = args[i + 1]
        elif a == "--seed":
            seed = int(args[i + 1])
    torch.set_num_threads(4)
    sys.exit(run(tier, seed))
