"""C09 -- improvement environments keep tours valid and best-so-far bookkeeping exact.
(1) TLC model-checks spec/improve/Improve.tla: one batch row of TSPkoptEnv (2-opt mode and k-opt, k = 3, 4) and of
    PDPRuinRepairEnv, for every initial tour of a small instance x every move the environment's move mask admits
    (+ step_to_solution(rec_best)) x sequences of a few moves; the clauses of C09 are its invariants;
(2) every state TLC explored is reached in the REAL environment by the same moves from env.reset and the TensorDict
    (rec_current, rec_best, cost_current, cost_bsf, reward) is compared with the specification's state; the real move
    mask (get_mask, resp. the k-opt sampler's draws) is compared with the specification's set of admitted moves;
(3) long runs of the real environments under their own _random_action samplers and under the bundled policies with
    random weights (DACTPolicy, NeuOptPolicy, N2SPolicy) are recorded and validated by TLC against
    spec/improve/ImproveTrace.tla, whose monitors recompute cycle-ness, precedence, tour lengths and the best-so-far
    bookkeeping step by step from the logged tours and the integer distance matrix."""
import concurrent.futures as cf
import json
import logging
import os
import random
import re
import shutil
import time
import warnings

import torch
from tensordict import TensorDict

from .. import embed, tlc, verdict

warnings.filterwarnings("ignore")
PID = "C09"
SPEC_DIR = os.path.join(tlc.SPEC, "improve")
MODEL_INV = ["C_Tour", "C_BestTour", "C_Cost", "C_BsfLen", "C_BsfMin", "C_Mono", "C_Reward", "C_Sum", "C_Clash",
             "C_Meaning", "Emit"]
TRACE_INV = ["M_Cycle", "M_Prec", "M_Best", "M_Cost", "M_BsfLen", "M_BsfMin", "M_Mono", "M_Reward", "M_Sum",
             "D_Move", "D_Mask", "End"]
JUMP = (-1,)
MODEL_WORKERS = 5
BATCH_OF_ONE = True      # also record runs with a batch of one row (single-instance inference)
FLOAT_SCALE = 100000


# ---------------------------------------------------------------------------------------------------------------
# TLC plumbing (the modules live in spec/improve)
# ---------------------------------------------------------------------------------------------------------------
def prepare(work, module):
    wd = os.path.join(tlc.OUT, "tlc", work)
    shutil.rmtree(wd, ignore_errors=True)
    os.makedirs(wd)
    for f in os.listdir(SPEC_DIR):
        if f.endswith(".tla"):
            shutil.copy(os.path.join(SPEC_DIR, f), wd)
    shutil.copy(os.path.join(tlc.SPEC, "common", "Util.tla"), wd)
    return wd, module


_TOK = re.compile(r"<<|>>")


def fast_tuples(out, tag):
    """PrintT'ed tuples <<"tag", ...>> made of integers, strings and nested tuples only; much faster than
    tlc.parse_tuples on tens of megabytes"""
    res = []
    key = re.compile(r'<<\s*"%s"' % re.escape(tag))
    pos = 0
    while True:
        m0 = key.search(out, pos)
        if m0 is None:
            break
        depth = 0
        end = None
        for m in _TOK.finditer(out, m0.start()):
            if m.group(0) == "<<":
                depth += 1
            else:
                depth -= 1
                if depth == 0:
                    end = m.end()
                    break
        if end is None:
            break
        res.append(json.loads(out[m0.start():end].replace("<<", "[").replace(">>", "]")))
        pos = end
    return res


# ---------------------------------------------------------------------------------------------------------------
# instances
# ---------------------------------------------------------------------------------------------------------------
def points(n, which):
    """n integer points with integer pairwise distances and the grid making them exact float32 coordinates"""
    if which >= 0 and n in embed.TEMPLATES:
        return embed.template(n, which)
    r = random.Random(1000 * n + which)
    grid = 16 if n <= 16 else 64
    xs = r.sample(range(grid + 1), n)
    return [(x, 3) for x in xs], grid


def model_family(tier):
    """(kind, n, K, depth, which template, first-successor restriction or 0)"""
    if tier == "quick":
        L = [("kopt", 5, 2, 2, 0, 0), ("kopt", 5, 2, 2, -1, 0), ("kopt", 6, 2, 1, 1, 0),
             ("kopt", 5, 3, 2, 1, 0), ("kopt", 6, 3, 1, 0, 0), ("kopt", 7, 4, 1, -1, 1), ("kopt", 6, 4, 1, -2, 0),
             ("pdp", 5, 0, 3, 0, 0), ("pdp", 5, 0, 2, -1, 0), ("pdp", 7, 0, 1, -1, 0)]
    else:
        L = [("kopt", 5, 2, 3, 0, 0), ("kopt", 5, 2, 2, -1, 0), ("kopt", 6, 2, 2, 1, 0), ("kopt", 7, 2, 1, -1, 0),
             ("kopt", 5, 3, 3, 1, 0), ("kopt", 6, 3, 2, 0, 0), ("kopt", 7, 3, 1, -1, 0),
             ("kopt", 6, 4, 2, -2, 0), ("kopt", 7, 4, 1, -1, 0), ("kopt", 8, 4, 1, -1, 1),
             ("pdp", 5, 0, 3, 0, 0), ("pdp", 5, 0, 3, -1, 0), ("pdp", 7, 0, 2, -1, 0), ("pdp", 7, 0, 1, -2, 0)]
    fam = []
    for (kind, n, K, depth, which, first) in L:
        pts, grid = points(n, which)
        fam.append({"id": len(fam) + 1, "kind": kind, "n": n, "K": K, "depth": depth, "jump": True, "first": first,
                    "D": embed.dist_matrix(pts), "pts": pts, "grid": grid, "ext": []})
    # external solutions (env.step_to_solution(td, tour)): two tours for the first instance of each kind -- the visiting
    # orders 0,1,2,...,n-1 and 0,2,4,...,1,3,... as successor arrays (both respect pickup-before-delivery)
    done = set()
    for inst in fam:
        key = (inst["kind"], inst["K"] > 2)
        if key in done or inst["n"] != 5:
            continue
        done.add(key)
        for order in (list(range(inst["n"])), [0, 2, 4, 1, 3]):
            rec = [0] * inst["n"]
            for a, b in zip(order, order[1:] + order[:1]):
                rec[a] = b
            inst["ext"].append(rec)
    return fam


def weight(inst):
    """rough number of states of an instance (for balancing the TLC runs)"""
    import math

    n, d = inst["n"], inst["depth"]
    if inst["kind"] == "pdp":
        tours, moves = math.factorial(n - 1) // 2 ** (n // 2), (n // 2) * (n - 2) * (n - 1) // 2
    else:
        tours = math.factorial(n - 1) // ((n - 1) if inst["first"] else 1)
        moves = n * (n - 1) if inst["K"] == 2 else n * (n - 3) * (n - 2) // 2
    return tours * (moves + 1 + len(inst.get("ext", []))) ** d


def run_model(group):
    """one TLC run over a group of instances; returns the TLC result and per instance id the states and clause failures"""
    gid = group[0]["id"]
    wd, root = prepare("c09_model_%d" % gid, "Improve")
    f = os.path.join(wd, "family.json")
    tlc.dump_json(f, [{k: v for k, v in inst.items() if k not in ("pts", "grid")} for inst in group])
    tlc.write_cfg(wd, root, invariants=MODEL_INV)
    r = tlc.run(wd, root, workers=MODEL_WORKERS, env={"FAMILY_FILE": f}, heap="6g")
    if r.violated:
        raise tlc.TLCError("Improve.tla: invariant %s halted TLC (clauses should only print)" % r.violated)
    states = {inst["id"]: {} for inst in group}
    for t in fast_tuples(r.out, "S"):
        _, iid, rec0, hist, cur, best, ccur, cbsf, rew = t
        states[iid][(tuple(rec0), tuple(tuple(a) for a in hist))] = (tuple(cur), tuple(best), ccur, cbsf, rew)
    if sum(len(v) for v in states.values()) != r.distinct:
        raise tlc.TLCError("Improve.tla group %d: parsed %d of %d states" % (gid, sum(len(v) for v in states.values()), r.distinct))
    fails = {inst["id"]: {} for inst in group}
    for t in tlc.parse_tuples(r.out, "MODELFAIL"):
        fails[t[2]].setdefault((tuple(t[3]), tuple(tuple(a) for a in t[4])), []).append(t[1])
    r.out = ""
    return r, states, fails


def split_groups(fam, k):
    groups, load = [[] for _ in range(k)], [0] * k
    for inst in sorted(fam, key=weight, reverse=True):
        j = load.index(min(load))
        groups[j].append(inst)
        load[j] += weight(inst)
    return [g for g in groups if g]


# ---------------------------------------------------------------------------------------------------------------
# the real environments
# ---------------------------------------------------------------------------------------------------------------
def make_env(kind, n, K, init_sol_type="random"):
    from rl4co.envs import PDPRuinRepairEnv, TSPkoptEnv

    if kind == "pdp":
        return PDPRuinRepairEnv(generator_params=dict(num_loc=n - 1, init_sol_type=init_sol_type))
    return TSPkoptEnv(generator_params=dict(num_loc=n, init_sol_type=init_sol_type), k_max=K)


def td_of(kind, locs):
    """locs [B, n, 2] -> the instance TensorDict env.reset expects"""
    B = locs.shape[0]
    if kind == "pdp":
        return TensorDict({"depot": locs[:, 0].clone(), "locs": locs[:, 1:].clone()}, batch_size=[B])
    return TensorDict({"locs": locs.clone()}, batch_size=[B])


def reset_with(env, kind, locs, rec0s):
    """env.reset with the initial tours given (the generator's initial-solution hook is replaced on this instance)"""
    env.generator._get_initial_solutions = lambda coords: rec0s.clone()
    try:
        return env.reset(td_of(kind, locs))
    finally:
        del env.generator._get_initial_solutions


def run_paths(env, inst, rec0s, hists):
    """drive the real environment along each (rec0, hist); returns the final state per row as plain lists"""
    kind, n, g = inst["kind"], inst["n"], inst["grid"]
    base = embed.locs_tensor(inst["pts"], g)
    groups = {}
    for r, h in enumerate(hists):
        groups.setdefault(tuple((1 if a == JUMP else 2 if a[0] == -2 else 0) for a in h), []).append(r)
    out = [None] * len(hists)
    tds = {}
    for pat, rows in groups.items():
        B = len(rows)
        td = reset_with(env, kind, base.unsqueeze(0).expand(B, n, 2), torch.tensor([rec0s[r] for r in rows]))
        if "reward" not in td.keys():
            td["reward"] = torch.zeros(B)
        for j, isjump in enumerate(pat):
            if isjump == 1:
                td = env.step_to_solution(td, td["rec_best"])
            elif isjump == 2:                # an external solution per row
                td = env.step_to_solution(td, torch.tensor([list(hists[r][j][1:]) for r in rows]))
            else:
                td["action"] = torch.tensor([hists[r][j] for r in rows])
                env.step(td)
        vals = [td[k].tolist() for k in ("rec_current", "rec_best")] + \
               [(td[k].double() * g).tolist() for k in ("cost_current", "cost_bsf", "reward")]
        for b, r in enumerate(rows):
            out[r] = tuple(tuple(v[b]) if isinstance(v[b], list) else v[b] for v in vals)
        tds[pat] = (td, rows)
    return out, tds


def real_mask_sets(env, inst, td, n_draws, rnd_seed):
    """per row: the set of moves the real environment admits (exact for get_mask environments; for k-opt the set of
    moves its sampler produced in n_draws draws)"""
    kind, n, K = inst["kind"], inst["n"], inst["K"]
    B = td.batch_size[0]
    if kind == "pdp":
        sets = [set() for _ in range(B)]
        for p in range(n // 2):
            m = env.get_mask(torch.full((B, 1), p + 1, dtype=torch.long), td)
            for b, f, s in m.nonzero().tolist():
                sets[b].add((p, f, s))
        return sets, True
    if K == 2:
        m = env.get_mask(td)
        sets = [set() for _ in range(B)]
        for b, f, s in m.nonzero().tolist():
            sets[b].add((f, s))
        return sets, True
    torch.manual_seed(rnd_seed)
    sets = [set() for _ in range(B)]
    for _ in range(n_draws):
        a = env._random_action(td).tolist()
        for b in range(B):
            sets[b].add(tuple(a[b]))
    return sets, False


def replay(inst, states, fails, viol, samples, n_draws, seed):
    env = make_env(inst["kind"], inst["n"], inst["K"])
    children = {}
    for (rec0, hist) in states:
        if hist and hist[-1][0] >= 0:            # (jumps, <<-1>> and <<-2>> o tour, are not moves of the mask)
            children.setdefault((rec0, hist[:-1]), set()).add(hist[-1])
    by_depth = {}
    for key in states:
        by_depth.setdefault(len(key[1]), []).append(key)
    n_cmp = n_mask = n_sampled = 0
    cover = [0, 0]
    label = env_label(inst)
    for d in sorted(by_depth):
        keys = sorted(by_depth[d])
        got, tds = run_paths(env, inst, [k[0] for k in keys], [k[1] for k in keys])
        for key, g in zip(keys, got):
            exp = states[key]
            n_cmp += 1
            if g != exp:
                names = ("rec_current", "rec_best", "cost_current", "cost_bsf", "reward")
                bad = [nm for nm, a, b in zip(names, g, exp) if a != b]
                viol.append(mk_viol(label, "replay-" + bad[0], inst, key,
                                    "after the moves the real TensorDict has %s, the specification %s (unit 1/%d)"
                                    % ({nm: a for nm, a, b in zip(names, g, exp) if a != b},
                                       {nm: b for nm, a, b in zip(names, g, exp) if a != b}, inst["grid"])))
            elif key in fails:
                for c in fails[key]:
                    if c not in ("move-meaning", "scatter-clash"):
                        viol.append(mk_viol(label, c, inst, key, "real environment and specification agree on the state "
                                            "rec_current=%s rec_best=%s cost_current=%s cost_bsf=%s reward=%s, which violates "
                                            "the clause" % g))
        if d == inst["depth"]:
            continue
        for pat, (td, rows) in tds.items():
            sets, exact = real_mask_sets(env, inst, td, n_draws, seed + d)
            for b, r in enumerate(rows):
                want = children.get(keys[r], set())
                n_mask += 1
                if exact and sets[b] != want:
                    viol.append(mk_viol(label, "replay-mask", inst, keys[r],
                                        "get_mask admits %s beyond the specification's set, omits %s"
                                        % (sorted(sets[b] - want)[:5], sorted(want - sets[b])[:5])))
                elif not exact:
                    n_sampled += n_draws
                    cover[0] += len(sets[b] & want)
                    cover[1] += len(want)
                    if not sets[b] <= want:
                        viol.append(mk_viol(label, "replay-sampler", inst, keys[r],
                                            "_random_action produced %s, not in the specification's set of admitted moves"
                                            % sorted(sets[b] - want)[:3]))
    key = max(states, key=lambda k: (len(k[1]), states[k][3] != states[k][2]))
    samples.append({"replayed": label, "n": inst["n"], "points": inst["pts"], "grid": inst["grid"], "initial_tour": list(key[0]),
                    "moves": [list(a) for a in key[1]], "spec_state_after": dict(zip(
                        ("rec_current", "rec_best", "cost_current", "cost_bsf", "reward"), states[key]))})
    return n_cmp, n_mask, n_sampled, cover


def env_label(inst):
    if inst["kind"] == "pdp":
        return "pdp_ruin_repair"
    return "tsp_kopt(k_max=%d)" % inst["K"]


def mk_viol(label, monitor, inst, key, detail):
    return {"property": PID, "env": label, "monitor": monitor,
            "inst": {"n": inst["n"], "k_max": inst["K"], "points": inst["pts"], "grid": inst["grid"],
                     "initial_tour(successor array)": list(key[0])},
            "actions": [list(a) for a in key[1]], "detail": detail}


# ---------------------------------------------------------------------------------------------------------------
# recorded executions
# ---------------------------------------------------------------------------------------------------------------
def make_policy(name, K):
    from rl4co.models import DACTPolicy, N2SPolicy, NeuOptPolicy

    if name == "dact":
        return DACTPolicy(embed_dim=32, num_encoder_layers=2, num_heads=4, feedforward_hidden=32)
    if name == "neuopt":
        return NeuOptPolicy(embed_dim=32, num_encoder_layers=2, num_heads=4, feedforward_hidden=32)
    return N2SPolicy(embed_dim=32, num_encoder_layers=2, num_heads=4, feedforward_hidden=32)


def record_run(cfg, seed):
    """one batch of rows of a real environment under a driver; returns one record per row"""
    kind, n, K, driver = cfg["kind"], cfg["n"], cfg["K"], cfg["driver"]
    B, T, exact = cfg["rows"], cfg["steps"], cfg["exact"]
    torch.manual_seed(seed)
    env = make_env(kind, n, K, cfg.get("init", "random"))
    if exact:
        insts = [points(n, -(seed % 1000) - 7 * b - 1) for b in range(B)]
        S = insts[0][1]
        locs = torch.stack([embed.locs_tensor(p, g) for p, g in insts])
        Ds = [embed.dist_matrix(p) for p, g in insts]
        tol = 0
    else:
        raw = env.generator(batch_size=[B])
        locs = torch.cat((raw["depot"][:, None, :], raw["locs"]), 1) if kind == "pdp" else raw["locs"]
        S = FLOAT_SCALE
        Ds = [embed.scaled_dist_matrix(locs[b], S) for b in range(B)]
        tol = n // 2 + 3
    policy = None
    if driver != "sampler":
        policy = make_policy(driver.split(":")[0], K).eval()
    decode = driver.split(":")[1] if ":" in driver else None
    td = env.reset(td_of(kind, locs))

    def snap(a):
        return (a, td["rec_current"].clone(), td["rec_best"].clone(), td["cost_current"].clone(),
                td["cost_bsf"].clone(), td["reward"].clone() if "reward" in td.keys() else torch.zeros(B))

    log = [snap(None)]
    crash = None
    with torch.no_grad():
        for t in range(T):
            try:
                if cfg.get("jump_every") and t % cfg["jump_every"] == cfg["jump_every"] - 1:
                    if (t // cfg["jump_every"]) % 2 == 0:
                        td = env.step_to_solution(td, td["rec_best"])
                        log.append(snap(torch.full((B, 1), -1, dtype=torch.long)))
                    else:
                        # an EXTERNAL solution: the visiting order 0, 1, ..., n-1 (valid for both kinds: every pickup p < its
                        # delivery p + n/2) as successor array, for every row
                        ext = ((torch.arange(n) + 1) % n).unsqueeze(0).expand(B, n).clone()
                        td = env.step_to_solution(td, ext)
                        log.append(snap(torch.cat((torch.full((B, 1), -2, dtype=torch.long), ext), 1)))
                    continue
                if policy is None:
                    env._random_action(td)
                else:
                    policy(td, env, phase="test", decode_type=decode)
                a = td["action"].clone()
                env.step(td)
                log.append(snap(a))
            except Exception as e:      # what was recorded so far is still validated
                if crash_site(e) is None:
                    raise
                crash = (e, t)
                break
    ints = lambda x: torch.round(x.double() * S).long().tolist()  # noqa: E731
    cols = [([None] * B if a is None else a.tolist(), rc.tolist(), rb.tolist(), ints(cc), ints(cb), ints(rw))
            for (a, rc, rb, cc, cb, rw) in log]
    recs = []
    for b in range(B):
        a0, rc, rb, cc, cb, rw = [c[b] for c in cols[0]]
        rec = {"kind": kind, "n": n, "K": K, "D": Ds[b], "tol": tol, "unit": S, "driver": driver, "seed": seed, "row": b,
               "locs": locs[b].tolist(), "init_sol_type": cfg.get("init", "random"),
               "init": {"rec": rc, "best": rb, "cost": cc, "bsf": cb},
               "ev": [{"a": c[0][b], "rec": c[1][b], "best": c[2][b], "cost": c[3][b], "bsf": c[4][b], "rew": c[5][b]}
                      for c in cols[1:]]}
        recs.append(rec)
    return recs, crash


def crash_site(exc):
    """file:line of the innermost frame inside rl4co, provided no harness frame is deeper"""
    repo = os.path.realpath(os.environ.get("VERIF_REPO", "/repo"))
    tb = exc.__traceback__
    frames = []
    while tb is not None:
        frames.append((os.path.realpath(tb.tb_frame.f_code.co_filename), tb.tb_lineno))
        tb = tb.tb_next
    for fn, ln in reversed(frames):
        if "site-packages" in fn or fn.startswith("<"):
            continue
        if fn.startswith(os.path.join(repo, "rl4co")):
            return "%s:%d" % (os.path.relpath(fn, repo), ln)
        return None
    return None


def record_guarded(cfg, seed, viol):
    """a run whose driver or environment raises inside rl4co is a verdict (the move could not be made), not a crash of
    the check; the steps recorded before the exception are validated like any other run"""
    try:
        recs, crash = record_run(cfg, seed)
    except Exception as e:
        if crash_site(e) is None:
            raise
        recs, crash = [], (e, -1)
    if crash:
        e, t = crash
        where = crash_site(e)
        viol.append({"property": PID, "env": env_label(cfg), "monitor": "library-raised",
                     "cls": ("batch-of-one " if cfg["rows"] == 1 else "") + where,
                     "inst": {"driver": cfg["driver"], "n": cfg["n"], "k_max": cfg["K"], "batch_size": cfg["rows"],
                              "exact_instance": cfg["exact"], "seed": seed, "where": where, "step": t},
                     "actions": [], "detail": "%s: %s" % (type(e).__name__, str(e)[:300])})
    return recs


def trace_configs(tier):
    q = tier == "quick"
    rows, steps = (4, 200) if q else (8, 1000)
    L = []
    for exact in (True, False):
        for (kind, n, K) in [("kopt", 10, 2), ("kopt", 20, 2), ("kopt", 10, 3), ("kopt", 14, 3), ("kopt", 12, 4), ("kopt", 20, 4),
                             ("pdp", 11, 0), ("pdp", 21, 0)]:
            if q and ((exact and n in (14, 20, 21) and K != 4) or (not exact and n in (10, 12, 11))):
                continue
            L.append(dict(kind=kind, n=n, K=K, driver="sampler", rows=rows, steps=steps, exact=exact,
                          init="greedy" if (n + K) % 3 == 0 else "random", jump_every=37))
    for (kind, n, K, drv) in [("kopt", 20, 2, "dact:sampling"), ("kopt", 12, 2, "dact:greedy"), ("kopt", 20, 4, "neuopt:sampling"),
                              ("kopt", 12, 3, "neuopt:sampling"), ("kopt", 10, 4, "neuopt:greedy"),
                              ("pdp", 21, 0, "n2s:sampling"), ("pdp", 11, 0, "n2s:greedy")]:
        for exact in ((True,) if q and "greedy" in drv else (True, False)):
            L.append(dict(kind=kind, n=n, K=K, driver=drv, rows=rows, steps=steps // 2, exact=exact, init="random",
                          jump_every=0 if "greedy" in drv else 29))
    # SMALL graphs next to a large k (the chosen segment ends often close the loop early: NeuOpt's "allow the first node again"
    # branch, the sampler's early stop), more rows
    for (kind, n, K, drv) in [("kopt", 8, 4, "neuopt:sampling"), ("kopt", 7, 5, "neuopt:sampling"), ("kopt", 7, 5, "sampler"),
                              ("kopt", 6, 3, "neuopt:sampling")]:
        L.append(dict(kind=kind, n=n, K=K, driver=drv, rows=4 * rows, steps=60 if q else 300, exact=True, init="random",
                      jump_every=0))
    # batch of one row (single-instance inference)
    for (kind, n, K, drv) in [("kopt", 10, 2, "sampler"), ("kopt", 10, 2, "dact:sampling"), ("kopt", 10, 3, "sampler"),
                              ("kopt", 10, 4, "neuopt:sampling"), ("pdp", 11, 0, "sampler"),
                              ("pdp", 11, 0, "n2s:sampling")] if BATCH_OF_ONE else []:
        L.append(dict(kind=kind, n=n, K=K, driver=drv, rows=1, steps=30, exact=True, init="random"))
    return L


def validate(recs, tag, shards):
    n = len(recs)
    k = max(1, min(shards, n))
    # balance the shards by work (steps x nodes)
    load = [0] * k
    parts = [[] for _ in range(k)]
    for i in sorted(range(n), key=lambda i: -(len(recs[i]["ev"]) + 1) * recs[i]["n"] * max(1, recs[i]["K"] - 1)):
        j = load.index(min(load))
        parts[j].append(i)
        load[j] += (len(recs[i]["ev"]) + 1) * recs[i]["n"] * max(1, recs[i]["K"] - 1)
    keep = ("kind", "n", "K", "D", "tol", "init", "ev")

    def one(j):
        idx = parts[j]
        wd, root = prepare("c09_trace_%s_%d" % (tag, j), "ImproveTrace")
        f = os.path.join(wd, "recs.ndjson")
        tlc.dump_ndjson(f, [{k_: recs[i][k_] for k_ in keep} for i in idx])
        tlc.write_cfg(wd, root, invariants=TRACE_INV)
        r = tlc.run(wd, root, workers=1, env={"TRACE_FILE": f}, heap="3g")
        if r.violated:
            raise tlc.TLCError("ImproveTrace: invariant %s halted TLC (monitors should only print)" % r.violated)
        os.remove(f)
        return ([(idx[t[1] - 1], t[2], t[3]) for t in r.tuples("FAIL")],
                [(idx[t[1] - 1], t[2], t[3]) for t in r.tuples("DRIFT")], r.distinct,
                {idx[t[1] - 1] for t in r.tuples("END")})

    fails, drifts, states, ended = [], [], 0, set()
    with cf.ThreadPoolExecutor(max_workers=k) as ex:
        for a, b, c, d in ex.map(one, range(k)):
            fails += a
            drifts += b
            states += c
            ended |= d
    if len(ended) != n:
        raise tlc.TLCError("ImproveTrace: %d of %d records not consumed" % (n - len(ended), n))
    return fails, drifts, states


def trace_viol(rec, clause, l):
    st = rec["init"] if l == 0 else rec["ev"][l - 1]
    prev = rec["init"] if l <= 1 else rec["ev"][l - 2]
    pick = lambda s: {k: s[k] for k in ("rec", "best", "cost", "bsf")}  # noqa: E731
    return {"property": PID, "env": env_label(rec), "monitor": clause,
            "inst": {"driver": rec["driver"], "n": rec["n"], "k_max": rec["K"], "seed": rec["seed"], "row": rec["row"],
                     "locs": rec["locs"], "unit": "1/%d" % rec["unit"], "tol_units": rec["tol"],
                     "init_sol_type": rec["init_sol_type"], "initial": pick(rec["init"])},
            "actions": [e["a"] for e in rec["ev"][:l]][-6:],
            "detail": "step %d: before %s, move %s, after %s reward %s" % (
                l, pick(prev), st.get("a"), pick(st), st.get("rew"))}


# ---------------------------------------------------------------------------------------------------------------
def run(tier, seed):
    t0 = time.time()
    logging.disable(logging.WARNING)
    torch.set_num_threads(1)
    quick = tier == "quick"
    viol, samples = [], []
    # ---- (1) the specification, (2) replay ----
    fam = model_family(tier)
    states = trans = n_cmp = n_mask = n_sampled = n_mfail = 0
    cover = [0, 0]
    per_inst = []
    groups = split_groups(fam, 3 if quick else 6)
    with cf.ThreadPoolExecutor(max_workers=len(groups)) as ex:
        results = list(ex.map(run_model, groups))
    t1 = time.time()
    by_id = {}
    for (r, st_all, fails_all) in results:
        states += r.distinct
        trans += r.generated
        for iid in st_all:
            by_id[iid] = (st_all[iid], fails_all[iid])
    for inst in fam:
        st, fails = by_id[inst["id"]]
        n_mfail += sum(len(v) for v in fails.values())
        drift = sorted({c for v in fails.values() for c in v if c in ("move-meaning", "scatter-clash")})
        if drift:
            print("MODEL-DRIFT C09: Improve.tla inst %d (%s n=%d) fails its sanity clauses %s" % (
                inst["id"], env_label(inst), inst["n"], drift))
        a, b, c, cv = replay(inst, st, fails, viol, samples, 40 if quick else 120, seed)
        n_cmp += a
        n_mask += b
        n_sampled += c
        cover[0] += cv[0]
        cover[1] += cv[1]
        per_inst.append({"env": env_label(inst), "n": inst["n"], "depth": inst["depth"], "states": len(st),
                         "grid": inst["grid"], "points": inst["pts"]})
    t2 = time.time()
    # ---- (3) recorded executions ----
    recs = []
    for i, cfg in enumerate(trace_configs(tier)):
        recs += record_guarded(cfg, seed * 7919 + i, viol)
    t3 = time.time()
    fails, drifts, tstates = validate(recs, "q" if quick else "t", 6 if quick else 14)
    seen = set()
    for (ri, clause, l) in sorted(fails, key=lambda f: (f[0], f[2])):
        if (ri, clause) in seen:
            continue          # first failing step per record and clause
        seen.add((ri, clause))
        viol.append(trace_viol(recs[ri], clause, l))
    for (ri, what, l) in drifts[:5]:
        print("MODEL-DRIFT C09: %s driver=%s n=%d step %d: %s" % (env_label(recs[ri]), recs[ri]["driver"], recs[ri]["n"], l, what))
    n_steps = sum(len(r["ev"]) for r in recs)
    r0 = recs[0]
    samples.append({"recorded": env_label(r0), "driver": r0["driver"], "n": r0["n"], "initial": r0["init"], "first_steps": r0["ev"][:3]})
    n_new, n_known = verdict.report(PID, viol)
    classes = {}
    for v in viol:
        k = "%s | %s%s" % (v["env"], v["monitor"], " | " + v["cls"] if v.get("cls") else "")
        classes[k] = classes.get(k, 0) + 1
    if os.environ.get("C09_DUMP"):
        tlc.dump_json(os.environ["C09_DUMP"], classes)
    by_driver = {}
    for r in recs:
        k = "%s/%s/%s" % (env_label(r), r["driver"], "exact" if r["tol"] == 0 else "float")
        by_driver[k] = by_driver.get(k, 0) + len(r["ev"])
    cov = {"states": states + tstates, "transitions": trans, "traces_validated_against_impl": n_cmp + len(recs),
           "samples": samples[:4] + samples[-1:], "exhaustive": True,
           "model_states": states, "model_clause_failures": n_mfail, "replayed_states": n_cmp, "mask_comparisons": n_mask,
           "sampler_draws_checked": n_sampled, "sampler_move_coverage": "%d/%d" % tuple(cover),
           "recorded_runs": len(recs), "recorded_steps": n_steps, "trace_states": tstates, "steps_by_driver": by_driver,
           "mask_drift_notes": len(drifts), "violation_classes": classes, "model_instances": per_inst, "known_finding_witnesses": n_known,
           "wall_split_s": {"tlc_model": round(t1 - t0, 1), "replay": round(t2 - t1, 1), "record": round(t3 - t2, 1),
                            "tlc_traces": round(time.time() - t3, 1)},
           "explanation": "Improve.tla (one batch row of TSPkoptEnv / PDPRuinRepairEnv with the move operators, move masks and "
                          "best-so-far bookkeeping; C09's clauses as invariants) model-checked for all initial tours x all admitted "
                          "moves x short sequences; every explored state re-created in the real environment from env.reset and "
                          "compared; the real move masks compared with the specification's; long runs of the samplers and of "
                          "DACT / NeuOpt / N2S policies validated step by step by ImproveTrace.tla."}
    verdict.write_evidence(PID, tier, seed, "model_checking", cov,
                           ["exact instances: lattice points with integer pairwise distances (coordinates k/16, k/32, k/64), "
                            "logged costs are round(cost * grid), i.e. compared to within half a unit where every genuine "
                            "difference is at least one unit",
                            "float instances: distance matrix rounded at 1e-5, cost tolerance n/2+3 units, reward tolerance 2 units "
                            "per non-zero reward",
                            "policies with random weights (embed_dim 32, 2 layers); initial tours from the generator (random / greedy)",
                            "k-opt has no get_mask: the admitted moves are those the sampler / NeuOpt builder can emit (transcribed "
                            "in KOptOps.tla); sampler draws are checked to lie in that set"],
                           time.time() - t0, n_new)
    return 1 if n_new else 0


# ---------------------------------------------------------------------------------------------------------------
# C06 for the improvement environments (called from the C06 check)
# ---------------------------------------------------------------------------------------------------------------
def _rec_of(order):
    rec = [0] * len(order)
    for i, v in enumerate(order):
        rec[v] = order[(i + 1) % len(order)]
    return rec


def c06_cases(tier, seed):
    """candidate successor arrays: valid tours and single-fault corruptions (the classes are only labels for the report;
    feasibility is decided by TLC)"""
    import itertools

    rnd = random.Random(seed)
    cases = []

    def add(kind, n, rec, fault):
        cases.append({"kind": kind, "n": n, "rec": list(rec), "fault": fault})

    for kind, sizes in (("kopt", (4, 5)), ("pdp", (5,))):
        for n in sizes:       # every permutation of the nodes used as successor array (tours, subtours, self loops)
            for perm in itertools.permutations(range(n)):
                add(kind, n, perm, "permutation")
    big = [("kopt", 6), ("kopt", 10), ("pdp", 7), ("pdp", 11)] + ([] if tier == "quick" else [("kopt", 20), ("pdp", 21)])
    for kind, n in big:
        for _ in range(12 if tier == "quick" else 60):
            h = n // 2
            order = list(range(1, n))
            rnd.shuffle(order)
            order = [0] + order
            if kind == "pdp":       # make it precedence-feasible: put each pair in pickup-delivery order
                pos = {v: i for i, v in enumerate(order)}
                for p in range(1, h + 1):
                    if pos[p] > pos[p + h]:
                        i, j = pos[p], pos[p + h]
                        order[i], order[j] = order[j], order[i]
                        pos[p], pos[p + h] = j, i
            rec = _rec_of(order)
            add(kind, n, rec, "valid")
            # two nodes point to the same successor (one node is never visited)
            i, j = rnd.sample(range(n), 2)
            r = list(rec)
            r[i] = r[j]
            add(kind, n, r, "shared-successor")
            # the cycle cut into two subtours
            a, b = sorted(rnd.sample(range(n), 2))
            r = list(rec)
            r[order[a]], r[order[b]] = rec[order[b]], rec[order[a]]
            add(kind, n, r, "two-subtours")
            # a 2-cycle and the rest
            full = _two_cycles(order[:2], order[2:], n)
            add(kind, n, full, "2-cycle-plus-rest")
            # a node skipped: its predecessor points past it, it points to itself
            k = rnd.randrange(1, n)
            r = list(rec)
            v = order[k]
            r[order[k - 1]] = rec[v]
            r[v] = v
            add(kind, n, r, "node-missing")
            if kind == "pdp":       # one delivery before its pickup
                p = rnd.randrange(1, h + 1)
                o = list(order)
                i, j = o.index(p), o.index(p + h)
                o[i], o[j] = o[j], o[i]
                add(kind, n, _rec_of(o), "delivery-before-pickup")
                # pickups in a subtour of their own, deliveries on the depot's cycle
                add(kind, n, _two_cycles([0] + list(range(h + 1, n)), list(range(1, h + 1)), n), "pickups-in-own-subtour")
    return cases


def _two_cycles(c1, c2, n):
    rec = [0] * n
    for c in (c1, c2):
        for k, v in enumerate(c):
            rec[v] = c[(k + 1) % len(c)]
    return rec


def c06_violations(tier, seed):
    """the real check_solution_validity of TSPkoptEnv / PDPRuinRepairEnv (reading td["rec_best"]) against the
    classification of the same successor arrays by spec/improve/TourClass.tla; returns (violations, number of cases)"""
    logging.disable(logging.WARNING)
    torch.set_num_threads(1)
    cases = c06_cases(tier, seed)
    wd, root = prepare("c09_c06class", "TourClass")
    f = os.path.join(wd, "cases.ndjson")
    tlc.dump_ndjson(f, [{k: c[k] for k in ("kind", "n", "rec")} for c in cases])
    tlc.write_cfg(wd, root, invariants=["Classify"])
    r = tlc.run(wd, root, workers=4, env={"TRACE_FILE": f}, heap="3g")
    if r.violated:
        raise tlc.TLCError("TourClass: %s" % r.violated)
    feas = {t[1] - 1: t[2] for t in r.tuples("CLS")}
    if len(feas) != len(cases):
        raise tlc.TLCError("TourClass: %d of %d cases classified" % (len(feas), len(cases)))
    envs = {}
    viol = []
    for i, c in enumerate(cases):
        key = (c["kind"], c["n"])
        if key not in envs:
            envs[key] = make_env(c["kind"], c["n"], 2)
        env = envs[key]
        td = TensorDict({"rec_best": torch.tensor([c["rec"]])}, batch_size=[1])
        try:
            env.check_solution_validity(td)
            accepted, msg = True, ""
        except AssertionError as e:
            accepted, msg = False, str(e)
        if accepted != feas[i]:
            label = "pdp_ruin_repair" if c["kind"] == "pdp" else "tsp_kopt"
            viol.append({"property": "C06", "env": label,
                         "monitor": "checker-accepts-infeasible" if accepted else "checker-rejects-feasible",
                         "cls": ("subtours" if sorted(c["rec"]) == list(range(c["n"])) else c["fault"]) if accepted else c["fault"],
                         "inst": {"n": c["n"], "rec_best(successor array)": c["rec"], "case": c["fault"]}, "actions": [],
                         "detail": "check_solution_validity %s; by the problem definition (single cycle through all nodes%s) "
                                   "the tour is %s" % ("accepts" if accepted else "rejects (%s)" % msg,
                                                       ", pickups before deliveries" if c["kind"] == "pdp" else "",
                                                       "feasible" if feas[i] else "infeasible")})
    return viol, len(cases)
