"""C21 (growth of C17 / C20) -- the EPOCH-LEVEL TRAINING PROTOCOL of rl4co as one state machine.

spec/train/TrainingRun.tla models a whole training run of REINFORCE with the default "rollout" baseline
(WarmupBaseline(RolloutBaseline)): Setup, TrainEpoch (batches of the wrapped training set), EpochEnd (baseline challenge
with the t-test as an input + warm-up alpha), Regen (new training set, `extra` from the CURRENT baseline policy).
(1) TLC model-checks it for all runs of <= MaxEpochs epochs x warm-up lengths x policy values x challenge outcomes;
(2) every run TLC explored is replayed into the REAL objects -- a real REINFORCE module built through the real baseline
    factory, a real TSPEnv with a tagging generator, a stub policy whose parameter value ("version") is readable in every
    reward it produces: module.setup(), module.train_dataloader() + calculate_loss, module.on_train_epoch_end() with a
    minimal trainer object (current_epoch / max_epochs) -- and the abstract state projected from the real objects is
    compared with the specification's after every action; the t-test is the REAL scipy routine, steered through a
    zero-mean spread of the candidate's rewards;
(3) the same executions, and real RL4COTrainer.fit runs observed by a Lightning callback, are written as traces and
    validated by TLC against spec/train/TrainingRunTrace.tla.
`violations(tier, seed)` returns (violations, coverage); property "C17" for the identity / extra clauses, "C20" for the
alpha / baseline-state clauses."""
import concurrent.futures as cf
import logging
import os
import sys
import time
import warnings
from fractions import Fraction

os.environ.setdefault("VERIF_RUN_ID", "%d" % os.getpid())      # private TLC scratch (set by harness/check.py otherwise)
_REPO = os.environ.get("VERIF_REPO", "/repo")
if _REPO not in sys.path:
    sys.path.insert(0, _REPO)

import numpy as np  # noqa: E402
import torch  # noqa: E402
import torch.nn as nn  # noqa: E402
from tensordict import TensorDict  # noqa: E402

from .. import tlc, verdict  # noqa: E402

warnings.filterwarnings("ignore")

CONFIGS = {
    # model constants; `replay`: replay every explored run into the real objects (loader order = identity only)
    "quick": [dict(C=dict(MaxEpochs="4", MinWarm="1", MaxWarm="2", PolVals="{0,1,2}", Pol0="1", NTrain="3", NEval="2", B="2",
                          Shuffle="FALSE"), replay=True),
              dict(C=dict(MaxEpochs="2", MinWarm="1", MaxWarm="2", PolVals="{0,2}", Pol0="1", NTrain="3", NEval="2", B="2",
                          Shuffle="TRUE"), replay=False)],
    "thorough": [dict(C=dict(MaxEpochs="4", MinWarm="1", MaxWarm="3", PolVals="{0,1,2,3}", Pol0="1", NTrain="3", NEval="2", B="2",
                             Shuffle="FALSE"), replay=True),
                 dict(C=dict(MaxEpochs="3", MinWarm="1", MaxWarm="2", PolVals="{0,2}", Pol0="1", NTrain="5", NEval="4", B="3",
                             Shuffle="FALSE"), replay=True),
                 dict(C=dict(MaxEpochs="3", MinWarm="1", MaxWarm="2", PolVals="{0,2}", Pol0="1", NTrain="3", NEval="2", B="2",
                             Shuffle="TRUE"), replay=False)],
}
INVARIANTS = ["TypeOK", "AlphaSchedule", "ExtraAtWrap", "ExtraFromCurrentBaseline", "BatchesOwn", "BatchesExactlyOnce",
              "BlValsCurrent", "DatasetPerEpoch", "VersionsCount", "Emit"]
PROPERTIES = ["UpdateIff", "UpdateOnlyAtChallenge", "FreshAfterUpdate", "RegenOnly"]
TRACE_INV = ["M_Alpha", "M_Update", "M_BlPolicy", "M_EvalSet", "M_BlVals", "M_Dataset", "M_Wrapped", "M_Extras",
             "M_Perm", "M_Batches", "M_Drift", "End"]
# clause -> property
CLAUSE = {"alpha-schedule": "C20", "update-iff-better-and-significant": "C20", "baseline-policy-version": "C20",
          "evaluation-set-renewed-on-update": "C20", "bl-vals-of-current-baseline": "C20",
          "training-set-regeneration": "C17", "extra-iff-warmed-up": "C17",
          "extra-of-own-instance-by-current-baseline": "C17", "loss-or-duplication": "C17",
          "batches-carry-own-extra": "C17"}
FIELDS = ["pc", "ep", "alpha", "pol", "blPol", "blVer", "evVer", "blVals", "blSum", "dsVer", "extras", "batches", "chal"]
ENV, ENV0 = "REINFORCE+WarmupBaseline(RolloutBaseline)", "REINFORCE+RolloutBaseline"
SPREAD = 8          # zero-mean +-SPREAD on the candidate's rewards: better on average, far from significant
BAD = -777777       # "not a value the specification can produce"


# ----------------------------------------------------------------------------------------------------------------
# the world: real environment with a tagging generator, stub policy with a visible version
# ----------------------------------------------------------------------------------------------------------------
def _classes():
    from rl4co.envs.routing.tsp.generator import TSPGenerator

    class TagGenerator(TSPGenerator):
        """instance i (1-based) of the g-th dataset ever generated has locs[:, 0] = i/64 and locs[:, 1] = g/64 (exact)"""

        def __init__(self):
            super().__init__(num_loc=4)
            self.count = 0

        def _generate(self, batch_size):
            n = int(batch_size[0]) if len(batch_size) else 1
            self.count += 1
            locs = torch.zeros(n, 4, 2)
            locs[:, :, 0] = (torch.arange(1, n + 1).float() / 64.0)[:, None]
            locs[:, :, 1] = self.count / 64.0
            return TensorDict({"locs": locs}, batch_size=[n])

    return TagGenerator


class VersionPolicy(nn.Module):
    """reward(instance i of dataset g) = 100 g + 10 i + p + q * s_i with s_i = -1 / +1 for odd / even i.
    p is the policy's "version" (an integer value); q is only used by the harness to steer the t-test."""

    def __init__(self, v):
        super().__init__()
        self.p = nn.Parameter(torch.tensor(float(v)))
        self.q = nn.Parameter(torch.tensor(0.0))
        self.train_decode_type = "sampling"
        self.val_decode_type = "greedy"
        self.test_decode_type = "greedy"

    def forward(self, td, env=None, phase="train", decode_type=None, **kw):
        locs = td["locs"]
        i = torch.round(locs[:, 0, 0] * 64.0)
        g = torch.round(locs[:, 0, 1] * 64.0)
        s = 1.0 - 2.0 * torch.remainder(i, 2.0)
        reward = 100.0 * g + 10.0 * i + self.p.detach() + self.q.detach() * s
        return {"reward": reward, "log_likelihood": -(i / 8.0) + 0.0 * (self.p + self.q)}


class FakeTrainer:
    """what REINFORCE.on_train_epoch_end reads of its trainer"""

    def __init__(self, current_epoch, max_epochs):
        self.current_epoch = current_epoch
        self.max_epochs = max_epochs
        self.loggers = []


def tags(locs):
    return int(round(float(locs[0, 0]) * 64)), int(round(float(locs[0, 1]) * 64))


def ival(x):
    x = float(x)
    r = round(x)
    return int(r) if abs(x - r) < 1e-3 else BAD


def make_module(max_ep, n_warm, ntrain, neval, b, pol0, shuffle=False, **kw):
    from rl4co.envs import TSPEnv
    from rl4co.models.rl import REINFORCE

    gen = _classes()()
    env = TSPEnv(generator=gen, check_solution=False)
    pol = VersionPolicy(pol0)
    # warm-up length 0 = the rollout baseline on its own (registry name "rollout_only")
    mod = REINFORCE(env, pol, baseline="rollout" if n_warm else "rollout_only",
                    baseline_kwargs={"n_epochs": n_warm} if n_warm else {}, batch_size=b,
                    val_batch_size=2, train_data_size=ntrain, val_data_size=neval, test_data_size=2,
                    shuffle_train_dataloader=shuffle, **kw)
    return gen, env, pol, mod


class Observer:
    """projection of the real objects onto the variables of TrainingRun.tla"""

    def __init__(self, gen, mod, ntrain, neval):
        self.gen, self.mod, self.ntrain, self.neval = gen, mod, ntrain, neval
        self.role = {}                 # generation id -> (kind, version)
        self.count = {"T": 0, "E": 0}
        self.cur_pol, self.nver = None, 0
        self.watermark = 0
        self.tcalls = []               # t-tests the real code ran: (candidate_vals, bl_vals)

    def begin(self):
        """an action of the real code starts: datasets first seen after it must have been generated during it"""
        self.watermark = self.gen.count

    def ver(self, kind, g):
        if g not in self.role:
            self.count[kind] += 1
            self.role[g] = (kind, self.count[kind] if g > self.watermark else BAD)   # an OLD dataset is not a new version
        k, v = self.role[g]
        return v if k == kind else BAD

    def parts(self):
        """(warm-up baseline or None, rollout baseline)"""
        from rl4co.models.rl.reinforce.baselines import WarmupBaseline

        b = self.mod.baseline
        return (b, b.baseline) if isinstance(b, WarmupBaseline) else (None, b)

    def observe(self, ep):
        mod = self.mod
        wb, rb = self.parts()
        a = Fraction(float(wb.alpha)).limit_denominator(1000) if wb is not None else Fraction(1)
        o = {"ep": int(ep), "alpha": [a.numerator, a.denominator], "pol": ival(mod.policy.p)}
        # --- rollout baseline: its copy of the policy, evaluation set, bl_vals, mean
        if rb.policy is not self.cur_pol:
            self.cur_pol = rb.policy           # (kept referenced: identities cannot be recycled)
            self.nver += 1
        o["blPol"] = ival(rb.policy.p) if float(rb.policy.q) == 0.0 else BAD
        o["blVer"] = self.nver
        ev = rb.dataset
        items = [ev[k] for k in range(len(ev))]
        tg = [tags(it["locs"]) for it in items]
        g = tg[0][1]
        ok = len(items) == self.neval and all(t == (k + 1, g) for k, t in enumerate(tg))
        o["evVer"] = self.ver("E", g) if ok else BAD
        shift = 100 * (g - o["evVer"])
        o["blVals"] = [ival(x) - shift for x in np.asarray(rb.bl_vals).reshape(-1).tolist()]
        o["blSum"] = ival(float(rb.mean) * max(1, len(o["blVals"]))) - shift * len(o["blVals"])
        # --- training set and its extras
        ds = mod.train_dataset
        items = [ds[k] for k in range(len(ds))]
        tg = [tags(it["locs"]) for it in items]
        g = tg[0][1]
        ok = len(items) == self.ntrain and all(t == (k + 1, g) for k, t in enumerate(tg))
        o["dsVer"] = self.ver("T", g) if ok else BAD
        has = ["extra" in it.keys() for it in items]
        if all(has):
            o["extras"] = [ival(it["extra"]) - 100 * (g - o["dsVer"]) for it in items]
        else:
            o["extras"] = [] if not any(has) else [BAD]
        return o

    def batch_record(self, batch, bl_val):
        """one training batch as the trainer's loader delivered it + which baseline value calculate_loss used"""
        wb, _ = self.parts()
        n = batch.batch_size[0]
        tg = [tags(batch["locs"][j]) for j in range(n)]
        gs = {t[1] for t in tg}
        g = tg[0][1]
        dsv = self.ver("T", g) if len(gs) == 1 else BAD
        has = "extra" in batch.keys()
        extra = [ival(batch["extra"][j]) - 100 * (g - dsv) for j in range(n)] if has else []
        if has and torch.is_tensor(bl_val) and bl_val.shape == batch["extra"].shape and torch.equal(bl_val, batch["extra"]):
            used = "extra"
        elif (not has) and wb is not None and float(wb.alpha) == 0.0 and wb.warmup_baseline.v is not None and torch.is_tensor(bl_val) \
                and bl_val.dim() == 0 and float(bl_val) == float(wb.warmup_baseline.v):
            used = "exp"
        else:
            used = "other"
        return {"ds": dsv, "idx": [t[0] for t in tg], "extra": extra, "used": used}

    # the real scipy test passes through; the harness only listens
    def listen_ttest(self):
        import rl4co.models.rl.reinforce.baselines as BL

        real = BL.ttest_rel
        calls = self.tcalls

        def passthrough(a, b, *args, **kw):
            calls.append((-np.asarray(a, dtype=np.float64), -np.asarray(b, dtype=np.float64)))
            return real(a, b, *args, **kw)

        BL.ttest_rel = passthrough
        return lambda: setattr(BL, "ttest_rel", real)

    def significance(self, n_before):
        """the one-sided paired test 'candidate rewards > baseline rewards', recomputed by the harness from the arrays the
        real code tested (FALSE when the real code did not consult the test)"""
        from scipy.stats import ttest_rel

        if len(self.tcalls) == n_before:
            return False
        cand, bl = self.tcalls[-1]
        p = float(ttest_rel(cand, bl, alternative="greater").pvalue)
        return bool(p < float(self.parts()[1].bl_alpha))


def hook_callback(obsv, sink):
    """observe the state between the two halves of REINFORCE.on_train_epoch_end (after baseline.epoch_callback)"""
    wb = obsv.mod.baseline
    orig = wb.epoch_callback

    def hooked(*a, **k):
        n0 = len(obsv.tcalls)
        v0 = obsv.nver
        rb = obsv.parts()[1]
        g = tags(rb.dataset[0]["locs"])[1]
        shift = 100 * (g - obsv.ver("E", g))          # evaluation set the challenge runs on
        r = orig(*a, **k)
        o = obsv.observe(k.get("epoch"))
        o["updated"] = bool(obsv.nver != v0)
        e = {"a": "end", "sig": obsv.significance(n0), "obs": o}
        if len(obsv.tcalls) > n0:                     # the arrays the real code handed to the t-test
            e["tested"] = [[ival(x) - shift for x in arr.tolist()] for arr in obsv.tcalls[-1]]
        sink.append(e)
        return r

    wb.epoch_callback = hooked          # instance attribute of the harness' own module object


# ----------------------------------------------------------------------------------------------------------------
# (2) replay of the specification's runs into the real objects
# ----------------------------------------------------------------------------------------------------------------
def hkey(h):
    return tuple(tuple(x) for x in h)


def spec_obs(abs_):
    d = dict(zip(FIELDS, abs_))
    return d


def differences(action, real, spec):
    """components of the projected real state that differ from the specification's state, as clauses"""
    out = []
    if Fraction(*real["alpha"]) != Fraction(*spec["alpha"]):
        out.append(("alpha-schedule", "alpha %s, specification %s" % (Fraction(*real["alpha"]), Fraction(*spec["alpha"]))))
    if action == "end" and real["updated"] != spec["chal"][2]:
        out.append(("update-iff-better-and-significant", "baseline replaced: %s, specification (better, significant, replaced) = %s"
                    % (real["updated"], spec["chal"])))
    if (real["blPol"], real["blVer"]) != (spec["blPol"], spec["blVer"]):
        out.append(("baseline-policy-version", "baseline policy (value, version) (%s, %s), specification (%s, %s)"
                    % (real["blPol"], real["blVer"], spec["blPol"], spec["blVer"])))
    if real["evVer"] != spec["evVer"]:
        out.append(("evaluation-set-renewed-on-update", "evaluation set version %s, specification %s" % (real["evVer"], spec["evVer"])))
    if real["blVals"] != spec["blVals"] or real["blSum"] != spec["blSum"]:
        out.append(("bl-vals-of-current-baseline", "bl_vals %s sum %s, specification %s sum %s"
                    % (real["blVals"], real["blSum"], spec["blVals"], spec["blSum"])))
    if real["dsVer"] != spec["dsVer"]:
        out.append(("training-set-regeneration", "training set version %s, specification %s" % (real["dsVer"], spec["dsVer"])))
    if bool(real["extras"]) != bool(spec["extras"]):
        out.append(("extra-iff-warmed-up", "extras %s, specification %s (alpha %s)" % (real["extras"], spec["extras"], spec["alpha"])))
    elif real["extras"] != spec["extras"]:
        out.append(("extra-of-own-instance-by-current-baseline", "extras %s, specification %s" % (real["extras"], spec["extras"])))
    if action == "train" and real["batches"] != spec["batches"]:
        out.append(("batches-carry-own-extra", "batches %s, specification %s" % (real["batches"], spec["batches"])))
    return out


def replay_run(max_ep, n_warm, hist, table, K):
    """drive the real objects through one run of the specification; returns (trace record, [(step, clause, detail)])"""
    gen, env, pol, mod = make_module(max_ep, n_warm, K["NTrain"], K["NEval"], K["B"], hist[0][1])
    obsv = Observer(gen, mod, K["NTrain"], K["NEval"])
    restore = obsv.listen_ttest()
    events, bad = [], []
    ep = 0
    try:
        for j, act in enumerate(hist):
            name = act[0]
            if name == "setup":
                obsv.begin()
                mod.setup("fit")
                hook_callback(obsv, events)
                events.append({"a": "setup", "pol": act[1], "obs": obsv.observe(ep)})
            elif name == "train":
                batches = []
                for batch in mod.train_dataloader():
                    td = env.reset(batch)
                    out = mod.policy(td, env, phase="train")
                    out = mod.calculate_loss(td, batch, out)
                    batches.append(obsv.batch_record(batch, out["bl_val"]))
                # effect of the optimiser: a new policy value; the spread realises the prescribed t-test outcome
                sig = hist[j + 1][1]
                with torch.no_grad():
                    pol.p.fill_(float(act[1]))
                    pol.q.fill_(0.0 if sig else float(SPREAD))
                o = obsv.observe(ep)
                o["batches"] = batches
                events.append({"a": "train", "pol": act[1], "order": [i for b in batches for i in b["idx"]], "obs": o})
            elif name == "end":
                mod._trainer = FakeTrainer(ep, max_ep)
                obsv.begin()
                n0 = len(events)
                mod.on_train_epoch_end()            # both halves; the hook appended the "end" event in between
                if len(events) != n0 + 1:
                    raise tlc.TLCError("baseline.epoch_callback was not called exactly once by on_train_epoch_end")
                e = events[-1]
                if "tested" in e and e["sig"] != act[1]:
                    # the real test came out differently from the prescribed input: either the real code tested other
                    # arrays than (candidate on the evaluation set, bl_vals) or the harness failed to steer
                    prev = spec_obs(table[(max_ep, n_warm, hkey(hist[:j]))])
                    q = int(round(float(pol.q)))
                    want = [[100 * prev["evVer"] + 10 * i + prev["pol"] + q * (1 - 2 * (i % 2)) for i in range(1, K["NEval"] + 1)],
                            prev["blVals"]]
                    if e["tested"] == want:
                        raise tlc.TLCError("harness could not steer the t-test: wanted %s got %s" % (act[1], e["sig"]))
                    bad.append((j, "bl-vals-of-current-baseline", "the t-test compared %s, specification %s" % (e["tested"], want)))
                e["sig"] = act[1]
            elif name == "regen":
                ep += 1
                events.append({"a": "regen", "obs": obsv.observe(ep)})
            e = events[-1]
            spec = spec_obs(table[(max_ep, n_warm, hkey(hist[: j + 1]))])
            for clause, detail in differences(name, e["obs"], spec):
                bad.append((j, clause, detail))
            if bad:
                break
    finally:
        restore()
    return {"maxEp": max_ep, "nWarm": n_warm, "shuffle": False, "ev": events}, bad


# ----------------------------------------------------------------------------------------------------------------
# (3) a real RL4COTrainer.fit observed by a callback
# ----------------------------------------------------------------------------------------------------------------
def fit_trace(max_ep, n_warm, K, plan, shuffle, seed):
    """plan[e] = (value, spread) of the training policy at the end of epoch e (set by a user-defined optimiser)"""
    import lightning.pytorch as pl

    from rl4co.utils.trainer import RL4COTrainer

    nb = -(-K["NTrain"] // K["B"])
    state = {"k": 0}

    def apply(pol):
        e, j = divmod(state["k"], nb)
        state["k"] += 1
        with torch.no_grad():
            if j < nb - 1:
                pol.p.fill_(float(7 - j))          # intermediate values within the epoch
            elif e < len(plan):
                pol.p.fill_(float(plan[e][0]))
                pol.q.fill_(float(plan[e][1]))

    class PlanOptimizer(torch.optim.Optimizer):
        """user-defined optimiser (a supported extension point): every step runs the closure (training_step + backward)
        and then moves the policy parameter along the plan"""

        def __init__(self, params, target=None):
            super().__init__(params, {})
            self.target = target

        def step(self, closure=None):
            loss = closure() if closure is not None else None
            apply(self.target)
            return loss

    torch.manual_seed(seed)
    pol0 = 1
    gen, env, pol, mod = make_module(max_ep, n_warm, K["NTrain"], K["NEval"], K["B"], pol0, shuffle=shuffle,
                                     optimizer=PlanOptimizer, optimizer_kwargs={})
    mod.optimizer_kwargs = {"target": pol}
    obsv = Observer(gen, mod, K["NTrain"], K["NEval"])
    events, cur = [], {"batches": []}
    real_loss = mod.calculate_loss

    def listening_loss(td, batch, policy_out, *a, **k):
        out = real_loss(td, batch, policy_out, *a, **k)
        cur["batches"].append(obsv.batch_record(batch, out["bl_val"]))
        return out

    mod.calculate_loss = listening_loss

    class Recorder(pl.Callback):
        def on_train_start(self, trainer, m):
            hook_callback(obsv, events)
            events.append({"a": "setup", "pol": pol0, "obs": obsv.observe(trainer.current_epoch)})

        def on_train_epoch_start(self, trainer, m):
            if trainer.current_epoch > 0:
                events.append({"a": "regen", "obs": obsv.observe(trainer.current_epoch)})
            cur["batches"] = []

        def on_train_epoch_end(self, trainer, m):       # runs BEFORE the module's own on_train_epoch_end
            o = obsv.observe(trainer.current_epoch)
            o["batches"] = cur["batches"]
            events.append({"a": "train", "pol": ival(pol.p), "order": [i for b in cur["batches"] for i in b["idx"]], "obs": o})
            obsv.begin()

        def on_train_end(self, trainer, m):
            events.append({"a": "regen", "obs": obsv.observe(trainer.current_epoch)})

    restore = obsv.listen_ttest()
    try:
        trainer = RL4COTrainer(max_epochs=max_ep, accelerator="cpu", devices=1, precision="32-true", logger=False,
                               enable_checkpointing=False, enable_progress_bar=False, enable_model_summary=False,
                               callbacks=[Recorder()])
        trainer.fit(mod)
    finally:
        restore()
    return {"maxEp": max_ep, "nWarm": n_warm, "shuffle": bool(shuffle), "ev": events,
            "note": "RL4COTrainer.fit, plan %s, reload_dataloaders_every_n_epochs=%s"
                    % (plan, trainer.reload_dataloaders_every_n_epochs)}


# ----------------------------------------------------------------------------------------------------------------
def validate_traces(recs, C, tag):
    """TLC over TrainingRunTrace.tla; returns fails [(rec index, clause, event number)], drifts, states"""
    n = len(recs)
    if n == 0:
        return [], [], 0
    k = max(1, min(8, (n + 199) // 200))
    bounds = [(i * n) // k for i in range(k + 1)]

    def one(j):
        lo, hi = bounds[j], bounds[j + 1]
        wd, root = tlc.prepare("trainrun_trace_%s_%d" % (tag, j), module="TrainingRunTrace")
        f = os.path.join(wd, "recs.ndjson")
        tlc.dump_ndjson(f, recs[lo:hi])
        tlc.write_cfg(wd, root, constants=C, invariants=TRACE_INV, init_next=("TInit", "TNext"))
        r = tlc.run(wd, root, workers=1, env={"TRACE_FILE": f}, heap="3g")
        if r.violated:
            raise tlc.TLCError("TrainingRunTrace invariant violated: %s" % r.violated)
        os.remove(f)
        return ([(lo + t[1] - 1, t[2], t[3]) for t in r.tuples("FAIL")], [(lo + t[1] - 1, t[2]) for t in r.tuples("DRIFT")],
                r.distinct, {lo + t[1] - 1 for t in r.tuples("END")})

    fails, drifts, states, ended = [], [], 0, set()
    with cf.ThreadPoolExecutor(max_workers=k) as ex:
        for a, b, c, d in ex.map(one, range(k)):
            fails += a
            drifts += b
            states += c
            ended |= d
    if len(ended) != n:
        raise tlc.TLCError("TrainingRunTrace: %d of %d runs not consumed" % (n - len(ended), n))
    return fails, drifts, states


def crash_site(exc):
    """file:line of the innermost frame inside rl4co, provided no harness frame is deeper (as harness/check.py)"""
    repo = os.path.realpath(_REPO)
    tb = exc.__traceback__
    frames = []
    while tb is not None:
        frames.append((os.path.realpath(tb.tb_frame.f_code.co_filename), tb.tb_lineno, tb.tb_frame.f_code.co_name))
        tb = tb.tb_next
    for fn, ln, _ in reversed(frames):
        if "site-packages" in fn or fn.startswith("<"):
            continue
        if fn.startswith(os.path.join(repo, "rl4co")):
            return "%s:%d" % (os.path.relpath(fn, repo), ln), any(f[2] == "wrap_dataset" for f in frames)
        return None
    return None


def raised(exc, what, inst):
    """the library itself raised while following the protocol: a verdict (as `library-raised` of harness/check.py)"""
    site = crash_site(exc)
    if site is None or isinstance(exc, tlc.TLCError):
        raise exc
    where, wrapping = site
    pid = "C17" if ("data/" in where or "common/base.py" in where or wrapping) else "C20"
    return {"property": pid, "env": ENV if inst.get("warmup_epochs", 1) else ENV0, "monitor": "library-raised",
            "inst": dict(inst, where=where), "actions": what, "detail": "%s: %s" % (type(exc).__name__, str(exc)[:300])}


def mkviol(clause, prefix, rec, upto, detail):
    return {"property": CLAUSE[clause], "env": ENV if rec["nWarm"] else ENV0, "monitor": prefix + clause,
            "inst": {"max_epochs": rec["maxEp"], "warmup_epochs": rec["nWarm"], "shuffle": rec.get("shuffle", False),
                     "note": rec.get("note", "")},
            "actions": [[e["a"]] + ([e["pol"]] if "pol" in e else []) + ([e["sig"]] if "sig" in e else []) for e in rec["ev"][:upto]],
            "detail": detail}


# the same protocol with warm-up length 0, i.e. REINFORCE(baseline="rollout_only") (before the repair recorded as F40 the
# library raised in setup(): the training set was wrapped before the baseline policy existed)
ROLLOUT_ONLY = dict(C=dict(MaxEpochs="2", MinWarm="0", MaxWarm="0", PolVals="{0,2}", Pol0="1", NTrain="3", NEval="2", B="2",
                           Shuffle="FALSE"), replay=True)

FIT_PLANS = {
    # (max_epochs, warm-up epochs, shuffle, plan[(value, spread)]): better+significant / worse / better+insignificant / ...
    "quick": [(4, 2, True, [(2, 0), (1, 0), (3, SPREAD), (3, 0)])],
    "thorough": [(4, 2, True, [(2, 0), (1, 0), (3, SPREAD), (3, 0)]),
                 (3, 1, False, [(1, 0), (2, SPREAD), (2, 0)]),
                 (4, 3, True, [(0, 0), (2, 0), (3, 0), (3, 0)]),
                 (1, 1, False, [(2, 0)])],
}
FIT_K = {"NTrain": 5, "NEval": 4, "B": 2}


def violations(tier, seed):
    logging.disable(logging.WARNING)
    import rl4co

    t0 = time.time()
    viol, samples = [], []
    states = transitions = 0
    model_viol = []
    n_runs = n_steps = n_traces = 0
    per_cfg = []
    drift_notes = []
    cfgs = CONFIGS[tier] + [ROLLOUT_ONLY]
    for ci, cfgd in enumerate(cfgs):
        C = cfgd["C"]
        K = {k: int(C[k]) for k in ("NTrain", "NEval", "B")}
        wd, root = tlc.prepare("trainrun_%d" % ci, module="TrainingRun")
        tlc.write_cfg(wd, root, constants=C, invariants=INVARIANTS, properties=PROPERTIES)
        r = tlc.run(wd, root, coverage=True, timeout=3000)
        states += r.distinct
        transitions += r.generated
        model_viol += r.violated
        tup = r.tuples("S")
        if len(tup) != r.distinct:
            raise tlc.TLCError("TrainingRun: parsed %d of %d states" % (len(tup), r.distinct))
        table = {(t[1], t[2], hkey(t[3])): t[4] for t in tup}
        leaves = [k for k, a in table.items() if a[0] == "done"]
        acts = {}
        for (_, _, h) in table:
            if h:
                nm = h[-1][0] + ("" if h[-1][0] != "end" else ":significant" if h[-1][1] else ":not-significant-or-not-better")
                acts[nm] = acts.get(nm, 0) + 1
        per_cfg.append({"constants": C, "states": r.distinct, "complete_runs": len(leaves), "depth": r.depth,
                        "explored_actions": acts, "tlc_wall_s": round(r.wall, 1)})
        if not cfgd["replay"]:
            continue
        recs = []
        t1 = time.time()
        n_raised = 0
        for (max_ep, n_warm, h) in sorted(leaves):
            try:
                rec, bad = replay_run(max_ep, n_warm, [list(x) for x in h], table, K)
            except Exception as ex:  # noqa: BLE001
                viol.append(raised(ex, [list(x) for x in h], {"max_epochs": max_ep, "warmup_epochs": n_warm}))
                n_raised += 1
                if n_raised >= 5:
                    break
                continue
            recs.append(rec)
            n_runs += 1
            n_steps += len(rec["ev"])
            for (j, clause, detail) in bad:
                viol.append(mkviol(clause, "replay-", rec, j + 1, "after action %d (%s): %s" % (j + 1, h[j][0], detail)))
        per_cfg[-1]["replay_wall_s"] = round(time.time() - t1, 1)
        # the same real executions as traces, judged by TLC
        fails, drifts, st = validate_traces(recs, C, "replay%d" % ci)
        states += st
        n_traces += len(recs)
        for (i, clause, l) in fails:
            viol.append(mkviol(clause, "", recs[i], l, "event %d: observed %s" % (l, recs[i]["ev"][l - 1]["obs"])))
        drift_notes += [("replay", i, l) for (i, l) in drifts]
        samples.append({"replayed_run": {"max_epochs": recs[-1]["maxEp"], "warmup": recs[-1]["nWarm"],
                                         "actions": [[e["a"], e.get("pol", e.get("sig", ""))] for e in recs[-1]["ev"]],
                                         "final_state": recs[-1]["ev"][-1]["obs"]}} if recs else {"replay": "aborted"})
    # ---- real trainer runs
    fit_recs = []
    t1 = time.time()
    for (max_ep, n_warm, shuffle, plan) in FIT_PLANS[tier]:
        try:
            fit_recs.append(fit_trace(max_ep, n_warm, FIT_K, plan, shuffle, seed))
        except Exception as ex:  # noqa: BLE001
            viol.append(raised(ex, [["RL4COTrainer.fit", plan]], {"max_epochs": max_ep, "warmup_epochs": n_warm, "shuffle": shuffle}))
    fit_wall = time.time() - t1
    CF = dict(MaxEpochs="4", MinWarm="0", MaxWarm="3", PolVals="{0}", Pol0="1", NTrain=str(FIT_K["NTrain"]), NEval=str(FIT_K["NEval"]),
              B=str(FIT_K["B"]), Shuffle="TRUE")
    fails, drifts, st = validate_traces(fit_recs, CF, "fit")
    states += st
    n_traces += len(fit_recs)
    for (i, clause, l) in fails:
        viol.append(mkviol(clause, "fit-", fit_recs[i], l, "event %d (%s): observed %s"
                           % (l, fit_recs[i]["ev"][l - 1]["a"], fit_recs[i]["ev"][l - 1]["obs"])))
    drift_notes += [("fit", i, l) for (i, l) in drifts]
    # the plan must have exercised every branch of the challenge in the real trainer
    branches = sorted({("tested" in e, e["sig"], e["obs"]["updated"]) for rec in fit_recs for e in rec["ev"] if e["a"] == "end"})
    if fit_recs:
        samples.append({"fit_run": {"note": fit_recs[0]["note"],
                                    "events": [[e["a"], e.get("pol", e.get("sig", "")), e["obs"]["alpha"], e["obs"]["blPol"],
                                                e["obs"]["dsVer"], e["obs"]["extras"]] for e in fit_recs[0]["ev"]]}})
    if model_viol:
        print("MODEL-DRIFT C21: TrainingRun.tla violates %s" % sorted(set(model_viol)))
    if drift_notes:
        print("MODEL-DRIFT C21: harness bookkeeping (epoch counter / policy value) differs from the specification at %s"
              % drift_notes[:5])
    cov = {"states": states, "transitions": transitions, "traces_validated_against_impl": n_runs + n_traces,
           "samples": samples[:4], "exhaustive": True, "replayed_runs": n_runs, "replayed_actions": n_steps,
           "tlc_validated_traces": n_traces, "fit_runs": len(fit_recs), "fit_wall_s": round(fit_wall, 1),
           "fit_challenge_branches_(better,significant,updated)": [list(b) for b in branches],
           "models": per_cfg, "rl4co": os.path.dirname(rl4co.__file__), "wall_s": round(time.time() - t0, 1),
           "explanation": "TrainingRun.tla (whole training run of REINFORCE + warm-up(rollout) baseline as a state machine) "
                          "model-checked for all runs of the scope; every run replayed into the real module / baseline / "
                          "data loader with state comparison after every action; the same executions and real "
                          "RL4COTrainer.fit runs validated by TLC against TrainingRunTrace.tla."}
    return viol, cov


ASSUMPTIONS = ["stub policy: reward = 100 g + 10 i + version (+ zero-mean spread used only to steer the real t-test)",
               "the t-test is an input of the specification: its outcome is recomputed by the harness with scipy "
               "(alternative='greater') from the arrays the real code tested",
               "in RL4COTrainer.fit the 'training' is a user-defined optimiser moving the policy value along a plan",
               "num_workers = 0, single device, cpu"]


def run(tier, seed):
    """`bin/check c21_trainrun`: verdict lines for C17 and C20; evidence goes to the agent's scratch directory"""
    t0 = time.time()
    viol, cov = violations(tier, seed)
    n_new = 0
    for pid in ("C17", "C20"):
        a, _ = verdict.report(pid, viol)
        n_new += a
    d = os.path.join(verdict.ROOT, "out", "agents", "grow_train")
    os.makedirs(d, exist_ok=True)
    import json

    scratch = os.path.realpath(os.environ.get("VERIF_REPO", "/repo")) != "/repo"
    with open(os.path.join(d, "evidence_C21_%s%s.json" % (tier, "_scratch" if scratch else "")), "w") as f:
        json.dump({"property_id": "C21_TRAINRUN", "tier": tier, "seed": seed, "level": "model_checking", "coverage": cov,
                   "assumptions": ASSUMPTIONS, "wall_s": round(time.time() - t0, 2), "violations": n_new}, f, indent=1, default=str)
    print("[C21] states=%d replayed_runs=%d actions=%d traces=%d fit_runs=%d violations=%d wall=%.1fs"
          % (cov["states"], cov["replayed_runs"], cov["replayed_actions"], cov["tlc_validated_traces"], cov["fit_runs"],
             n_new, time.time() - t0))
    return 1 if n_new else 0


if __name__ == "__main__":
    import argparse

    ap = argparse.ArgumentParser()
    ap.add_argument("--tier", default="quick")
    ap.add_argument("--seed", type=int, default=0)
    a = ap.parse_args()
    os.environ.setdefault("VERIF_RUN_ID", "%d" % os.getpid())
    torch.set_num_threads(4)
    sys.exit(run(a.tier, a.seed))
