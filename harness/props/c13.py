"""C13 -- beam search returns feasible, correctly scored and distinct beams.
(1) TLC explores machine B of spec/common/Decode.tla.tmpl (beam search over the TSP / CVRP environment models with
    the explicit table policy, exact rational scores; at every step ANY top-W subset of the feasible expansions;
    invariants: beams complete and feasible, pairwise distinct, W of them);
(2) the REAL BeamSearch runs the same table policy (stub decoder) on the real environments: the returned beams of
    every instance must be one of the specification's terminal beam sets, each beam with exactly the per-step
    log-probabilities the policy assigns along that very sequence; with select_best the returned row must be the
    best of the instance's own beams."""
import logging
import math
import random
import time
import warnings

import torch

from .. import decode_lib as dl
from .. import verdict
from .c11 import adapters as _base_adapters, small_family as _base_family


WIDE_ROWS = 16400       # (3 - 1) * 16400 = 32800 > 2^15


def adapters():
    """TSP, CVRP (from C11) + an environment with POSITIVE rewards (OP) and one with time windows (CVRPTW)"""
    from ..envs.cvrptw import CVRPTW
    from ..envs.op import OP

    from ..envs.mtsp import MTSP

    out = [a for a in _base_adapters() if a.name != "op"]
    # MTSP (min-max): the objective is read from the rollout STATE, so the best beam's state must be handed back with its actions
    for cls in (OP, CVRPTW, MTSP):
        a = cls()
        a.tag = a.name
        out.append(a)
    return out


def dl_group(ad, insts):
    g = {}
    for i in insts:
        g.setdefault(ad.group_key(i), []).append(i)
    return g


def small_family(ad, tier):
    if ad.name in ("tsp", "cvrp"):
        return _base_family(ad, tier)
    fam = [i for i in ad.family("quick", 0) if i.get("variant", "minmax") == "minmax"]
    fam = fam[:: max(1, len(fam) // (6 if tier == "quick" else 16))]
    for k, i in enumerate(fam):
        i["id"] = k + 1
    return fam

warnings.filterwarnings("ignore")


def run(tier, seed):
    t0 = time.time()
    logging.disable(logging.WARNING)
    viol, samples = [], []
    states = trans = nchk = 0
    for ad in adapters():
        fam = small_family(ad, tier)
        maxlen = ad.step_cap(fam[0])
        policy = dl.make_policy(ad.name)
        for W in ((2, 3) if tier == "quick" else (2, 3, 4)):
            fam_w = [i for i in fam if i["N"] >= W]
            if ad.name == "op":
                # beams are pairwise distinct only "whenever their forced first moves are distinct": keep the instances with
                # at least W feasible first customers (otherwise the library cycles through the feasible starts and the
                # returned beams legitimately coincide)
                keep = []
                for key, insts in dl_group(ad, fam_w).items():
                    env0, td0 = dl.reset_with_ids(ad, insts)
                    nfeas = td0["action_mask"][:, 1:].sum(-1).tolist()
                    keep += [i for i, nf in zip(insts, nfeas) if nf >= W]
                fam_w = keep
            if not fam_w:
                continue
            model, r = dl.model_beams(ad, fam_w, W, maxlen, "%s_w%d" % (ad.name, W))
            states += r.distinct
            trans += r.generated
            groups = {}
            for i in fam_w:
                groups.setdefault(ad.group_key(i), []).append(i)
            jobs = [(insts, None) for insts in groups.values()]
            if ad.name == "tsp" and W == 3:
                # WIDE batch: the same instances repeated until (W - 1) * B exceeds 2^15, so that the flat row arithmetic of
                # the beam bookkeeping (parent * batch_size + b) is exercised beyond the range of a 16-bit index; a sample of
                # the copies (first, last, 60 drawn) is compared with the specification's beam sets like any other instance
                base = next(iter(groups.values()))
                big = (base * (-(-WIDE_ROWS // len(base))))
                rnd = random.Random(1300 + seed)
                jobs.append((big, {0, len(big) - 1} | {rnd.randrange(len(big)) for _ in range(60)}))
            for insts, only_rows in jobs:
                env, td = dl.reset_with_ids(ad, insts)
                B = len(insts)
                out = dl.run_policy(policy, env, td, decode_type="beam_search", beam_width=W, select_best=False)
                best = dl.run_policy(policy, env, td, decode_type="beam_search", beam_width=W, select_best=True)
                for b, inst in enumerate(insts):
                    if only_rows is not None and b not in only_rows:
                        continue
                    rows = [w * B + b for w in range(W)]
                    real = {}
                    for rr in rows:
                        a = [int(x) for x in out["actions"][rr].tolist()]
                        real[rr] = a
                    nchk += 1
                    allowed = model.get(inst["id"], [])
                    # strip per-beam padding: a beam of the specification ends when ITS episode is done
                    match = None
                    for cand in allowed:
                        ok = True
                        used = set()
                        for rr, a in real.items():
                            hit = next((h for h in cand if list(h) == a[:len(h)] and all(x == ad.pad_action for x in a[len(h):])
                                        and h not in used), None)
                            if hit is None:
                                ok = False
                                break
                            used.add(hit)
                        if ok:
                            match = cand
                            break
                    if match is None:
                        viol.append({"property": "C13", "env": ad.name, "monitor": "beams-not-a-top-W-set",
                                     "inst": {k: v for k, v in inst.items() if k != "pts"}, "actions": list(real.values()),
                                     "detail": "width %d: returned beams are none of the %d beam sets the specification allows, e.g. %s"
                                               % (W, len(allowed), [list(h) for h in allowed[0]] if allowed else None)})
                        continue
                    rewards = []
                    for rr, a in real.items():
                        h = next(h for h in match if list(h) == a[:len(h)])
                        probs, rew = match[h]
                        rewards.append(float(out["reward"][rr]))
                        bad = []
                        for t in range(len(a)):
                            exp = math.log(float(probs[t])) if t < len(h) else 0.0
                            if abs(float(out["log_likelihood"][rr][t]) - exp) > 2e-5:
                                bad.append("step %d log-prob %.6f, policy assigns %.6f along this sequence" % (t, float(out["log_likelihood"][rr][t]), exp))
                        if abs(float(out["reward"][rr]) * ad.scale(inst) - rew) > 1e-3:
                            bad.append("reward %s, objective %s/%s" % (float(out["reward"][rr]), rew, ad.scale(inst)))
                        if bad:
                            viol.append({"property": "C13", "env": ad.name, "monitor": "beam-score-not-own-sequence",
                                         "inst": {k: v for k, v in inst.items() if k != "pts"}, "actions": a, "detail": "; ".join(bad[:3])})
                    if len({tuple(a) for a in real.values()}) != len(real):
                        viol.append({"property": "C13", "env": ad.name, "monitor": "beams-not-distinct",
                                     "inst": {k: v for k, v in inst.items() if k != "pts"}, "actions": list(real.values()), "detail": ""})
                    if abs(float(best["reward"][b]) - max(rewards)) > 1e-6 or \
                            [int(x) for x in best["actions"][b].tolist()] not in list(real.values()):
                        viol.append({"property": "C13", "env": ad.name, "monitor": "select-best-not-max-of-own-beams",
                                     "inst": {k: v for k, v in inst.items() if k != "pts"}, "actions": best["actions"][b].tolist(),
                                     "detail": "selected reward %s, beams %s" % (float(best["reward"][b]), rewards)})
            samples.append({"env": ad.name, "width": W, "instance": fam_w[0]["id"],
                            "spec_beam_set": [list(h) for h in model[fam_w[0]["id"]][0]] if model.get(fam_w[0]["id"]) else None})
    n_new, n_known = verdict.report("C13", viol)
    cov = {"states": states, "transitions": trans, "traces_validated_against_impl": nchk, "samples": samples, "exhaustive": True,
           "known_finding_witnesses": n_known,
           "explanation": "beam machine of the Decode wrapper explored by TLC (all tie-breaks); real BeamSearch with the same table "
                          "policy compared beam set by beam set, per-step log-probabilities and rewards included"}
    verdict.write_evidence("C13", tier, seed, "model_checking", cov,
                           ["table policy (stub decoder) instead of a neural network: the network is irrelevant to the beam bookkeeping",
                            "first move forced to distinct start nodes, as the library does"], time.time() - t0, n_new)
    return 1 if n_new else 0
