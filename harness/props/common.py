"""Shared helpers for protocol-level checks: batch TLC validation of records."""
import concurrent.futures as cf
import os

from .. import tlc


def validate_records(module, recs, invariants, tag, shards=16, per_shard=1500, env_extra=None):
    """run a one-state-per-record (or step-walking) trace spec over ndjson records.
    returns fails [(rec_index, clause, *rest)], drifts [rec_index], states, ended set"""
    n = len(recs)
    if n == 0:
        return [], [], 0, set()
    k = max(1, min(shards, (n + per_shard - 1) // per_shard))
    bounds = [(i * n) // k for i in range(k + 1)]

    def one(j):
        lo, hi = bounds[j], bounds[j + 1]
        wd, root = tlc.prepare("%s_%s_%d" % (module.lower(), tag, j), module=module)
        f = os.path.join(wd, "recs.ndjson")
        tlc.dump_ndjson(f, recs[lo:hi])
        tlc.write_cfg(wd, root, invariants=invariants)
        e = {"TRACE_FILE": f}
        e.update(env_extra or {})
        r = tlc.run(wd, root, workers=1, env=e, heap="3g")
        if r.violated:
            raise tlc.TLCError("%s: invariant %s violated (monitors should only print)" % (module, r.violated))
        fails = [tuple([lo + t[1] - 1] + t[2:]) for t in r.tuples("FAIL")]
        drifts = [lo + t[1] - 1 for t in r.tuples("DRIFT")]
        ended = {lo + t[1] - 1 for t in r.tuples("END")}
        os.remove(f)
        return fails, drifts, r.distinct, ended

    fails, drifts, states, ended = [], [], 0, set()
    with cf.ThreadPoolExecutor(max_workers=min(k, 16)) as ex:
        for a, b, c, d in ex.map(one, range(k)):
            fails += a
            drifts += b
            states += c
            ended |= d
    if len(ended) != n:
        raise tlc.TLCError("%s: %d of %d records not consumed" % (module, n - len(ended), n))
    return fails, drifts, states, ended
