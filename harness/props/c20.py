"""C20 -- running statistics (RewardScaler) and stateful baselines (exponential, warm-up).
(1) TLC model-checks spec/train/Stats.tla (exact rationals) for all histories of a small scope;
(2) every explored history is replayed into the REAL classes and the object's state /
    return value is compared with the specification's after every call;
(3) random longer histories are run on the real classes and validated by TLC against
    spec/train/StatsTrace.tla."""
import random
import time
from fractions import Fraction

import torch

from .. import tlc, verdict
from .common import validate_records

CONFIGS = {
    "quick": [dict(Vals0="{0,1,3}", Off="1", MaxLen="2", MaxB="3", BetaN="4", BetaD="5", Beta2N="1", Beta2D="2", NEp="3")],
    "thorough": [dict(Vals0="{0,1,3}", Off="1", MaxLen="2", MaxB="4", BetaN="4", BetaD="5", Beta2N="1", Beta2D="2", NEp="2"),
                 dict(Vals0="{0,2,5}", Off="2", MaxLen="3", MaxB="3", BetaN="1", BetaD="2", Beta2N="0", Beta2D="1", NEp="3")],
}
INV = {"W": ["CountExact", "MeanExact", "M2Exact", "VarExact", "EmitW"],
       "E": ["EmaExact", "EmitE"], "U": ["AlphaExact", "RetExact", "EmitU"]}
TRACE_INV = ["M_Count", "M_Mean", "M_M2", "M_Std", "M_Out", "M_Ema", "M_WarmA", "M_WarmV", "End"]


def frac(r):
    return Fraction(r[0], r[1])


def close(x, f, rel=2e-5, ab=2e-5):
    return abs(float(x) - float(f)) <= ab + rel * abs(float(f))


def key(h):
    return tuple(tuple(b) for b in h)


def t32(b):
    return torch.tensor(b, dtype=torch.float32)


def replay_W(states, viol, samples):
    from rl4co.models.rl.common.utils import RewardScaler

    table = {key(h): (cnt, frac(mean), frac(m2)) for (_, h, cnt, mean, m2) in states}
    maxlen = max(len(k) for k in table)
    n = 0
    for h in [k for k in table if len(k) == maxlen]:
        for mode in ("norm", "scale"):
            sc = RewardScaler(mode)
            for j in range(len(h)):
                x = t32(h[j])
                out = sc(x.clone())
                cnt, mean, m2 = table[h[: j + 1]]
                n += 1
                bad = []
                if sc.count != cnt:
                    bad.append("count %s != %s" % (sc.count, cnt))
                if not close(sc.mean, mean):
                    bad.append("mean %s != %s" % (float(sc.mean), mean))
                if not close(sc.M2, m2, rel=1e-4, ab=1e-4):
                    bad.append("M2 %s != %s" % (float(sc.M2), m2))
                if cnt > 1 and m2 > 0:
                    std = float(m2 / (cnt - 1)) ** 0.5
                    exp = [((v - float(mean)) if mode == "norm" else v) / std for v in h[j]]
                    if any(abs(float(o) - e) > 1e-4 * (1 + abs(e)) for o, e in zip(out.tolist(), exp)):
                        bad.append("output %s != %s" % (out.tolist(), exp))
                if bad:
                    viol.append({"property": "C20", "env": "RewardScaler", "monitor": "replay-welford",
                                 "inst": {"mode": mode, "history": [list(b) for b in h[: j + 1]]}, "actions": [],
                                 "detail": "; ".join(bad)})
                    break
    samples.append({"machine": "W", "history": [list(b) for b in h], "spec_state": [str(x) for x in table[h]]})
    return n


def replay_E(states, beta, viol, samples):
    from rl4co.models.rl.reinforce.baselines import ExponentialBaseline

    table = {key(h): frac(v) for (_, h, v) in states if h}
    maxlen = max(len(k) for k in table)
    n = 0
    for h in [k for k in table if len(k) == maxlen]:
        bl = ExponentialBaseline(beta=float(beta))
        for j in range(len(h)):
            val, loss = bl.eval(None, t32(h[j]))
            n += 1
            if not close(val, table[h[: j + 1]]) or float(loss) != 0:
                viol.append({"property": "C20", "env": "ExponentialBaseline", "monitor": "replay-ema",
                             "inst": {"beta": str(beta), "history": [list(b) for b in h[: j + 1]]}, "actions": [],
                             "detail": "returned %s, recurrence gives %s" % (float(val), table[h[: j + 1]])})
                break
    samples.append({"machine": "E", "history": [list(b) for b in h], "spec_value": str(table[h])})
    return n


def mk_warmup(beta, beta2, nep):
    from rl4co.models.rl.reinforce.baselines import ExponentialBaseline, WarmupBaseline

    return WarmupBaseline(ExponentialBaseline(beta=float(beta2)), n_epochs=nep, warmup_exp_beta=float(beta))


def replay_U(states, beta, beta2, nep, viol, samples):
    def ukey(h):
        return tuple((c[0], tuple(c[1]) if c[0] == "eval" else c[1]) for c in h)

    table = {ukey(h): (frac(a), frac(r) if r else None) for (_, h, a, r) in states}
    maxlen = max(len(k) for k in table)
    n = 0
    for h in [k for k in table if len(k) == maxlen]:
        bl = mk_warmup(beta, beta2, nep)
        for j, (call, arg) in enumerate(h):
            a, r = table[h[: j + 1]]
            n += 1
            bad = None
            if call == "epoch":
                bl.epoch_callback(None, env=None, batch_size=1, device="cpu", epoch=arg, dataset_size=None)
            else:
                val, loss = bl.eval(None, t32(list(arg)), None)
                if not close(val, r):
                    bad = "returned %s, convex combination gives %s" % (float(val), r)
            if not close(bl.alpha, a, rel=1e-9, ab=1e-9):
                bad = "alpha %s != %s" % (bl.alpha, a)
            if bad:
                viol.append({"property": "C20", "env": "WarmupBaseline", "monitor": "replay-warmup",
                             "inst": {"beta": str(beta), "inner_beta": str(beta2), "n_epochs": nep,
                                      "calls": [list(c) for c in h[: j + 1]]}, "actions": [], "detail": bad})
                break
    samples.append({"machine": "U", "calls": [list(c) for c in h], "spec_alpha_ret": [str(x) for x in table[h]]})
    return n


def real_traces(rnd, n_hist, beta, beta2, nep, long_calls):
    from rl4co.models.rl.common.utils import RewardScaler
    from rl4co.models.rl.reinforce.baselines import ExponentialBaseline

    recs = []
    for t in range(n_hist):
        mode = rnd.choice(["norm", "scale"])
        fam = rnd.choice(["small", "small", "const", "big", "single"])
        ncalls = rnd.randint(2, long_calls) if fam != "big" else rnd.randint(2, 4)
        sc = RewardScaler(mode)
        ev = []
        cnt = 0
        for _ in range(ncalls):
            sz = 1 if fam == "single" else rnd.randint(1, 6)
            if fam == "big":
                sz = rnd.randint(1, 2)
                b = [100 * rnd.randint(-3, 3) for _ in range(sz)]
            elif fam == "const":
                c = rnd.randint(-3, 3)
                b = [c] * sz
            else:
                b = [rnd.randint(-3, 3) for _ in range(sz)]
            x = t32(b)
            if rnd.random() < 0.3 and sz % 2 == 0:
                x = x.view(2, -1)           # any shape: update() flattens
            out = sc(x.clone()).reshape(-1).double()
            cnt += sz
            mean = float(sc.mean)
            m2 = float(sc.M2)
            # the std the call used, recovered from its own output (largest deviation entry)
            dev = [(v - mean) if mode == "norm" else float(v) for v in b]
            j = max(range(sz), key=lambda i: abs(dev[i]))
            degenerate = cnt < 2 or abs(dev[j]) < 1e-9 or not torch.isfinite(out).all() or abs(float(out[j])) < 1e-12 \
                or m2 < 1e-9
            if degenerate:
                stdp, outs, vcc = 0.0, [0] * sz, 0
            else:
                stdp = dev[j] / float(out[j])        # = std + eps
                outs = [int(round(float(o) * stdp * cnt * 100)) for o in out.tolist()]
                vcc = int(round(stdp * stdp * cnt * (cnt - 1) * 100))
            ev.append({"batch": b, "count": int(sc.count), "mc": int(round(mean * cnt * 10000)),
                       "m2c": int(round(m2 * cnt * 100)), "vcc": vcc, "out": outs, "degenerate": bool(degenerate)})
        recs.append({"kind": "W", "mode": mode, "ev": ev})
    for t in range(n_hist):
        bl = ExponentialBaseline(beta=float(beta))
        ev = []
        for _ in range(rnd.randint(1, 4)):
            b = [rnd.randint(-3, 3) for _ in range(rnd.randint(1, 2))]
            val, _ = bl.eval(None, t32(b))
            ev.append({"batch": b, "ret": int(round(float(val) * 1e6))})
        recs.append({"kind": "E", "mode": "", "ev": ev})
    for t in range(n_hist):
        bl = mk_warmup(beta, beta2, nep)
        ev = []
        # a fresh baseline object whose first callback carries epoch ep0 > 0 = training resumed from a checkpoint during warm-up
        # (Lightning restores the weights, not the plain attribute alpha); one third of the histories
        ep = rnd.randint(1, max(1, nep - 1)) if t % 3 == 2 else 0
        for _ in range(rnd.randint(1, 4)):
            if rnd.random() < 0.4 or (t % 3 == 2 and not ev):
                bl.epoch_callback(None, env=None, batch_size=1, device="cpu", epoch=ep, dataset_size=None)
                ev.append({"call": "epoch", "ep": ep, "batch": [], "ret": 0, "alpha": int(round(float(bl.alpha) * 1e6))})
                ep += 1
            else:
                b = [rnd.randint(-3, 3) for _ in range(rnd.randint(1, 2))]
                val, _ = bl.eval(None, t32(b), None)
                ev.append({"call": "eval", "ep": 0, "batch": b, "ret": int(round(float(val) * 1e6)),
                           "alpha": int(round(float(bl.alpha) * 1e6))})
        recs.append({"kind": "U", "mode": "", "ev": ev})
    return recs


def run(tier, seed):
    t0 = time.time()
    rnd = random.Random(seed)
    viol, samples = [], []
    states = transitions = replayed = traces = 0
    model_viol = []
    for ci, C in enumerate(CONFIGS[tier]):
        beta = Fraction(int(C["BetaN"]), int(C["BetaD"]))
        beta2 = Fraction(int(C["Beta2N"]), int(C["Beta2D"]))
        nep = int(C["NEp"])
        for which in ("W", "E", "U"):
            wd, root = tlc.prepare("stats_%s%d" % (which, ci), module="Stats")
            tlc.write_cfg(wd, root, constants=C, invariants=INV[which], init_next=("Init" + which, "Next" + which))
            r = tlc.run(wd, root, coverage=False, timeout=3000)
            states += r.distinct
            transitions += r.generated
            model_viol += r.violated
            tup = r.tuples(which)
            if len(tup) != r.distinct:
                raise tlc.TLCError("Stats %s: parsed %d of %d states" % (which, len(tup), r.distinct))
            if which == "W":
                replayed += replay_W(tup, viol, samples)
            elif which == "E":
                replayed += replay_E(tup, beta, viol, samples)
            else:
                replayed += replay_U(tup, beta, beta2, nep, viol, samples)
        recs = real_traces(rnd, 60 if tier == "quick" else 600, beta, beta2, nep, 12 if tier == "quick" else 60)
        fails, _, st, ended = validate_with_constants(recs, C, "c20_%d" % ci)
        states += st
        traces += len(recs)
        for f in fails:
            rec = recs[f[0]]
            viol.append({"property": "C20", "env": {"W": "RewardScaler", "E": "ExponentialBaseline", "U": "WarmupBaseline"}[rec["kind"]],
                         "monitor": f[1], "inst": {"kind": rec["kind"], "mode": rec["mode"], "calls": rec["ev"][: f[2]]},
                         "actions": [], "detail": "after call %d" % f[2]})
        samples.append({"real_trace": recs[0]})
    if model_viol:
        print("MODEL-DRIFT C20: Stats.tla violates its own invariants %s" % model_viol)
    # the warm-up schedule inside a whole training run (TrainingRun.tla; replay + real RL4COTrainer.fit)
    from . import c21_trainrun
    tr_viol, tr_cov = c21_trainrun.violations(tier, seed)
    viol += [v for v in tr_viol if v["property"] == "C20"]
    states += tr_cov["states"]
    transitions += tr_cov["transitions"]
    traces += tr_cov["tlc_validated_traces"]
    replayed += tr_cov["replayed_actions"]
    n_new, n_known = verdict.report("C20", viol)
    # EXTENSION beyond the components C20 names: the Reptile meta-learning callback (Reptile.tla / ReptileTrace.tla), a training-
    # history mechanism of the same family.  C20's statement does not speak about it, so its discrepancies are never a C20
    # verdict: they are printed as EXTENSION-NOTE lines and kept in the evidence.
    from . import c20b_reptile
    try:
        rv, rcov = c20b_reptile.violations(tier, seed)
    except Exception as ex:  # noqa: BLE001
        rv, rcov = [], {"states": 0, "transitions": 0, "replayed": 0, "error": repr(ex)[:300]}
    seen = set()
    for v in rv:
        key = (v["env"], v["monitor"])
        if key not in seen:
            seen.add(key)
            print("EXTENSION-NOTE reptile %s / %s: %s" % (v["env"], v["monitor"], str(v.get("detail", ""))[:240]))
    from . import unbounded
    unb = unbounded.for_property("C20", tier)      # Apalache / TLAPS: warm-up schedule, epoch protocol, EMA closed form, unbounded
    cov = {"states": states, "transitions": transitions, "traces_validated_against_impl": replayed + traces,
           "training_run": {k: tr_cov[k] for k in ("replayed_runs", "replayed_actions", "tlc_validated_traces", "fit_runs", "models")},
           "samples": samples[:6], "exhaustive": True, "replayed_calls": replayed, "real_histories": traces,
           "model_constants": CONFIGS[tier], "known_finding_witnesses": n_known, "unbounded": unb,
           "extension_reptile": {"coverage": {k: v for k, v in rcov.items() if k not in ("samples",)},
                                 "notes": sorted({"%s / %s" % (v["env"], v["monitor"]) for v in rv})},
           "explanation": "Stats.tla (Welford / EMA / warm-up as exact-rational state machines) model-checked for all histories "
                          "of the scope; each history replayed into the real classes with state comparison after every call; "
                          "random longer histories of the real classes validated by StatsTrace.tla. "
                          "TrainingRun.tla: the warm-up weight along whole training runs (all runs of the scope replayed into the "
                          "real REINFORCE module; real RL4COTrainer.fit runs validated by TrainingRunTrace.tla)."}
    verdict.write_evidence("C20", tier, seed, "model_checking", cov,
                           ["degenerate cases (count = 1, zero variance) are recorded, not judged",
                            "integer-valued batches so that exact sums are available to TLC"],
                           time.time() - t0, n_new)
    return 1 if n_new else 0


def validate_with_constants(recs, C, tag):
    """StatsTrace needs the Stats constants: same as validate_records but with a cfg carrying them"""
    import concurrent.futures as cf
    import os

    n = len(recs)
    k = max(1, min(8, (n + 299) // 300))
    bounds = [(i * n) // k for i in range(k + 1)]

    def one(j):
        lo, hi = bounds[j], bounds[j + 1]
        wd, root = tlc.prepare("statstrace_%s_%d" % (tag, j), module="StatsTrace")
        f = os.path.join(wd, "recs.ndjson")
        tlc.dump_ndjson(f, recs[lo:hi])
        tlc.write_cfg(wd, root, constants=C, invariants=TRACE_INV, init_next=("TInit", "TNext"))
        r = tlc.run(wd, root, workers=1, env={"TRACE_FILE": f}, heap="3g")
        if r.violated:
            raise tlc.TLCError("StatsTrace invariant violated: %s" % r.violated)
        os.remove(f)
        return ([(lo + t[1] - 1, t[2], t[3]) for t in r.tuples("FAIL")], r.distinct,
                {lo + t[1] - 1 for t in r.tuples("END")})

    fails, states, ended = [], 0, set()
    with cf.ThreadPoolExecutor(max_workers=k) as ex:
        for a, b, c in ex.map(one, range(k)):
            fails += a
            states += b
            ended |= c
    if len(ended) != n:
        raise tlc.TLCError("StatsTrace: %d of %d histories not consumed" % (n - len(ended), n))
    return fails, None, states, ended
