"""C10 -- decoding distributions.
(1) TLC checks the exact-arithmetic specification spec/decode/Logits.tla exhaustively
    (all weight vectors x masks x temperature x top-k x top-p of a small scope);
(2) every terminal state is replayed into the REAL process_logits (logit = ln w) and
(3) executions of the real code on arbitrary float logits are recorded;
both kinds of records are validated by TLC against spec/decode/LogitsTrace.tla
(the clauses of C10 as monitors; conformance with the Logits model as drift)."""
import math
import random
import time

import torch

from .. import tlc, verdict
from .common import validate_records

INV_MODEL = ["Proper", "SupportInMask", "KeptValuesUnchanged", "ArgmaxKept", "TopKBound", "TopPMass",
             "TopPMassUnfiltered", "GreedyOK", "ShiftInvariant", "Emit"]
INV_TRACE = ["M_Crash", "M_Support", "M_Norm", "M_ZeroOutside", "M_Argmax", "M_TopK", "M_TopP", "M_TopPUnf",
             "M_Shift", "M_Greedy", "M_Samples", "Conf", "End"]
TEMP = {"half": 0.5, "one": 1.0, "two": 2.0}
NSAMPLES = 24


class _Hang(Exception):
    pass


def _bounded(fn, seconds=20.0):
    """run fn() but give up after `seconds` (the call did not return: reported as a crash of that call)"""
    import signal

    def onalarm(signum, frame):
        raise _Hang("did not return within %.0f s" % seconds)

    import time as _t
    left = signal.getitimer(signal.ITIMER_REAL)[0]      # the global watchdog of harness/check.py uses the same timer
    t0 = _t.time()
    old = signal.signal(signal.SIGALRM, onalarm)
    signal.setitimer(signal.ITIMER_REAL, seconds)
    try:
        return fn()
    finally:
        signal.setitimer(signal.ITIMER_REAL, 0)
        signal.signal(signal.SIGALRM, old)
        if left > 0:
            signal.setitimer(signal.ITIMER_REAL, max(1.0, left - (_t.time() - t0)))


def ints(lp):
    x = torch.nan_to_num(lp.double().exp(), nan=-1.0)     # NaN (all -inf row) is logged as -1
    return [[int(round(v * 1e6)) for v in row] for row in x.tolist()]


def dense_rank(unf_lp_row, mask_row):
    vals = sorted({v for v, m in zip(unf_lp_row, mask_row) if m}, reverse=True)
    rk = {v: i + 1 for i, v in enumerate(vals)}
    return [rk[v] if m else len(vals) + 1 for v, m in zip(unf_lp_row, mask_row)]


def real_records(logits, mask, T, k, p, tanh, shift_c=None, models=None):
    """one record per row of `logits` from the real rl4co code"""
    from rl4co.utils.decoding import DecodingStrategy, process_logits

    kw = dict(temperature=T, tanh_clipping=tanh)
    B, n = logits.shape
    fin = process_logits(logits.clone(), mask, top_p=p, top_k=k, **kw)
    unf = process_logits(logits.clone(), mask, top_p=0.0, top_k=0, **kw)
    aftk = process_logits(logits.clone(), mask, top_p=0.0, top_k=k, **kw)
    # greedy / sampling row by row when the batched call raises (the library asserts feasibility itself)
    crash = [""] * B
    try:
        greedy = DecodingStrategy.greedy(fin, mask)
    except Exception:
        greedy = torch.zeros(B, dtype=torch.long)
        for r in range(B):
            try:
                greedy[r] = DecodingStrategy.greedy(fin[r:r + 1], mask[r:r + 1])[0]
            except Exception as e:
                crash[r] = "greedy:" + type(e).__name__ + ":" + str(e)[:40]
    # DecodingStrategy.sampling re-samples in a `while` loop until no infeasible action is drawn: when (nearly) all
    # probability mass sits on masked actions it never returns -- bounded by a watchdog and reported as a verdict
    try:
        samples = _bounded(lambda: DecodingStrategy.sampling(fin.repeat(NSAMPLES, 1), mask.repeat(NSAMPLES, 1))).view(NSAMPLES, B)
    except Exception:
        samples = torch.zeros(NSAMPLES, B, dtype=torch.long)
        for r in range(B):
            try:
                samples[:, r] = _bounded(lambda: DecodingStrategy.sampling(fin[r:r + 1].repeat(NSAMPLES, 1),
                                                                           mask[r:r + 1].repeat(NSAMPLES, 1)), 3.0)
            except Exception as e:
                crash[r] = crash[r] or ("sampling:" + type(e).__name__ + ":" + str(e)[:40])
    shift = None
    if shift_c is not None and tanh == 0:
        shift = ints(process_logits(logits.clone() + shift_c, mask, top_p=p, top_k=k, **kw))
    fi, ui, ki = ints(fin), ints(unf), ints(aftk)
    recs = []
    for r in range(B):
        mrow = mask[r].tolist()
        recs.append({
            "n": n, "mask": [i + 1 for i in range(n) if mrow[i]],
            "sup": [i + 1 for i in range(n) if fin[r, i] > -float("inf")],
            "rank": dense_rank(unf[r].tolist(), mrow),
            "k": int(k), "p1000": int(round(p * 1000)), "tanh1000": int(round(tanh * 1000)),
            "temp1000": int(round(T * 1000)),
            "unf": ui[r], "aftk": ki[r], "fin": fi[r],
            "shift": shift[r] if shift is not None else [],
            "greedy": int(greedy[r]) + 1,
            "samples": [int(x) + 1 for x in samples[:, r].tolist()],
            "model": models[r] if models else [], "crash": crash[r],
            "logits": [float(x) for x in logits[r].tolist()],
        })
    return recs


def run(tier, seed):
    t0 = time.time()
    quick = tier == "quick"
    # ---------------- (1) the specification, exhaustively ----------------
    consts = {"N": "3" if quick else "4", "Weights": "{1,4,9}", "Temps": '{"half","one","two"}',
              "Ks": "{0,1,2,4}" if quick else "{0,1,2,3,5}", "Ps": "{0,5,10,18,20}" if quick else "{0,3,5,10,15,18,20}",
              "PD": "20"}
    wd, root = tlc.prepare("logits", module="Logits")
    tlc.write_cfg(wd, root, constants=consts, invariants=INV_MODEL)
    r = tlc.run(wd, root, coverage=True, timeout=3000)
    model_viol = list(r.violated)
    groups = {}
    for t in r.tuples("L"):
        _, w, m, T, k, p, cur = t
        groups.setdefault((T, k, p[0], p[1]), {}).setdefault((tuple(w), tuple(m)), []).append(cur)
    # ---------------- (2) replay into the real code ----------------
    recs = []
    for (T, k, pn, pd), cfgs in sorted(groups.items()):
        keys = sorted(cfgs)
        n = len(keys[0][0])
        logits = torch.tensor([[math.log(x) for x in w] for w, _ in keys], dtype=torch.float32)
        mask = torch.tensor([[(i + 1) in m for i in range(n)] for _, m in keys])
        models = [cfgs[kk] for kk in keys]
        recs += real_records(logits, mask, TEMP[T], k, pn / pd, 0.0, shift_c=None, models=models)
    n_replay = len(recs)
    # ---------------- (3) arbitrary float logits ----------------
    rnd = random.Random(seed)
    g = torch.Generator().manual_seed(seed)
    ncomb = 40 if quick else 400
    for _ in range(ncomb):
        n = rnd.choice([1, 2, 3, 5, 8, 12])
        B = 40
        kind = rnd.choice(["normal", "ties", "huge", "equal", "wide"])
        if kind == "normal":
            x = torch.randn(B, n, generator=g) * rnd.choice([1.0, 5.0])
        elif kind == "ties":
            x = torch.randint(-2, 3, (B, n), generator=g).float() * 0.5
        elif kind == "huge":
            x = torch.randint(-2 ** 20, 2 ** 20, (B, n), generator=g).float()
        elif kind == "equal":
            x = torch.full((B, n), float(rnd.choice([-7, 0, 3])))
        else:
            x = torch.randn(B, n, generator=g) * 300.0
        x = torch.round(x * 256) / 256          # dyadic: shifts by integers stay exact in float32
        mask = torch.rand(B, n, generator=g) < rnd.choice([0.3, 0.7, 1.0])
        first = torch.randint(0, n, (B,), generator=g)
        mask[torch.arange(B), first] = True     # at least one feasible action
        if rnd.random() < 0.2:
            mask = torch.zeros(B, n, dtype=torch.bool)
            mask[torch.arange(B), first] = True  # a single feasible action
        T = rnd.choice([0.25, 0.5, 1.0, 2.0, 4.0, 0.3, 1.7, 7.5])
        k = rnd.choice([0, 0, 1, 2, 3, n, n + 3])
        p = rnd.choice([0.0, 0.0, 0.1, 0.5, 0.9, 0.999, 1.0])
        tanh = rnd.choice([0.0, 0.0, 10.0, 1.0])
        pow2 = T in (0.25, 0.5, 1.0, 2.0, 4.0)
        c = float(rnd.choice([-4096, -17, 3, 1024, 2 ** 20])) if pow2 else None
        if c is not None and not torch.equal((x + c) - c, x):
            c = None            # the shift would not be exactly representable in float32: not comparable
        recs += real_records(x, mask, T, k, p, tanh, shift_c=c)
    # deterministic family: LARGE but comparable logits (base +- a few units): the probabilities are ordinary
    # (softmax is shift invariant) but any intermediate exp() of the raw values overflows float32 / underflows
    for base in (95.0, 120.0, 1000.0, -1000.0, 30000.0):
        offs = torch.tensor([[0.0, -0.5, -1.0, -3.0, -8.0, -0.25], [-2.0, 0.0, -0.125, -0.5, -6.0, -1.0]])
        x = (base + offs).repeat(3, 1)
        mask = torch.ones_like(x, dtype=torch.bool)
        mask[2:4, 0] = False
        for (T, k, p) in ((1.0, 0, 0.9), (1.0, 0, 0.5), (0.5, 3, 0.7), (2.0, 0, 0.95)):
            recs += real_records(x, mask, T, k, p, 0.0, shift_c=-64.0 if torch.equal((x - 64.0) + 64.0, x) else None)
    fails, drifts, states, ended = validate_records("LogitsTrace", recs, INV_TRACE, "c10")
    viol = []
    for f in fails:
        rec = recs[f[0]]
        viol.append({"property": "C10", "env": "decoding", "monitor": f[1],
                     "inst": {k: v for k, v in rec.items() if k not in ("model",)}, "actions": [],
                     "detail": "temperature=%s top_k=%s top_p=%s tanh=%s" % (
                         rec["temp1000"] / 1000, rec["k"], rec["p1000"] / 1000, rec["tanh1000"] / 1000)})
    for d in drifts[:5]:
        print("MODEL-DRIFT C10 record %d: %s" % (d, {k: recs[d][k] for k in ("logits", "mask", "k", "p1000", "temp1000", "sup", "fin", "model")}))
    if model_viol:
        print("MODEL-DRIFT C10: the Logits specification itself violates %s (see out/tlc/logits/tlc.log)" % model_viol)
    n_new, n_known = verdict.report("C10", viol)
    nontrivial = sum(1 for x in recs if len(x["mask"]) > 1)
    cov = {"states": r.distinct + states, "transitions": r.generated,
           "traces_validated_against_impl": len(recs),
           "samples": [{k: recs[i][k] for k in ("logits", "mask", "k", "p1000", "temp1000", "tanh1000", "sup", "fin")}
                       for i in (0, n_replay // 2, len(recs) - 1)],
           "exhaustive": True, "model_constants": consts, "tlc_action_coverage": r.coverage(),
           "replayed_model_states": n_replay, "float_records": len(recs) - n_replay,
           "records_with_more_than_one_feasible_action": nontrivial,
           "model_drift_records": len(drifts), "known_finding_witnesses": n_known,
           "explanation": "Logits.tla model-checked exhaustively; every terminal state replayed into process_logits; "
                          "float executions validated by LogitsTrace.tla monitors (support, normalisation, argmax, top-k, "
                          "top-p mass, shift invariance for tanh_clipping=0, greedy, sampling)."}
    verdict.write_evidence("C10", tier, seed, "model_checking", cov,
                           ["shift invariance is asserted for tanh_clipping = 0 only (clipping is applied before the softmax by design)",
                            "top-p mass is measured against the distribution top-p receives (after top-k)",
                            "shifts are exactly representable so float results are comparable"],
                           time.time() - t0, n_new)
    return 1 if n_new else 0
