"""C15 / C12 / C11 for the ANT-COLONY SEARCH of DeepACO (growth of C15: "evaluation reports true best-of-k results").

spec/search/ACO.tla models rl4co/models/zoo/deepaco/antsystem.py (AntSystem.run / _one_step / local_search / _update_results /
_update_pheromone / _reward_map / final-result selection) as a state machine over a batch of small TSP instances with integer
distances; the ants' tours are inputs.  spec/search/ACOTrace.tla states the same clauses as monitors over recorded executions.

(a) TLC model-checks ACO.tla for small scopes (2 instances x 2-3 ants x 1-3 iterations x 4-5 nodes; local search and
    neural-guided perturbation rounds included) and prints every state in which the real objects can be compared.  EVERY behaviour
    is replayed into the REAL AntSystem: the real `run` / `_sampling` / decoding loop / TSPEnv execute, only the two random
    draws are scripted from the harness process (the start-node function and `DecodingStrategy.sampling` return the node TLC
    chose; with local search the environment's `local_search` extension point returns the tours TLC chose).  Many behaviours
    ride in one real batch (rows = (behaviour, instance), shuffled), so every row has mates that do something else.
    After every _update_results / _update_pheromone / run() the real state (tours as delivered, per-ant rewards,
    final_reward, final_actions, pheromone matrix) is compared with the specification's.
(b) the real DeepACOPolicy (stand-in heat-map encoder with random weights -- torch_geometric is not installed --, eval phase,
    real sampler, real TSPEnv / CVRPEnv, optional Python 2-opt local search through the environment extension point) runs end
    to end with a recording subclass passed through the public `aco_class` argument; every (run, instance) becomes one
    ACOTrace.tla record with the stored solutions re-scored independently in float64.
(c) NAR log-likelihoods: DeepACOPolicy's training path, NARGNNPolicy and AntSystem.get_logp against an independent float64
    recomputation "row of the heat map indexed by the current node, masked, normalised" (records in DecodeTrace.tla's format).

`violations(tier, seed)` -> (violations, coverage); property "C15" (results), "C12" (replicas / pheromone), "C11" (log-likelihood)."""
import concurrent.futures as cf
import json
import logging
import os
import random
import re
import sys
import time
import warnings
from fractions import Fraction
from unittest import mock

os.environ.setdefault("VERIF_RUN_ID", "%d" % os.getpid())      # private TLC scratch (set by harness/check.py otherwise)
_REPO = os.environ.get("VERIF_REPO", "/repo")
if _REPO not in sys.path:
    sys.path.insert(0, _REPO)

import torch  # noqa: E402
from tensordict import TensorDict  # noqa: E402

from .. import embed, tlc, verdict  # noqa: E402
from .common import validate_records  # noqa: E402

warnings.filterwarnings("ignore")

# what the specification says an iteration deposits when all ants of an instance tie (ACO.tla, QUIRK AllEqual):
# 0 = nothing (the matrix only evaporates; the repaired _reward_map), 1 = every ant deposits Q
TIE_DEP = 0

INVARIANTS = ["TypeOK", "BestIsMaxOfHistory", "StoredTourHasStoredCost", "BestFromOwnAnt", "PheromoneRecurrence",
              "PheromoneOnlyFromOwnAnts", "FinalIsBest", "Emit"]
PROPERTIES = ["BestMonotone"]
TRACE_INV = ["M_Init", "M_Weights", "M_WeightShape", "M_PherOwn", "M_Pher", "M_Rescore", "M_BestIsMax", "M_Monotone",
             "M_StoredCost", "M_Own", "M_Final", "End"]
DECODE_INV = ["M_InMask", "M_Lp", "M_Forced", "M_Sum", "M_Eval", "M_EvalR", "End"]
CLAUSE = {"initial-pheromone": "C12", "deposit-weight": "C12", "deposit-weight-monotone-in-reward": "C12",
          "pheromone-only-from-own-ants": "C12", "pheromone-recurrence": "C12", "replicas-keep-their-instance": "C12", "local-search-result-is-used": "C15",
          "ant-reward-is-own-tour-length": "C15", "best-is-max-of-own-history": "C15", "best-so-far-monotone": "C15",
          "stored-tour-has-stored-cost": "C15", "stored-tour-from-own-ant": "C15", "final-is-best": "C15",
          "action-in-mask": "C11", "logprob-of-taken-action": "C11", "forced-step-nonzero": "C11", "sum-of-steps": "C11",
          "evaluate-round-trip": "C11", "evaluate-reward": "C11"}
MAX_PER_CLAUSE = 12

# candidate tours (action sequences); lengths on the instances of harness/embed.py:
#   N=4 template 0 (6 x 8 rectangle):  28 / 28 (same cycle, other direction, other start) / 32 / 36
#   N=4 template 2 (collinear):        28 / 38            N=5 template 0: 30 / 30 (reversed) / 36 / 32      N=5 template 1: 30 / 32
T4A = [[0, 1, 3, 2], [2, 3, 1, 0], [3, 0, 2, 1], [1, 2, 3, 0]]
T4B = [[1, 0, 2, 3], [0, 2, 1, 3]]
T5A = [[0, 1, 3, 2, 4], [4, 2, 3, 1, 0], [1, 4, 2, 0, 3], [0, 4, 1, 3, 2]]
T5B = [[0, 1, 2, 4, 3], [2, 0, 3, 4, 1]]
T4LS = [[0, 1, 3, 2], [1, 2, 3, 0], [3, 0, 2, 1]]          # 28 / 32 / 36: three reward levels


def _c(nants, niter, dec, q=None, ls=False, npert=0):
    q = q or (1, nants)
    return dict(NAnts=str(nants), NIter=str(niter), DecN=str(dec[0]), DecD=str(dec[1]), QN=str(q[0]), QD=str(q[1]),
                P0N="1", P0D="2000", TieDep=str(TIE_DEP), UseLS="TRUE" if ls else "FALSE", NPert=str(npert))


def _perms(n):
    import itertools
    return [list(p) for p in itertools.permutations(range(n))]


CONFIGS = {
    "quick": [
        dict(name="4n-2ants-2it", n=4, which=(0, 2), tours=(T4A[:3], T4B), C=_c(2, 2, (1, 2))),
        dict(name="4n-3ants-2it-decay.95", n=4, which=(0, 2), tours=(T4LS, T4B[:1]), C=_c(3, 2, (19, 20))),
        dict(name="5n-2ants-3it", n=5, which=(0, 1), tours=([T5A[0], T5A[2]], T5B[:1]), C=_c(2, 3, (3, 4))),
        dict(name="4n-2ants-2it-localsearch", n=4, which=(0, 2), tours=(T4LS[:2], T4B[:1]), C=_c(2, 2, (1, 2), ls=True)),
        dict(name="4n-2ants-1it-localsearch", n=4, which=(0, 2), tours=(T4LS, T4B), C=_c(2, 1, (19, 20), ls=True)),
        dict(name="4n-2ants-1it-nls", n=4, which=(0, 2), tours=(T4LS, T4B[:1]), C=_c(2, 1, (1, 2), ls=True, npert=1)),
    ],
    "thorough": [
        dict(name="4n-2ants-2it", n=4, which=(0, 2), tours=(T4A, T4B), C=_c(2, 2, (1, 2))),
        dict(name="4n-3ants-2it-decay.95", n=4, which=(0, 2), tours=(T4A, T4B[:1]), C=_c(3, 2, (19, 20))),
        dict(name="4n-3ants-3it-Q1/2", n=4, which=(0, 2), tours=(T4LS[:2], T4B[:1]), C=_c(3, 3, (19, 20), q=(1, 2))),
        dict(name="5n-2ants-3it", n=5, which=(0, 1), tours=(T5A, T5B[:1]), C=_c(2, 3, (3, 4))),
        dict(name="4n-2ants-1it-all-permutations", n=4, which=(0, 2), tours=(_perms(4), T4B[:1]), C=_c(2, 1, (19, 20))),
        dict(name="4n-2ants-2it-localsearch", n=4, which=(0, 2), tours=(T4LS, T4B[:1]), C=_c(2, 2, (1, 2), ls=True)),
        dict(name="4n-2ants-1it-localsearch", n=4, which=(0, 2), tours=(T4LS, T4B), C=_c(2, 1, (19, 20), ls=True)),
        dict(name="4n-2ants-1it-nls2", n=4, which=(0, 2), tours=(T4LS, T4B[:1]), C=_c(2, 1, (1, 2), ls=True, npert=2)),
        dict(name="5n-3ants-2it", n=5, which=(0, 1), tours=(T5A[:3], T5B[:1]), C=_c(3, 2, (1, 2))),
    ],
}
ENV_A = "AntSystem/tsp(scripted ants)"


# ----------------------------------------------------------------------------------------------------------------
# TLC side
# ----------------------------------------------------------------------------------------------------------------
def family(cfg):
    insts = []
    for i in range(2):
        pts, g = embed.template(cfg["n"], cfg["which"][i])
        insts.append({"N": cfg["n"], "D": embed.dist_matrix(pts), "tours": cfg["tours"][i], "pts": pts, "grid": g})
    return insts


_START = re.compile(r'^\[\s*"([RPF])"', re.M)


def fast_tuples(out):
    """the lines Emit printed (tuples of integers only) read as JSON"""
    txt = out.replace("<<", "[").replace(">>", "]")
    dec = json.JSONDecoder()
    res = {"R": [], "P": [], "F": []}
    for m in _START.finditer(txt):
        try:
            v, _ = dec.raw_decode(txt, m.start())
        except ValueError as ex:
            raise tlc.TLCError("unparsable TLC line: %s" % txt[m.start():m.start() + 200]) from ex
        res[m.group(1)].append(v)
    return res


def hkey(h):
    return json.dumps(h, separators=(",", ":"))


def action_counts(cfg, table):
    """states reached by each action of ACO.tla, counted from the lines Emit printed (every state of pc "pher" / "sample" /
    "done" is printed with its history, and the history holds the inputs of Sample / LocalSearch / Perturb)"""
    smp, ls, pert = set(), set(), set()
    for k in table["R"]:
        h = json.loads(k)
        pre, (s, l, c, _) = hkey(h[:-1]), h[-1]
        smp.add((pre, hkey(s)))
        if l:
            ls.add((pre, hkey(s), hkey(l)))
        for p in range(1, len(c) + 1):
            pert.add((pre, hkey(s), hkey(l), hkey(c[:p])))
    return {"Init": 1, "Sample": len(smp), "LocalSearch": len(ls), "Perturb": len(pert), "UpdateResults": len(table["R"]),
            "UpdatePheromone": len(table["P"]), "Final": len(table["F"])}


def model_check(ci, cfg, with_cov):
    insts = family(cfg)
    wd, root = tlc.prepare("aco_%d" % ci, module="ACO")
    f = os.path.join(wd, "family.json")
    tlc.dump_json(f, {"insts": [{k: x[k] for k in ("N", "D", "tours")} for x in insts]})
    tlc.write_cfg(wd, root, constants=cfg["C"], invariants=INVARIANTS, properties=PROPERTIES)
    r = tlc.run(wd, root, workers=1, env={"ACO_FILE": f}, coverage=with_cov, timeout=1500, heap="2g")
    tup = fast_tuples(r.out)
    table = {t: {hkey(x[1]): x[2] for x in tup[t]} for t in "RPF"}
    acts = action_counts(cfg, table)
    if not r.violated:
        # binding: every state TLC found is accounted for by a printed line (nothing was lost in parsing)
        if sum(acts.values()) != r.distinct:
            raise tlc.TLCError("ACO: %d states, printed lines account for %d (%s)" % (r.distinct, sum(acts.values()), acts))
        if with_cov:
            cov = {k: v[0] for k, v in r.coverage().items()}
            if any(cov.get(k, 0) != v for k, v in acts.items()):
                raise tlc.TLCError("ACO: TLC coverage %s, printed lines %s" % (cov, acts))
    return insts, r, table, acts


# ----------------------------------------------------------------------------------------------------------------
# (a) replay into the real AntSystem with scripted draws
# ----------------------------------------------------------------------------------------------------------------
class HarnessError(RuntimeError):
    pass


def _world():
    """classes that need rl4co imported"""
    from rl4co.envs import TSPEnv
    from rl4co.models.zoo.deepaco.antsystem import AntSystem

    class ProbeAntSystem(AntSystem):
        """the real AntSystem; the two update methods additionally leave a snapshot behind"""

        def __init__(self, *a, **k):
            super().__init__(*a, **k)
            self.snaps = []

        def _update_results(self, actions, reward):
            r = super()._update_results(actions, reward)
            self.snaps.append({"kind": "R", "actions": actions.clone(), "reward": reward.clone(),
                               "bestR": self.final_reward.clone(), "bestA": [a.clone() for a in self.final_actions]})
            return r

        def _reward_map(self, x):
            v = super()._reward_map(x)
            self.snaps[-1]["wL"] = v.clone()
            return v

        def _update_pheromone(self, actions, reward):
            super()._update_pheromone(actions, reward)
            self.snaps.append({"kind": "P", "pher": self.pheromone.clone()})

        def _recreate_final_routes(self, td, env, action_matrix):
            td, env = super()._recreate_final_routes(td, env, action_matrix)
            self.final_done = td["done"].clone()
            return td, env

    class ScriptEnv(TSPEnv):
        """TSPEnv whose local-search extension point returns what the script says (numba, which the bundled 2-opt needs, is
        not installed; AntSystem.local_search only requires env.local_search(td=, actions=, **params))"""

        script = None

        def local_search(self, td, actions, **kw):
            return self.script.local_search(td, actions, **kw)

    return ProbeAntSystem, ScriptEnv


class Script:
    """the draws of one real run: tours[t] [rows, ants, N] as sampled; ls[t] what local search returns; cands[t][p] the
    candidates of the perturbation rounds.  Replicated rows are laid out as rl4co.utils.ops.batchify does (ant-major)."""

    def __init__(self, tours, ls, cands):
        self.tours, self.ls, self.cands = tours, ls, cands
        self.it, self.step, self.calls = -1, 0, 0

    @staticmethod
    def flat(x):
        rows, ants, n = x.shape
        return x.permute(1, 0, 2).reshape(ants * rows, n)

    def start(self, td, env, num_starts, start_node=None):
        self.it += 1
        self.step, self.calls = 1, 0
        if self.it >= len(self.tours):
            raise HarnessError("more iterations than scripted")
        return self.flat(self.tours[self.it])[:, 0].clone()

    def sample(self, logprobs, mask=None):
        a = self.flat(self.tours[self.it])[:, self.step].clone()
        self.step += 1
        if mask is not None and not bool(mask.gather(1, a.unsqueeze(-1)).all()):
            raise HarnessError("scripted node not offered by the mask")
        return a

    def local_search(self, td, actions, **kw):
        c = self.calls
        self.calls += 1
        if c == 0:
            if not torch.equal(actions, self.flat(self.tours[self.it])):
                raise HarnessError("local search was handed other tours than the sampled ones")
            return self.flat(self.ls[self.it]).clone()
        if c % 2 == 1:                       # perturbation call (on the heuristic distances): leave the tours alone
            return actions.clone()
        return self.flat(self.cands[self.it][c // 2 - 1]).clone()


def cost(D, tour):
    return sum(D[tour[j]][tour[(j + 1) % len(tour)]] for j in range(len(tour)))


def frac(x):
    return Fraction(x[0], x[1])


def close(real, want):
    """float32 value of the real code vs exact rational of the specification"""
    w = float(want)
    return real == real and abs(real - w) <= 5e-6 * abs(w) + 1e-9


def replay_chunk(cfg, insts, table, leaves, rows, seed, world, sink):
    """one real AntSystem.run over the rows [(leaf index, instance index)]; all leaves have the same number of iterations"""
    ProbeAntSystem, ScriptEnv = world
    C = cfg["C"]
    n, ants = cfg["n"], int(C["NAnts"])
    use_ls, npert = C["UseLS"] == "TRUE", int(C["NPert"])
    n_iter = len(leaves[rows[0][0]])
    grid = insts[0]["grid"]
    T = [torch.tensor(x["tours"], dtype=torch.long) for x in insts]

    def pick(field, p=None):
        out = []
        for t in range(n_iter):
            m = torch.zeros(len(rows), ants, n, dtype=torch.long)
            for r, (j, i) in enumerate(rows):
                ids = leaves[j][t][field] if p is None else leaves[j][t][field][p]
                m[r] = T[i][[x - 1 for x in ids[i]]]
            out.append(m)
        return out

    S, U = pick(0), pick(3)
    L = pick(1) if use_ls else None
    Cn = None
    if npert:
        per = [pick(2, p) for p in range(npert)]
        Cn = [[per[p][t] for p in range(npert)] for t in range(n_iter)]
    script = Script(S, L, Cn)
    locs = torch.stack([embed.locs_tensor(insts[i]["pts"], insts[i]["grid"]) for (_, i) in rows])
    env = ScriptEnv(generator_params=dict(num_loc=n))
    env.script = script
    td0 = env.reset(TensorDict({"locs": locs}, batch_size=[len(rows)]))
    g = torch.Generator().manual_seed(seed)
    heur = torch.randn(len(rows), n, n, generator=g)
    dec = Fraction(int(C["DecN"]), int(C["DecD"]))
    q = Fraction(int(C["QN"]), int(C["QD"]))
    kw = dict(n_ants=ants, decay=float(dec), use_local_search=use_ls, use_nls=npert > 0, n_perturbations=max(npert, 1))
    if q != Fraction(1, ants):
        kw["Q"] = float(q)
    aco = ProbeAntSystem(heur, **kw)
    aco.select_start_node_fn = script.start                 # instance attribute: _sampling reads self.select_start_node_fn
    from rl4co.utils import decoding
    with mock.patch.object(decoding.DecodingStrategy, "sampling", staticmethod(script.sample)):
        td_out, actions, reward = aco.run(td0, env, n_iter)
    if len(aco.snaps) != 2 * n_iter:
        raise HarnessError("expected %d update calls, saw %d" % (2 * n_iter, len(aco.snaps)))
    rescored = env.get_reward(td0, actions)
    n_cmp = 0

    def bad(clause, r, t, detail, drift=False):
        j, i = rows[r]
        tours_of = [[[insts[ii]["tours"][x - 1] for x in leaves[j][tt][3][ii]] for ii in range(2)] for tt in range(n_iter)]
        sink(clause, {"config": cfg["name"], "N": n, "n_ants": ants, "decay": str(dec), "Q": str(q), "local_search": use_ls,
                      "n_perturbations": npert, "instance": i, "D": insts[i]["D"], "pts": insts[i]["pts"], "grid": grid,
                      "row": r, "batch_rows": len(rows)},
             tours_of, "iteration %d: %s" % (t + 1, detail), drift)

    for r, (j, i) in enumerate(rows):
        D = insts[i]["D"]
        h = leaves[j]
        own_tours = []
        for t in range(n_iter):
            key = hkey(h[:t + 1])
            sr, sp = aco.snaps[2 * t], aco.snaps[2 * t + 1]
            wantR, wantP = table["R"][key][i], table["P"][key][i]
            # ---- the ants of this row walked the scripted tours of ITS instance and were priced on it
            deliv = sr["actions"][r].tolist()
            if deliv != U[t][r].tolist():
                if use_ls and S[t][r].tolist() != U[t][r].tolist() and sorted(map(tuple, deliv)) != sorted(map(tuple, U[t][r].tolist())):
                    bad("local-search-result-is-used", r, t, "tours handed to _update_results %s; sampled %s, local search%s returned %s"
                        % (deliv, S[t][r].tolist(), " + %d perturbation rounds (strictly better candidates replace)" % npert if npert else "",
                           U[t][r].tolist()))
                else:
                    bad("replicas-keep-their-instance", r, t, "tours handed to _update_results %s, ants of this instance walked %s"
                        % (deliv, U[t][r].tolist()))
                break
            own_tours += deliv
            rw = [float(x) * grid for x in sr["reward"][r]]
            exp = [-cost(D, tr) for tr in deliv]
            if rw != [float(x) for x in exp]:
                bad("ant-reward-is-own-tour-length", r, t, "rewards of the ants %s (x %d), lengths of their tours on this instance %s"
                    % (rw, grid, exp))
                break
            # ---- _update_results
            n_cmp += 1
            br, ba = float(sr["bestR"][r]) * grid, sr["bestA"][r].tolist()
            if br != float(wantR[0]):
                bad("best-is-max-of-own-history", r, t, "final_reward %s (x %d), specification %s (maximum over all ants and iterations so far)"
                    % (br, grid, wantR[0]))
                break
            if ba != wantR[1]:
                if sorted(ba) != list(range(n)) or -cost(D, ba) != wantR[0]:
                    bad("stored-tour-has-stored-cost", r, t, "final_actions %s do not re-score to final_reward %s" % (ba, wantR[0]))
                    break
                if ba not in own_tours:
                    bad("stored-tour-from-own-ant", r, t, "final_actions %s is no tour of this instance's ants %s" % (ba, own_tours))
                    break
                bad("tie-break", r, t, "final_actions %s, specification %s (same reward)" % (ba, wantR[1]), drift=True)
            # ---- _update_pheromone
            n_cmp += 1
            P = sp["pher"][r].tolist()
            base = float(dec ** (t + 1) * Fraction(1, 2000))
            edges = set()
            for tt in range(t + 1):
                for tr in U[tt][r].tolist():
                    edges |= {(tr[x], tr[(x + 1) % n]) for x in range(n)}
            wrong = [(a, b) for a in range(n) for b in range(n) if not close(P[a][b], frac(wantP[a][b]))]
            if wrong:
                off = [(a, b) for (a, b) in wrong if (a, b) not in edges]
                a, b = (off or wrong)[0]
                wl = sr.get("wL")
                bad("pheromone-only-from-own-ants" if off else "pheromone-recurrence", r, t,
                    "pheromone[%d][%d] = %r, specification %s = %.9g (%d of %d entries differ; evaporated initial value %.9g; "
                    "rewards of the ants %s, _reward_map %s)"
                    % (a, b, P[a][b], frac(wantP[a][b]), float(frac(wantP[a][b])), len(wrong), n * n, base, exp,
                       None if wl is None else wl[r].tolist()))
                break
        else:
            # ---- run()
            n_cmp += 1
            wantF = table["F"][hkey(h)][i]
            fr, fa = float(reward[r]) * grid, actions[r].tolist()
            ok = (fr == float(wantF[0]) and sorted(fa) == list(range(n)) and -cost(D, fa) == wantF[0]
                  and float(rescored[r]) == float(reward[r]) and bool(aco.final_done[r]) and bool(td_out["done"][r]))
            if not ok or (fa != wantF[1] and fa not in own_tours):
                bad("final-is-best", r, n_iter - 1, "run() returned reward %s (x %d) actions %s (re-scored by the environment: %s), "
                    "specification %s" % (fr, grid, fa, float(rescored[r]) * grid, wantF))
            elif fa != wantF[1]:
                bad("tie-break", r, n_iter - 1, "returned actions %s, specification %s (same reward)" % (fa, wantF[1]), drift=True)
    return n_cmp


def replay_config(cfg, insts, table, seed, world, sink, tier):
    """every complete behaviour TLC explored -> real runs; returns (behaviours, comparisons, real runs)"""
    leaves = [json.loads(k) for k in table["F"]]
    rng = random.Random(seed)
    by_len = {}
    for j, h in enumerate(leaves):
        by_len.setdefault(len(h), []).append(j)
    n_cmp = n_runs = 0
    for n_iter, js in sorted(by_len.items()):
        rng.shuffle(js)
        # batch compositions: a single behaviour (2 rows), small batches, then large ones
        sizes, pos, chunks = [1, 3, 16], 0, []
        for s in sizes:
            if pos < len(js):
                chunks.append(js[pos:pos + s])
                pos += s
        big = 256 if tier == "quick" else 512
        while pos < len(js):
            chunks.append(js[pos:pos + big])
            pos += big
        for ch in chunks:
            rows = [(j, i) for j in ch for i in range(2)]
            rng.shuffle(rows)
            n_cmp += replay_chunk(cfg, insts, table, leaves, rows, seed + n_runs, world, sink)
            n_runs += 1
        # batches of ONE instance (every position of the batch is row 0)
        for j in js[:3]:
            for i in range(2):
                n_cmp += replay_chunk(cfg, insts, table, leaves, [(j, i)], seed + n_runs, world, sink)
                n_runs += 1
    return len(leaves), n_cmp, n_runs


# ----------------------------------------------------------------------------------------------------------------
# (b) the real DeepACOPolicy end to end, recorded for ACOTrace.tla
# ----------------------------------------------------------------------------------------------------------------
class Heat(torch.nn.Module):
    """stand-in for the GNN encoder (torch_geometric is not installed offline): MLP over pairwise features -> log of a
    sigmoid heat map [B, N, N], the output format of NARGNNEncoder"""

    def __init__(self, hidden=16):
        super().__init__()
        self.net = torch.nn.Sequential(torch.nn.Linear(5, hidden), torch.nn.ReLU(), torch.nn.Linear(hidden, 1))

    def forward(self, td):
        x = td["locs"]
        n = x.shape[1]
        a = x.unsqueeze(2).expand(-1, -1, n, -1)
        b = x.unsqueeze(1).expand(-1, n, -1, -1)
        f = torch.cat([a, b, (a - b).norm(dim=-1, keepdim=True)], -1)
        return torch.log(torch.sigmoid(3.0 * self.net(f).squeeze(-1)) + 1e-10), None


def two_opt(dist, tour, max_iterations=100):
    """first-improvement 2-opt, plain Python (what rl4co/envs/routing/tsp/local_search.py does with numba).  The sweep count is
    bounded as in the library: on the ASYMMETRIC heuristic distances of the perturbation step the 2-opt delta is not the true
    change of length and the moves may cycle."""
    n = len(tour)
    tour = list(tour)
    for _ in range(max_iterations):
        improved = False
        for i in range(1, n - 1):
            for j in range(i + 1, n):
                a, b, c, d = tour[i - 1], tour[i], tour[j], tour[(j + 1) % n]
                if a == c or d == b:
                    continue
                if dist[a][c] + dist[b][d] - dist[a][b] - dist[c][d] < -1e-7:
                    tour[i:j + 1] = reversed(tour[i:j + 1])
                    improved = True
        if not improved:
            break
    return tour


def _recording_world():
    from rl4co.envs import TSPEnv
    from rl4co.models.zoo.deepaco.antsystem import AntSystem

    class RecordingAntSystem(AntSystem):
        sink = []

        def __init__(self, *a, **k):
            super().__init__(*a, **k)
            self.rec = {"pher0": self.pheromone.clone(), "its": [], "at_sampling": []}
            type(self).sink.append(self)

        def _sampling(self, td, env):
            self.rec["at_sampling"].append(self.pheromone.clone())
            return super()._sampling(td, env)

        def _update_results(self, actions, reward):
            r = super()._update_results(actions, reward)
            self.rec["its"].append({"actions": actions.clone(), "reward": reward.clone(), "bestR": self.final_reward.clone(),
                                    "bestA": [a.clone() for a in self.final_actions]})
            return r

        def _reward_map(self, x):
            v = super()._reward_map(x)
            self.rec["its"][-1]["wL"] = v.clone()
            return v

        def _update_pheromone(self, actions, reward):
            super()._update_pheromone(actions, reward)
            self.rec["its"][-1]["pher"] = self.pheromone.clone()

        def _recreate_final_routes(self, td, env, action_matrix):
            td, env = super()._recreate_final_routes(td, env, action_matrix)
            self.rec["done"] = td["done"].clone()
            return td, env

    class TwoOptTSPEnv(TSPEnv):
        """TSPEnv with a Python 2-opt behind the local-search extension point"""

        def local_search(self, td, actions, **kw):
            d = td["distances"].tolist()
            return torch.tensor([two_opt(d[r], actions[r].tolist(), **kw) for r in range(actions.shape[0])], dtype=actions.dtype)

    return RecordingAntSystem, TwoOptTSPEnv


def s6(x):
    x = float(x)
    return int(round(x * 1e6)) if x == x and abs(x) < 2000 else -2000000000


def s8(x):
    x = float(x)
    return int(round(x * 1e8)) if x == x and 0 <= x < 21 else -1


def rescore(kind, td0, b, seq):
    """float64 objective and feasibility of an action sequence on instance b, computed without the environment"""
    locs = td0["locs"][b].double()
    if kind == "tsp":
        n = locs.shape[0]
        ok = sorted(seq) == list(range(n))
        path = list(seq) + [seq[0]]
    else:
        n = locs.shape[0] - 1
        cust = [a for a in seq if a != 0]
        ok = sorted(cust) == list(range(1, n + 1))
        dem = td0["demand"][b].double()          # [n], in units of the capacity
        cap = float(td0["vehicle_capacity"][b]) if "vehicle_capacity" in td0.keys() else 1.0
        load = 0.0
        for a in seq:
            load = 0.0 if a == 0 else load + float(dem[a - 1])
            ok = ok and load <= cap + 1e-5
        path = [0] + list(seq) + [0]
    if any(a < 0 or a >= locs.shape[0] for a in path):
        return 0.0, False
    p = locs[path]
    return -float((p[1:] - p[:-1]).norm(dim=-1).sum()), ok


def weights(rew32, q):
    x = [float(v) for v in rew32]
    M, m = max(x), min(x)
    if M == m:
        return [q * TIE_DEP for _ in x]
    return [q * ((v - m) / (M - m)) ** 2 for v in x]


B_RUNS = {
    "quick": [
        dict(env="tsp", n=5, batch=4, ants=3, iters=4, kw={}),
        dict(env="tsp", n=7, batch=3, ants=4, iters=3, kw={"decay": 0.5, "alpha": 2.0, "beta": 0.5, "start_node": 0}),
        dict(env="tsp", n=6, batch=3, ants=3, iters=3, kw={"use_local_search": True}, ls=True),
        dict(env="tsp", n=6, batch=2, ants=3, iters=2, kw={"use_local_search": True, "use_nls": True, "n_perturbations": 2, "perturbation_params": {"max_iterations": 3}}, ls=True),
        dict(env="cvrp", n=6, batch=3, ants=3, iters=4, kw={}),
        dict(env="tsp", n=5, batch=1, ants=4, iters=3, kw={"decay": 0.75, "Q": 0.5}),
    ],
}
B_RUNS["thorough"] = B_RUNS["quick"] + [
    dict(env="tsp", n=10, batch=5, ants=6, iters=6, kw={}),
    dict(env="cvrp", n=8, batch=4, ants=5, iters=5, kw={"decay": 0.5}),
    dict(env="cvrp", n=5, batch=1, ants=3, iters=3, kw={}),
    dict(env="tsp", n=8, batch=4, ants=5, iters=4, kw={"use_local_search": True, "use_nls": True, "n_perturbations": 3, "perturbation_params": {"max_iterations": 3}}, ls=True),
]
B_SEEDS = {"quick": 3, "thorough": 8}


def crash_site(exc):
    """file:line of the innermost frame inside rl4co, provided no harness frame is deeper"""
    repo = os.path.realpath(_REPO)
    tb = exc.__traceback__
    frames = []
    while tb is not None:
        frames.append((os.path.realpath(tb.tb_frame.f_code.co_filename), tb.tb_lineno))
        tb = tb.tb_next
    for fn, ln in reversed(frames):
        if "site-packages" in fn or fn.startswith("<"):
            continue
        if fn.startswith(os.path.join(repo, "rl4co")):
            return "%s:%d" % (os.path.relpath(fn, repo), ln)
        return None
    return None


def make_env(kind, n, ls, world):
    from rl4co.envs import CVRPEnv, TSPEnv
    if kind == "cvrp":
        return CVRPEnv(generator_params=dict(num_loc=n))
    return (world[1] if ls else TSPEnv)(generator_params=dict(num_loc=n))


def end_to_end(tier, seed, viol):
    """real DeepACOPolicy runs -> ACOTrace records; returns (records, notes)"""
    from rl4co.models.zoo.deepaco.policy import DeepACOPolicy
    world = _recording_world()
    Rec = world[0]
    recs, notes = [], []
    for ri, run in enumerate(B_RUNS[tier]):
        for s in range(B_SEEDS[tier]):
            torch.manual_seed(1000 * seed + 17 * ri + s)
            env = make_env(run["env"], run["n"], run.get("ls", False), world)
            td0 = env.reset(batch_size=[run["batch"]])
            pol = DeepACOPolicy(encoder=Heat(), env_name=run["env"], aco_class=Rec, aco_kwargs=dict(run["kw"]),
                                n_ants=run["ants"], n_iterations=run["iters"], temperature=1.0).eval()
            Rec.sink.clear()
            out, err = None, None
            try:
                with torch.no_grad():
                    out = pol(td0.clone(), env, phase="test")
            except Exception as ex:  # noqa: BLE001
                site = crash_site(ex)
                if site is None:
                    raise
                err = (site, "%s: %s" % (type(ex).__name__, str(ex)[:200]))
            aco = Rec.sink[-1]
            rec = aco.rec
            q = aco.Q
            dec = Fraction(float(aco.decay)).limit_denominator(1000)
            n = rec["pher0"].shape[-1]
            nan_seen = any(("pher" in it and not bool(torch.isfinite(it["pher"]).all())) for it in rec["its"])
            label = "DeepACOPolicy/%s%s" % (run["env"], "+2opt" if run.get("ls") else "")
            inst0 = {"env": run["env"], "num_loc": run["n"], "batch": run["batch"], "n_ants": run["ants"], "n_iterations": run["iters"],
                     "aco_kwargs": run["kw"], "torch_seed": 1000 * seed + 17 * ri + s}
            if err:
                viol.append({"property": "C12" if nan_seen else "C15", "env": label, "monitor": "library-raised",
                             "inst": dict(inst0, where=err[0], locs=td0["locs"].tolist(),
                                          rewards_per_iteration=[it["reward"].tolist() for it in rec["its"]]),
                             "actions": [it["actions"].tolist() for it in rec["its"]],
                             "detail": err[1] + (" -- after an iteration in which all ants of an instance obtained the same reward "
                                                 "(_reward_map: 0/0), the pheromone matrix holds NaN" if nan_seen else "")})
            its = [it for it in rec["its"] if "pher" in it]
            for b in range(run["batch"]):
                r = {"kind": run["env"], "n": n, "nants": run["ants"], "decn": dec.numerator, "decd": dec.denominator,
                     "q8": s8(q), "pher0": [[s8(v) for v in row] for row in rec["pher0"][b].tolist()], "it": [],
                     "crashed": out is None, "label": label, "inst": dict(inst0, row=b)}
                for it in its:
                    tours = it["actions"][b].tolist()
                    rs = [rescore(run["env"], td0, b, tr) for tr in tours]
                    bs, bok = rescore(run["env"], td0, b, it["bestA"][b].tolist())
                    r["it"].append({"tours": tours, "rewL": [s6(v) for v in it["reward"][b]], "rew": [s6(v[0]) for v in rs],
                                    "wL": [s8(v) for v in it["wL"][b]], "w": [s8(v) for v in weights(it["reward"][b], q)],
                                    "pher": [[s8(v) for v in row] for row in it["pher"][b].tolist()],
                                    "bestR": s6(it["bestR"][b]), "bestA": it["bestA"][b].tolist(), "bestS": s6(bs), "bestOK": bool(bok)})
                if out is not None:
                    fs, fok = rescore(run["env"], td0, b, out["actions"][b].tolist())
                    r["out"] = {"rew": s6(out["reward"][b]), "act": out["actions"][b].tolist(), "score": s6(fs), "ok": bool(fok),
                                "done": bool(rec["done"][b])}
                else:
                    r["out"] = {"rew": 0, "act": [], "score": 0, "ok": False, "done": False}
                if r["it"]:
                    recs.append(r)
    return recs, notes


# ----------------------------------------------------------------------------------------------------------------
# (c) log-likelihood of the non-autoregressive policies
# ----------------------------------------------------------------------------------------------------------------
def u6(x):
    return int(round(float(x) * 1e6))


def heat_reference(env, td0, heat, actions, replicas, forced_first, temperature=1.0):
    """independent float64 loop: the step distribution is the row of the heat map indexed by the node the row stands on,
    restricted to the feasible nodes and normalised.  Rows are replicated instance-fastest (row r = replica * B + b)."""
    from rl4co.utils.ops import batchify
    B = td0.batch_size[0]
    td = td0.clone()
    if replicas > 1:
        td = batchify(td, replicas)
    R = td.batch_size[0]
    H = heat.double()
    ref, masks, forced = [], [], []
    prev = None
    for t in range(actions.shape[1]):
        mask = td["action_mask"].clone()
        if t == 0 and forced_first:
            ref.append(torch.zeros(R, dtype=torch.float64))
            forced.append(True)
        else:
            if prev is None:
                rowv = H.mean(-1)[torch.arange(R) % B]                 # no current node yet: NonAutoregressiveDecoder uses the row means
            else:
                rowv = H[torch.arange(R) % B, prev, :]
            lp = torch.log_softmax((rowv / temperature).masked_fill(~mask, float("-inf")), dim=-1)
            ref.append(lp.gather(1, actions[:, t:t + 1]).squeeze(1))
            forced.append(False)
        masks.append(mask)
        prev = actions[:, t]
        td.set("action", prev)
        td = env.step(td)["next"]
    return torch.stack(ref, 1), masks, forced


def decode_records(label, envname, lp, actions, reward, ref, masks, forced, ll_sum, extra=None):
    recs = []
    for r in range(actions.shape[0]):
        recs.append({"policy": label, "env": envname, "row": r, "actions": actions[r].tolist(),
                     "mask": [torch.nonzero(m[r]).flatten().tolist() for m in masks],
                     "lp": [u6(x) for x in lp[r]], "ref": [u6(x) for x in ref[r]], "forced": list(forced),
                     "ll_sum": u6(ll_sum[r]), "eval_lp": [], "reward": u6(reward[r]), "eval_reward": 0, **(extra or {})})
    return recs


def nar_records(tier, seed, viol):
    from rl4co.envs import CVRPEnv, TSPEnv
    from rl4co.models.zoo.deepaco.policy import DeepACOPolicy
    from rl4co.models.zoo.nargnn.policy import NARGNNPolicy
    from rl4co.utils.ops import unbatchify
    world = _recording_world()
    recs, notes = [], []
    n_seeds = 2 if tier == "quick" else 6
    envs = [("tsp", lambda: TSPEnv(generator_params=dict(num_loc=7))), ("cvrp", lambda: CVRPEnv(generator_params=dict(num_loc=6)))]

    def guarded(label, envname, inst, fn):
        try:
            fn()
        except Exception as ex:  # noqa: BLE001
            site = crash_site(ex)
            if site is None:
                raise
            viol.append({"property": "C11", "env": label, "monitor": "library-raised", "inst": dict(inst, where=site, env=envname),
                         "actions": [], "detail": "%s: %s" % (type(ex).__name__, str(ex)[:300])})

    for envname, mk in envs:
        for s in range(n_seeds):
            sd = 7000 + 100 * seed + s
            torch.manual_seed(sd)
            env = mk()
            B, K = 3, 3
            td0 = env.reset(batch_size=[B])

            # ---- DeepACOPolicy, training path: multistart sampling with n_ants replicas, AntSystem's start-node function
            def deepaco_train():
                for temp in (1.0, 0.5):
                    pol = DeepACOPolicy(encoder=Heat(), env_name=envname, n_ants=K, train_with_local_search=False, temperature=temp)
                    pol.train()
                    with torch.no_grad():
                        torch.manual_seed(sd + 1)
                        out = pol(td0.clone(), env, phase="train", return_sum_log_likelihood=False)
                        torch.manual_seed(sd + 1)
                        out2 = pol(td0.clone(), env, phase="train")
                        heat, _ = pol.encoder(td0.clone())
                    A = out["actions"]
                    lp = out["log_likelihood"]                       # [B, K, T] (unbatchified by the policy)
                    lp = lp.permute(1, 0, 2).reshape(B * K, -1)      # back to replica-major rows
                    ll = out2["log_likelihood"].permute(1, 0).reshape(B * K) if torch.equal(out2["actions"], A) else lp.sum(1)
                    ref, masks, forced = heat_reference(env, td0, heat, A, K, True, temperature=temp)
                    recs.extend(decode_records("DeepACOPolicy(train,T=%s)" % temp, envname, lp, A, out["reward"], ref, masks, forced, ll))
                    # advantage = reward - mean over the ants OF THE SAME INSTANCE (replicas keep their instance)
                    rw = unbatchify(out["reward"], K)
                    adv = rw - rw.mean(1, keepdim=True)
                    if not torch.allclose(adv, out["advantage"], atol=1e-6):
                        viol.append({"property": "C12", "env": "DeepACOPolicy(train)/" + envname, "monitor": "advantage-over-own-ants",
                                     "inst": {"env": envname, "torch_seed": sd}, "actions": A.tolist(),
                                     "detail": "advantage %s, reward minus the mean over the instance's own ants %s"
                                               % (out["advantage"].tolist(), adv.tolist())})

            guarded("DeepACOPolicy(train)", envname, {"torch_seed": sd}, deepaco_train)

            # ---- NARGNNPolicy with the bundled NonAutoregressiveDecoder
            def nargnn():
                pol = NARGNNPolicy(encoder=Heat(), env_name=envname).eval()
                modes = [("multistart_sampling", K, True), ("multistart_greedy", K, True), ("sampling", 0, False), ("greedy", 0, False)]
                for mode, k, forced_first in modes:
                    kw = {"num_starts": k} if k else {}
                    with torch.no_grad():
                        torch.manual_seed(sd + 2)
                        out = pol(td0.clone(), env, phase="test", decode_type=mode, return_sum_log_likelihood=False, return_actions=True, **kw)
                        torch.manual_seed(sd + 2)
                        out2 = pol(td0.clone(), env, phase="test", decode_type=mode, return_actions=True, **kw)
                        heat, _ = pol.encoder(td0.clone())
                    A, lp = out["actions"], out["log_likelihood"]
                    ll = out2["log_likelihood"] if torch.equal(out2["actions"], A) else lp.sum(1)
                    ref, masks, forced = heat_reference(env, td0, heat, A, k if k else 1, forced_first)
                    recs.extend(decode_records("NARGNNPolicy(stub encoder)/" + mode, envname, lp, A, out["reward"], ref, masks, forced, ll))

            guarded("NARGNNPolicy", envname, {"torch_seed": sd}, nargnn)

            # ---- AntSystem with require_logprobs: the colony's own sampling distribution (pheromone^alpha * heuristic^beta,
            #      normalised over the feasible nodes), iteration by iteration from the records get_logp() joins
            state = {}

            def colony():
                Rec = world[0]
                alpha, beta, temp = 1.5, 0.75, 0.5
                torch.manual_seed(sd + 3)
                heur = Heat()(td0)[0].detach()
                n_it = 4
                aco = Rec(heur.clone(), n_ants=K, alpha=alpha, beta=beta, temperature=temp, require_logprobs=True)
                aco.run(td0.clone(), env, n_it)
                state["aco"], state["records"] = aco, [(a.clone(), b.clone(), c.clone()) for (a, b, c, _) in aco.all_records]
                for t, (lp, acts, rew) in enumerate(state["records"]):
                    ph = aco.rec["at_sampling"][t].double()
                    heat = alpha * torch.log(ph) + beta * (heur.double() / temp)
                    ref, masks, forced = heat_reference(env, td0, heat, acts, K, True)
                    recs.extend(decode_records("AntSystem(require_logprobs)/iteration%d" % (t + 1), envname, lp, acts, rew, ref, masks,
                                               forced, lp.sum(1)))

            guarded("AntSystem(require_logprobs)", envname, {"torch_seed": sd, "n_ants": K, "n_iterations": 4}, colony)

            # ---- get_logp(): the accessor returns exactly these records (stacked over the iterations)
            def get_logp():
                if "aco" not in state:
                    return
                lps, acts, rews, _ = state["aco"].get_logp()
                for t, (lp, a, rw) in enumerate(state["records"]):
                    L = lp.shape[1]
                    # iterations are padded along the step axis to the longest one: (action 0, log-probability 0)
                    ok = (torch.equal(lps[t][:, :L], lp) and torch.equal(acts[t][:, :L], a) and torch.equal(rews[t], rw)
                          and bool((lps[t][:, L:] == 0).all()) and bool((acts[t][:, L:] == 0).all())
                          and lps.shape[:2] == acts.shape[:2] == (len(state["records"]), lp.shape[0]) and lps.shape[2] == acts.shape[2])
                    if not ok:
                        viol.append({"property": "C11", "env": "AntSystem.get_logp/" + envname, "monitor": "get_logp-returns-recorded-steps",
                                     "inst": {"torch_seed": sd, "iteration": t + 1}, "actions": a.tolist(),
                                     "detail": "get_logp()[%d] (log-probabilities %s, actions %s) is not the record of iteration %d (%d steps) "
                                               "padded with (action 0, log-probability 0)"
                                               % (t, lps[t].tolist(), acts[t].tolist(), t + 1, L)})

            guarded("AntSystem.get_logp", envname, {"torch_seed": sd, "n_ants": K, "n_iterations": 4,
                                                    "episode_lengths": [r[0].shape[1] for r in state.get("records", [])]}, get_logp)
    return recs, notes


# ----------------------------------------------------------------------------------------------------------------
PARTS = ("model", "e2e", "loglik")


def violations(tier, seed, parts=PARTS):
    """parts: "model" = (a) ACO.tla + replay [C15, C12], "e2e" = (b) DeepACOPolicy runs -> ACOTrace.tla [C15, C12],
    "loglik" = (c) NAR log-likelihoods -> DecodeTrace.tla [C11, C12 (advantage over own ants)]"""
    logging.disable(logging.WARNING)
    import rl4co

    t0 = time.time()
    torch.set_num_threads(min(4, torch.get_num_threads()))
    viol, drift = [], []
    counts = {}

    def sink(clause, inst, actions, detail, is_drift=False):
        counts[clause] = counts.get(clause, 0) + 1
        if is_drift:
            if len(drift) < 5:
                drift.append((clause, inst["config"], detail))
            return
        if counts[clause] <= MAX_PER_CLAUSE:
            viol.append({"property": CLAUSE[clause], "env": ENV_A, "monitor": "replay-" + clause, "inst": inst, "actions": actions,
                         "detail": detail})

    # ---- (a) model checking (configurations in parallel JVMs) + replay
    cfgs = CONFIGS[tier] if "model" in parts else []
    with cf.ThreadPoolExecutor(max_workers=4) as ex:      # 4 JVMs x 1 worker
        checked = list(ex.map(lambda a: model_check(a[0], a[1], tier != "quick"), enumerate(cfgs)))
    world = _world()
    states = transitions = 0
    per_cfg, model_viol = [], []
    n_beh = n_cmp = n_runs = 0
    for cfg, (insts, r, table, acts) in zip(cfgs, checked):
        states += r.distinct
        transitions += r.generated
        model_viol += r.violated
        entry = {"name": cfg["name"], "constants": cfg["C"], "tours": [x["tours"] for x in insts], "states": r.distinct, "depth": r.depth,
                 "tlc_wall_s": round(r.wall, 1), "tlc_action_coverage": acts}
        if r.violated:
            per_cfg.append(entry)
            continue
        t1 = time.time()
        try:
            b, c, k = replay_config(cfg, insts, table, seed, world, sink, tier)
        except HarnessError:
            raise
        except Exception as exn:  # noqa: BLE001
            site = crash_site(exn)
            if site is None:
                raise
            viol.append({"property": "C15", "env": ENV_A, "monitor": "library-raised", "inst": {"config": cfg["name"], "where": site},
                         "actions": [], "detail": "%s: %s" % (type(exn).__name__, str(exn)[:300])})
            b = c = k = 0
        n_beh += b
        n_cmp += c
        n_runs += k
        entry.update({"behaviours_replayed": b, "state_comparisons": c, "real_runs": k, "replay_wall_s": round(time.time() - t1, 1)})
        per_cfg.append(entry)
    wall_a = time.time() - t0

    # ---- (b) end to end
    t1 = time.time()
    recs, _ = end_to_end(tier, seed, viol) if "e2e" in parts else ([], [])
    fails, drifts, st, _ = validate_records("ACOTrace", recs, TRACE_INV, "e2e", shards=4, per_shard=400)
    states += st
    seen = {}
    for f in fails:
        i, clause, l = f[0], f[1], f[2]
        seen[clause] = seen.get(clause, 0) + 1
        if seen[clause] > MAX_PER_CLAUSE:
            continue
        rec = recs[i]
        it = rec["it"][min(l, len(rec["it"])) - 1] if l >= 1 else {}
        viol.append({"property": CLAUSE[clause], "env": rec["label"], "monitor": clause, "inst": rec["inst"],
                     "actions": [x["tours"] for x in rec["it"][:max(l, 1)]],
                     "detail": "iteration %d: rewards %s, _reward_map %s (recomputed %s), final_reward %s final_actions %s "
                               "(re-scored %s), returned %s" % (l, it.get("rewL"), it.get("wL"), it.get("w"), it.get("bestR"),
                                                                it.get("bestA"), it.get("bestS"), rec["out"] if l > len(rec["it"]) else "")})
    wall_b = time.time() - t1

    # ---- (c) log-likelihoods
    t1 = time.time()
    drecs, _ = nar_records(tier, seed, viol) if "loglik" in parts else ([], [])
    dfails, _, st, _ = validate_records("DecodeTrace", drecs, DECODE_INV, "aco", shards=4, per_shard=800)
    states += st
    seen = {}
    for f in dfails:
        i, clause, l = f[0], f[1], f[2]
        seen[(drecs[i]["policy"], clause)] = seen.get((drecs[i]["policy"], clause), 0) + 1
        if seen[(drecs[i]["policy"], clause)] > 3:
            continue
        rec = drecs[i]
        viol.append({"property": "C11", "env": "%s/%s" % (rec["policy"], rec["env"]), "monitor": clause,
                     "inst": {"row": rec["row"], "env": rec["env"]}, "actions": rec["actions"],
                     "detail": "step %d: reported %s, heat-map reference %s (1e-6), sum reported %s"
                               % (l, rec["lp"], rec["ref"], rec["ll_sum"])})
    wall_c = time.time() - t1

    if model_viol:
        print("MODEL-DRIFT C15c: ACO.tla violates %s" % sorted(set(model_viol)))
    if drift:
        print("MODEL-DRIFT C15c: %d stored tours differ from the specification's among equally good ones, e.g. %s"
              % (counts.get("tie-break", 0), drift[0]))
    pols = {}
    for d in drecs:
        pols[d["policy"] + "/" + d["env"]] = pols.get(d["policy"] + "/" + d["env"], 0) + 1
    cov = {"states": states, "transitions": transitions, "replayed": n_beh, "state_comparisons": n_cmp, "real_runs_scripted": n_runs,
           "traces_validated_against_impl": len(recs) + len(drecs), "acotrace_records": len(recs),
           "acotrace_iterations": sum(len(r["it"]) for r in recs), "decodetrace_records": len(drecs), "decodetrace_by_policy": pols,
           "parts": list(parts), "e2e_runs": len(B_RUNS[tier]) * B_SEEDS[tier] if "e2e" in parts else 0, "e2e_crashed_records": sum(1 for r in recs if r["crashed"]),
           "models": per_cfg, "exhaustive": True, "replay_clause_counts": counts, "tie_deposit_rule": TIE_DEP,
           "wall_s": {"model+replay": round(wall_a, 1), "end_to_end": round(wall_b, 1), "loglik": round(wall_c, 1),
                      "total": round(time.time() - t0, 1)},
           "rl4co": os.path.dirname(rl4co.__file__),
           "explanation": "ACO.tla (AntSystem as a state machine, tours as inputs) model-checked; every behaviour replayed into the "
                          "real AntSystem.run with scripted draws, state compared after every update; real DeepACOPolicy runs validated "
                          "by ACOTrace.tla; NAR log-likelihoods validated by DecodeTrace.tla against a float64 heat-map reference."}
    return viol, cov


ASSUMPTIONS = ["the ants' tours are inputs of the specification (the sampler is C10's subject); in the replay the start-node function "
               "and DecodingStrategy.sampling are scripted from the harness process, everything else is the real code",
               "exact embedding: coordinates k/16, all tour lengths exact in float32; pheromone compared with relative tolerance 5e-6",
               "all ants of an instance tie: the specification deposits TIE_DEP * Q per ant (TIE_DEP = %d)" % TIE_DEP,
               "the GNN encoder is replaced by an MLP heat-map encoder (torch_geometric missing); numba / pyvrp missing: local search "
               "through the environment extension point (scripted in the replay, Python 2-opt end to end)",
               "cpu, float32"]


def run(tier, seed):
    """stand-alone entry: verdict lines for C15 / C12 / C11, evidence in the agent's scratch directory"""
    t0 = time.time()
    viol, cov = violations(tier, seed)
    n_new = 0
    for pid in ("C15", "C12", "C11"):
        a, _ = verdict.report(pid, viol)
        n_new += a
    d = os.path.join(verdict.ROOT, "out", "agents", "grow_aco")
    os.makedirs(d, exist_ok=True)
    scratch = os.path.realpath(os.environ.get("VERIF_REPO", "/repo")) != "/repo"
    with open(os.path.join(d, "evidence_C15c_%s%s.json" % (tier, "_scratch" if scratch else "")), "w") as f:
        json.dump({"property_id": "C15C_ACO", "tier": tier, "seed": seed, "level": "model_checking", "coverage": cov,
                   "assumptions": ASSUMPTIONS, "wall_s": round(time.time() - t0, 2), "violations": n_new}, f, indent=1, default=str)
    print("[C15c] states=%d behaviours=%d comparisons=%d acotrace=%d decodetrace=%d violations=%d wall=%.1fs"
          % (cov["states"], cov["replayed"], cov["state_comparisons"], cov["acotrace_records"], cov["decodetrace_records"],
             n_new, time.time() - t0))
    return 1 if n_new else 0


if __name__ == "__main__":
    import argparse

    ap = argparse.ArgumentParser()
    ap.add_argument("tier_pos", nargs="?", default=None)
    ap.add_argument("--tier", default="quick")
    ap.add_argument("--seed", type=int, default=int(os.environ.get("VERIF_SEED", "0")))
    a = ap.parse_args()
    torch.set_num_threads(4)
    sys.exit(run(a.tier_pos or a.tier, a.seed))
