"""C11 -- returned log-likelihoods are those of the returned actions (evaluate round trip).
(1) TLC explores machine D of spec/common/Decode.tla.tmpl over the environment models (TSP, CVRP): every
    behaviour of the decoding protocol for greedy / sampling / multistart_* with an explicit table policy,
    with exact per-step probabilities;
(2) the table policy is plugged into the REAL ConstructivePolicy as a stub decoder and every decode type is
    run on the real environments: each real row must be a behaviour of the specification with the same per-step
    log-probabilities and reward; every behaviour of the specification is fed back through `actions=`
    (evaluate) and must reproduce per-step log-probabilities, reward and entropy;
(3) bundled neural policies (random weights, eval mode) are run in every decode type; the recorded per-step
    masks / actions / reported log-probs / independently recomputed reference log-probs are validated by TLC
    against spec/decode/DecodeTrace.tla."""
import logging
import math
import time
import warnings

import torch

from .. import decode_lib as dl
from .. import tlc, verdict
from .common import validate_records

warnings.filterwarnings("ignore")


def adapters():
    from ..envs.cvrp import CVRP
    from ..envs.op import OP
    from ..envs.tsp import TSP

    out = []
    for cls in (TSP, CVRP, OP):        # OP: positive rewards (best-of-k must be a MAXIMUM, not a shortest tour)
        a = cls()
        a.tag = a.name
        out.append(a)
    return out


def small_family(ad, tier):
    fam = ad.family("quick", 0)
    if ad.name == "tsp":
        fam = [i for i in fam if i["N"] <= (4 if tier == "quick" else 5)]
    elif ad.name == "op":
        # budgets under which every customer is a feasible first move (multi-start / beam starts are then distinct)
        fam = [i for i in fam if all(2 * i["D"][0][j] <= i["L"] for j in range(1, i["N"] + 1))]
        fam = fam[:: max(1, len(fam) // (4 if tier == "quick" else 10))]
    else:
        fam = fam[:: max(1, len(fam) // (6 if tier == "quick" else 18))]
    for k, i in enumerate(fam):
        i["id"] = k + 1
    return fam


def find_behaviour(table, iid, j, actions):
    for L in range(1, len(actions) + 1):
        hit = table.get((iid, j, tuple(actions[:L])))
        if hit is not None:
            return L, hit
    return None, None


def check_rows(ad, mode, table, iids, js, actions, lls, rewards, scale, viol, what):
    """every real row must be a specification behaviour with the same per-step log-probs and reward"""
    n = 0
    for r in range(len(iids)):
        a = [int(x) for x in actions[r].tolist()]
        L, hit = find_behaviour(table, iids[r], js[r], a)
        n += 1
        if hit is None:
            viol.append({"property": "C11", "env": ad.name, "monitor": "not-a-behaviour", "inst": {"id": iids[r], "start": js[r], "mode": mode},
                         "actions": a, "detail": what + ": the real row is not a behaviour of the decoding specification"})
            continue
        probs, rew = hit
        bad = []
        for t in range(len(a)):
            exp = math.log(float(probs[t])) if t < L else 0.0      # padding steps: single feasible action, probability one
            if abs(float(lls[r][t]) - exp) > 2e-5:
                bad.append("step %d log-prob %.6f, policy assigns %.6f" % (t, float(lls[r][t]), exp))
        if rewards is not None and abs(float(rewards[r]) * scale[r] - rew) > 1e-3:
            bad.append("reward %s, specification %s/%s" % (float(rewards[r]), rew, scale[r]))
        if bad:
            viol.append({"property": "C11", "env": ad.name, "monitor": "logprob-of-taken-action", "inst": {"id": iids[r], "start": js[r], "mode": mode},
                         "actions": a, "detail": what + ": " + "; ".join(bad[:3])})
    return n


def stub_stage(ad, tier, seed, viol, samples, layout_recs):
    fam = small_family(ad, tier)
    K = 3
    maxlen = ad.step_cap(fam[0])
    tables, states, trans = {}, 0, 0
    for mode in ("greedy", "sampling", "multistart_greedy", "multistart_sampling"):
        tables[mode], r = dl.model_behaviours(ad, fam, mode, K, maxlen, ad.name)
        states += r.distinct
        trans += r.generated
    policy = dl.make_policy(ad.name)
    nchk = 0
    groups = {}
    for i in fam:
        groups.setdefault(ad.group_key(i), []).append(i)
    torch.manual_seed(seed)
    for key, insts in groups.items():
        env, td = dl.reset_with_ids(ad, insts)
        B = len(insts)
        ids = [i["id"] for i in insts]
        sc = [ad.scale(i) for i in insts]
        # greedy / sampling
        out = dl.run_policy(policy, env, td, decode_type="greedy")
        nchk += check_rows(ad, "greedy", tables["greedy"], ids, [0] * B, out["actions"], out["log_likelihood"], out["reward"], sc, viol, "greedy")
        for rep in range(3 if tier == "quick" else 12):
            out = dl.run_policy(policy, env, td, decode_type="sampling", return_entropy=True)
            nchk += check_rows(ad, "sampling", tables["sampling"], ids, [0] * B, out["actions"], out["log_likelihood"], out["reward"], sc, viol, "sampling")
            # evaluate round trip of exactly these actions: per-step log-probs, reward, entropy
            ev = dl.run_policy(policy, env, td, actions=out["actions"], return_entropy=True)
            if not torch.allclose(ev["log_likelihood"], out["log_likelihood"], atol=1e-6) or \
                    not torch.allclose(ev["reward"], out["reward"]) or not torch.allclose(ev["entropy"], out["entropy"], atol=1e-5):
                viol.append({"property": "C11", "env": ad.name, "monitor": "evaluate-round-trip", "inst": {"ids": ids}, "actions": out["actions"].tolist(),
                             "detail": "rollout ll %s / evaluate ll %s; entropy %s / %s" % (out["log_likelihood"].tolist()[:2], ev["log_likelihood"].tolist()[:2],
                                                                                           out["entropy"].tolist()[:2], ev["entropy"].tolist()[:2])})
        # multistart (forced first move reports log-prob 0)
        for mode in ("multistart_greedy", "multistart_sampling"):
            for sb in (False, True):
                out = dl.run_policy(policy, env, td, decode_type=mode, num_starts=K, select_best=sb)
                if not sb:
                    ids2 = [ids[r % B] for r in range(B * K)]
                    js2 = [r // B for r in range(B * K)]
                    nchk += check_rows(ad, mode, tables[mode], ids2, js2, out["actions"], out["log_likelihood"], out["reward"],
                                       [sc[r % B] for r in range(B * K)], viol, mode)
                    if float(out["log_likelihood"][:, 0].abs().max()) != 0.0:
                        viol.append({"property": "C11", "env": ad.name, "monitor": "forced-step-nonzero", "inst": {"mode": mode}, "actions": [],
                                     "detail": "forced multi-start move contributes %s" % out["log_likelihood"][:, 0].tolist()})
                    all_rows = out
                else:
                    # best-of-K: must be one of the instance's own rollouts (any start) with that rollout's log-probs
                    for b in range(B):
                        a = [int(x) for x in out["actions"][b].tolist()]
                        hits = [find_behaviour(tables[mode], ids[b], j, a) for j in range(K)]
                        hits = [h for h in hits if h[1] is not None]
                        nchk += 1
                        if not hits:
                            viol.append({"property": "C11", "env": ad.name, "monitor": "best-not-own-rollout", "inst": {"id": ids[b], "mode": mode},
                                         "actions": a, "detail": "select_best returned a sequence that is no rollout of this instance"})
                    if mode == "multistart_greedy":
                        # C12 record: provenance of every expanded row + best selection (rows of the un-selected run)
                        rew = [int(round(float(x) * sc[r % B])) for r, x in enumerate(all_rows["reward"].tolist())]
                        best = []
                        for b in range(B):
                            a = out["actions"][b].tolist()
                            row = next((r for r in range(B * K) if r % B == b and all_rows["actions"][r].tolist() == a), None)
                            best.append([int(round(float(out["reward"][b]) * sc[b])), (row + 1) if row is not None else 1])
                        owner_td = dl.run_policy(policy, env, td, decode_type=mode, num_starts=K, select_best=False)
                        layout_recs.append({"kind": "decode", "env": ad.name, "B": B, "k": K, "mask": [], "sel": [], "crash": "",
                                            "owner": [((r % B) + 1) for r in range(B * K)], "rew": rew, "best": best,
                                            "note": "multistart_greedy select_best"})
        # evaluate: EVERY behaviour of the specification (all mask-admitted sequences) fed back through actions=
        by_len = {}
        for (iid, j, h), (probs, rew) in tables["sampling"].items():
            if iid in ids:
                by_len.setdefault(len(h), []).append((iid, h, probs, rew))
        for L, items in by_len.items():
            sub = [insts[ids.index(iid)] for (iid, _, _, _) in items]
            env2, td2 = dl.reset_with_ids(ad, sub)
            acts = torch.tensor([list(h) for (_, h, _, _) in items], dtype=torch.long)
            ev = dl.run_policy(policy, env2, td2, actions=acts)
            nchk += check_rows(ad, "evaluate", tables["sampling"], [x[0] for x in items], [0] * len(items), ev["actions"], ev["log_likelihood"],
                               ev["reward"], [ad.scale(i) for i in sub], viol, "evaluate")
    samples.append({"env": ad.name, "spec_behaviour": [list(k) for k in list(tables["multistart_greedy"])[:1]]})
    return states, trans, nchk


def run(tier, seed):
    t0 = time.time()
    logging.disable(logging.WARNING)
    viol, samples, layout_recs = [], [], []
    states = trans = nchk = 0
    for ad in adapters():
        s, t, n = stub_stage(ad, tier, seed, viol, samples, layout_recs)
        states += s
        trans += t
        nchk += n
    from . import c11_nets
    recs = c11_nets.records(tier, seed)
    fails, _, st, _ = validate_records("DecodeTrace", recs, c11_nets.INV, "c11")
    for f in fails:
        rec = recs[f[0]]
        viol.append({"property": "C11", "env": rec["policy"] + "/" + rec["env"], "monitor": f[1],
                     "inst": {"mode": rec["mode"], "row": rec["row"]}, "actions": rec["actions"],
                     "detail": "step %s reported %s reference %s" % (f[2] if len(f) > 2 else "", rec["lp"][:6], rec["ref"][:6])})
    # non-autoregressive heat-map policies (DeepACO training path, NARGNN, AntSystem(require_logprobs) / get_logp)
    from . import c15c_aco
    va, ca = c15c_aco.violations(tier, seed, parts=("loglik",))
    viol += [v for v in va if v["property"] == "C11"]
    states += ca["states"]
    n_new, n_known = verdict.report("C11", viol)
    samples.append({"network_trace": {k: recs[0][k] for k in ("policy", "env", "mode", "actions", "lp", "ref")}} if recs else {})
    cov = {"states": states + st, "transitions": trans, "traces_validated_against_impl": nchk + len(recs), "samples": samples,
           "exhaustive": True, "stub_policy_rows_checked": nchk, "network_traces": len(recs), "known_finding_witnesses": n_known,
           "network_matrix": sorted({r["policy"] + "/" + r["env"] + "/" + r["mode"] for r in recs}),
           "non_autoregressive": {k: v for k, v in ca.items() if k != "samples"},
           "explanation": "Decode wrapper (machine D) explored by TLC for a table policy over the TSP and CVRP models; real "
                          "ConstructivePolicy with the table as stub decoder run in all decode types and compared behaviour by "
                          "behaviour; neural policies validated by DecodeTrace.tla against an independent reference."}
    verdict.write_evidence("C11", tier, seed, "model_checking", cov,
                           ["for multistart the forced first move is asserted to contribute exactly 0 on the rollout side; the library's evaluate mode "
                            "has no notion of a forced move, so the evaluate round trip is asserted for greedy/sampling rollouts",
                            "neural networks are uninterpreted: TLC checks the per-step protocol against a float64 reference"],
                           time.time() - t0, n_new)
    return 1 if n_new else 0
