"""C19 -- persistence round trips preserve instances, environments and policies.

The specification decides C19 as BEHAVIOURAL EQUIVALENCE of the original and the restored object:
(1) TLC model-checks spec/data/Persist.tla (two synchronised copies -- original / restored -- of the code-shaped
    model of an environment module of spec/env, through the codecs `same` (deepcopy, pickle, npz, dataset file)
    and `text` (FJSP / JSSP files: padding dropped and re-added)): same content up to padding, same mask and
    done flag after every step, same reward, same forced solutions;
(2) every state TLC printed for the RESTORED copy is replayed into the REAL restored objects (instance taken through
    the real round trip, environment deep-copied / pickled / rebuilt from the files): mask and done flag after every
    step, reward at the end and the forced lowest/highest-action solutions must be the specification's;
(3) round trips of the real code on generator-drawn instances are recorded with the original and the restored object
    side by side (npz save/load for every generator, generate_data files + load_data, FJSP/JSSP text files, deepcopy
    and pickle of every environment class incl. the random generator state, Lightning checkpoints of REINFORCE-type
    modules) and validated by TLC against spec/data/PersistTrace.tla."""
import copy
import logging
import os
import pickle
import random
import shutil
import struct
import time
import warnings
import zlib

import numpy as np
import torch
from tensordict import TensorDict

from .. import tlc, verdict
from ..driver import done_of, group_by, mask_list
from .common import validate_records

warnings.filterwarnings("ignore")

OUTD = os.path.join(tlc.OUT, "c19")
MODEL_INV = ["ContentEq", "MaskEq", "DoneEq", "RewardEq", "GreedyEq", "EmitS", "EmitT", "EmitG"]
TRACE_INV = ["M_Offered", "M_Mask", "M_Done", "M_Reward", "M_Content", "M_Dtype", "M_Rng", "M_Greedy",
             "M_GreedyReward", "End"]


# ---------------------------------------------------------------------------------------------
# small helpers
# ---------------------------------------------------------------------------------------------
class time_limit:
    """a restored object that is not the original may make the environment loop for ever: a call on the RESTORED side
    that does not return within `secs` is a difference like any other (main thread only)"""

    def __init__(self, secs):
        self.secs = secs

    def _raise(self, signum, frame):
        raise TimeoutError("no result within %ss" % self.secs)

    def __enter__(self):
        import signal

        try:
            self.old = signal.signal(signal.SIGALRM, self._raise)
            signal.setitimer(signal.ITIMER_REAL, self.secs)
        except ValueError:
            self.old = None

    def __exit__(self, *a):
        import signal

        if self.old is not None:
            signal.setitimer(signal.ITIMER_REAL, 0)
            signal.signal(signal.SIGALRM, self.old)
        return False


def bits(x):
    """float32 bit pattern as a (32 bit) int: equal bits <=> the very same float"""
    return struct.unpack("<i", struct.pack("<f", float(x)))[0]


def fresh_dir(*parts):
    d = os.path.join(OUTD, *parts)
    shutil.rmtree(d, ignore_errors=True)
    os.makedirs(d)
    return d


def tensors_equal(a, b):
    if a.shape != b.shape:
        return False
    if a.dtype != b.dtype:
        a, b = a.to(torch.float64), b.to(torch.float64)
    if a.is_floating_point():
        return bool(((a == b) | (a.isnan() & b.isnan())).all())
    return bool(torch.equal(a, b))


def td_compare(orig, rest, keys=None):
    """(content_equal, dtype_shape_equal, detail): every key of the original came back with the same values
    (content) and the same dtype and shape"""
    content, dtype, why = True, True, []
    for k in (keys or sorted(orig.keys())):
        if k not in rest.keys():
            content = dtype = False
            why.append("key %s dropped" % k)
            continue
        a, b = orig[k], rest[k]
        if a.dtype != b.dtype or a.shape != b.shape:
            dtype = False
            why.append("%s: %s%s -> %s%s" % (k, a.dtype, tuple(a.shape), b.dtype, tuple(b.shape)))
        if a.shape != b.shape or not tensors_equal(a, b):
            content = False
            why.append("%s: values differ" % k)
    return content, dtype, "; ".join(why[:4])


# ---------------------------------------------------------------------------------------------
# running the real environments
# ---------------------------------------------------------------------------------------------
def reward_bits(env, td, acts):
    try:
        rew = env.get_reward(td, acts)
        return [bits(x) for x in rew.reshape(-1).tolist()]
    except Exception as e:  # noqa: BLE001  both copies must then fail alike
        return [-(zlib.crc32(type(e).__name__.encode()) & 0x3FFFFFFF)] * td.batch_size[0]


def play(env, td0, actions=None, gen=None, cap=None):
    """one episode of a whole batch on the real environment.  actions None: every row plays an action drawn from
    the mask it is offered (finished rows an offered one, 0 if none) until all rows are done; otherwise the given
    [B, T] actions are replayed.  Returns masks / done flags per row and step, the actions and the reward bits."""
    td = env.reset(td0.clone())
    if "action_mask" not in td.keys():
        return None
    B = td.batch_size[0]
    flat = lambda t: t["action_mask"].reshape(B, -1)  # noqa: E731
    masks = [[mask_list(flat(td)[b])] for b in range(B)]
    dones = [[bool(done_of(td)[b])] for b in range(B)]
    cap = cap or (3 * flat(td).shape[1] + 8)
    played, t = [], 0
    while True:
        if actions is None:
            if bool(done_of(td).all()) or t >= cap:
                break
            w = flat(td).float()
            w[~flat(td).any(-1), 0] = 1.0
            a = torch.multinomial(w, 1, generator=gen).squeeze(-1)
        else:
            if t >= actions.shape[1]:
                break
            a = actions[:, t].clone()
        td.set("action", a.clone())
        td = env.step(td)["next"]
        played.append(a)
        t += 1
        dn = done_of(td)
        for b in range(B):
            masks[b].append(mask_list(flat(td)[b]))
            dones[b].append(bool(dn[b]))
    acts = torch.stack(played, 1) if played else torch.zeros(B, 0, dtype=torch.long)
    rew = reward_bits(env, td, acts) if played else [0] * B
    return {"mask": masks, "done": dones, "acts": acts, "reward": rew, "all_done": bool(done_of(td).all())}


def forced(env, td0, hi, cap=64):
    """rollout of the deterministic policy `lowest (highest) offered action` -- the forced solutions of Persist!PSol.
    Returns per row (actions up to the step the row finished, finished?, reward bits)."""
    td = env.reset(td0.clone())
    B = td.batch_size[0]
    flat = lambda t: t["action_mask"].reshape(B, -1)  # noqa: E731
    n = flat(td).shape[1]
    seqs, live = [[] for _ in range(B)], [True] * B
    played = []
    for _ in range(cap):
        dn, am = done_of(td), flat(td)
        for b in range(B):
            if live[b] and (bool(dn[b]) or not bool(am[b].any())):
                live[b] = False
        if not any(live):
            break
        idx = torch.arange(n)
        score = torch.where(am, idx if hi else n - idx, torch.full((n,), -1))
        a = score.argmax(-1)
        a = torch.where(am.any(-1), a, torch.zeros_like(a))
        td.set("action", a.clone())
        td = env.step(td)["next"]
        played.append(a)
        for b in range(B):
            if live[b]:
                seqs[b].append(int(a[b]))
    dn = done_of(td)
    acts = torch.stack(played, 1) if played else torch.zeros(B, 0, dtype=torch.long)
    return seqs, [bool(x) for x in dn.tolist()], acts, td


_POLICIES = {}


def policy_for(env):
    """a small randomly initialised attention model decoded greedily, where the library provides the embeddings for
    the environment; None otherwise (then the forced lowest/highest rules stand in for `the greedy solution`)"""
    name = env.name
    if name not in _POLICIES:
        pol = None
        try:
            from rl4co.models import AttentionModelPolicy

            with torch.random.fork_rng():
                torch.manual_seed(20240919)
                pol = AttentionModelPolicy(env_name=name, embed_dim=16, num_encoder_layers=1, num_heads=2,
                                           feedforward_hidden=16).eval()
                with torch.no_grad():
                    pol(env.reset(env.generator([2])), env, decode_type="greedy")
        except Exception:  # noqa: BLE001  no embedding for this environment: not C19's business
            pol = None
        _POLICIES[name] = pol
    return _POLICIES[name]


def greedy(env, td0, pol):
    """per row: (actions, reward bits) of the same deterministic policy"""
    B = td0.batch_size[0]
    if pol is not None:
        with torch.no_grad():
            out = pol(env.reset(td0.clone()), env, decode_type="greedy")
        return [[int(x) for x in out["actions"][b].reshape(-1).tolist()] for b in range(B)], \
               [bits(x) for x in out["reward"].reshape(-1).tolist()]
    lo, dlo, alo, tlo = forced(env, td0, False)
    hi, dhi, ahi, thi = forced(env, td0, True)
    rb = reward_bits(env, tlo, alo) if alo.shape[1] else [0] * B
    return [lo[b] + [-1] + hi[b] for b in range(B)], rb


def greedy_pair(env_o, td_o, env_r, td_r):
    """the same deterministic policy on the original and on the restored object.  A network the library cannot run on
    the ORIGINAL (no embedding for the environment, batch of one ...) is replaced by the forced rules for both; a failure
    on the restored object only is a difference."""
    pol = policy_for(env_o)
    if pol is not None:
        try:
            g_o = greedy(env_o, td_o, pol)
        except Exception:  # noqa: BLE001
            pol = None
    if pol is None:
        g_o = greedy(env_o, td_o, None)
    B = td_o.batch_size[0]
    try:
        with time_limit(30):
            g_r = greedy(env_r, td_r, pol)
    except Exception as e:  # noqa: BLE001
        g_r = ([[-999]] * B, [-(zlib.crc32(type(e).__name__.encode()) & 0x3FFFFFFF)] * B)
    return g_o, g_r


def records_for(kind, what, eo, er, content, dtype, strict, rng, g_o, g_r):
    """one PersistTrace record per row"""
    recs = []
    B = len(eo["mask"]) if eo else len(g_o[0])
    for b in range(B):
        rec = {"kind": kind, "what": what, "row": b, "content_equal": bool(content), "dtype_equal": bool(dtype),
               "strict": bool(strict), "rng_equal": bool(rng),
               "greedy_o": g_o[0][b], "greedy_r": g_r[0][b], "greedy_ro": g_o[1][b], "greedy_rr": g_r[1][b]}
        if eo is not None:
            rec["a"] = [int(x) for x in eo["acts"][b].tolist()]
            rec["orig"] = {"mask": eo["mask"][b], "done": eo["done"][b], "reward": eo["reward"][b]}
            rec["rest"] = {"mask": er["mask"][b], "done": er["done"][b], "reward": er["reward"][b]}
        else:
            rec["a"] = []
            rec["orig"] = {"mask": [[]], "done": [False], "reward": 0}
            rec["rest"] = {"mask": [[]], "done": [False], "reward": 0}
        recs.append(rec)
    return recs


def side_by_side(kind, what, env_o, td_o, env_r, td_r, content, dtype, strict, rng, seed, n_eps=1):
    """original and restored object on the real environment: random mask-confined episodes (the restored copy
    replays the actions the original was offered) + the greedy / forced solutions"""
    recs = []
    gen = torch.Generator()
    gen.manual_seed(1000 + seed)
    g_o, g_r = greedy_pair(env_o, td_o, env_r, td_r)
    for _ in range(n_eps):
        eo = play(env_o, td_o, gen=gen)
        er, note = None, ""
        if eo is not None:
            try:
                with time_limit(30):
                    er = play(env_r, td_r, actions=eo["acts"])
            except Exception as e:  # noqa: BLE001  the restored object cannot even be run: every step differs
                code = -(zlib.crc32(type(e).__name__.encode()) & 0x3FFFFFFF)
                er = {"mask": [[[code]] * len(m) for m in eo["mask"]], "done": eo["done"], "reward": [code] * len(eo["mask"])}
                note = " [restored object raised %s: %s]" % (type(e).__name__, str(e)[:80])
        recs += records_for(kind, what + note, eo, er, content, dtype, strict, rng, g_o, g_r)
    return recs


# ---------------------------------------------------------------------------------------------
# environments that can be built offline
# ---------------------------------------------------------------------------------------------
SMALL = {
    "tsp": {"num_loc": 6}, "atsp": {"num_loc": 5}, "cvrp": {"num_loc": 6}, "cvrptw": {"num_loc": 6},
    "sdvrp": {"num_loc": 6}, "svrp": {"num_loc": 6}, "op": {"num_loc": 6}, "pctsp": {"num_loc": 6},
    "spctsp": {"num_loc": 6}, "pdp": {"num_loc": 6}, "mtsp": {"num_loc": 6, "min_num_agents": 2, "max_num_agents": 3},
    "mdcpdp": {"num_loc": 6, "num_agents": 2}, "mtvrp": {"num_loc": 6, "variant_preset": "all"},
    "ffsp": {"num_job": 3, "num_machine": 2, "num_stage": 2},
    "fjsp": {"num_jobs": 3, "num_machines": 2, "min_ops_per_job": 1, "max_ops_per_job": 3, "max_processing_time": 5},
    "jssp": {"num_jobs": 3, "num_machines": 3, "max_processing_time": 9},
    "smtwtp": {"num_job": 5}, "flp": {"num_loc": 8, "to_choose": 3},
    "mcp": {"num_items": 12, "num_sets": 6, "min_size": 2, "max_size": 4, "n_sets_to_choose": 2},
    "tsp_kopt": {"num_loc": 6}, "pdp_ruin_repair": {"num_loc": 6},
}
LARGER = {
    "tsp": {"num_loc": 11}, "cvrp": {"num_loc": 10}, "cvrptw": {"num_loc": 9}, "op": {"num_loc": 10},
    "pctsp": {"num_loc": 9}, "pdp": {"num_loc": 8}, "sdvrp": {"num_loc": 9}, "atsp": {"num_loc": 7},
    "fjsp": {"num_jobs": 4, "num_machines": 3, "min_ops_per_job": 2, "max_ops_per_job": 4, "max_processing_time": 9},
    "jssp": {"num_jobs": 4, "num_machines": 4, "max_processing_time": 20},
    "mtvrp": {"num_loc": 9, "variant_preset": "all"},
}


def make_env(name, params=None, seed=7):
    from rl4co.envs import ENV_REGISTRY

    if callable(params):            # environments that need prepared data files: built by their pipeline adapter
        torch.manual_seed(seed)
        env = params()
    elif name == "tsp_dense":       # exported by rl4co.envs but not registered
        from rl4co.envs import DenseRewardTSPEnv

        env = DenseRewardTSPEnv(generator_params=dict(params or SMALL["tsp"]), seed=seed)
    else:
        env = ENV_REGISTRY[name](generator_params=dict(params if params is not None else SMALL.get(name, {})), seed=seed)
    env.check_solution = False      # random mask-confined episodes incl. post-finish steps: the checker is not under test
    return env


def offline_envs():
    from rl4co.envs import ENV_REGISTRY

    out = []
    for name in ENV_REGISTRY:
        if name in ("dpp", "mdpp"):
            continue            # need downloaded chip data
        out.append(name)
    return out


# ---------------------------------------------------------------------------------------------
# (1) + (2): the model and its replay into the real restored objects
# ---------------------------------------------------------------------------------------------
def pick(fam, nmax, rnd):
    if len(fam) <= nmax:
        return list(fam)
    step = len(fam) / float(nmax)
    return [fam[int(i * step)] for i in range(nmax)]


def run_model(ad, tag, fam, workers=16, fault="none"):
    wd, root = tlc.prepare("c19_persist_" + tag, template="Persist", env_module=ad.module, subst={"FAULT": fault})
    f = os.path.join(wd, "family.json")
    tlc.dump_json(f, fam)
    tlc.write_cfg(wd, root, spec="PSpec", invariants=MODEL_INV[1:5] if fault != "none" else MODEL_INV)   # behavioural clauses alone
    r = tlc.run(wd, root, env={"FAMILY_FILE": f}, coverage=True, workers=workers, heap="3g")
    if fault != "none":
        # self-test of the specification: with a deliberately lossy codec the clauses of C19 must fail
        if not r.violated:
            raise tlc.TLCError("Persist_%s: a lossy codec does not violate any clause -- the invariants are vacuous" % ad.module)
        return r
    if r.violated:
        raise tlc.TLCError("Persist_%s: %s violated in the MODEL (original and restored copy of the environment "
                           "model disagree) -- see %s/tlc.log" % (ad.module, r.violated, wd))
    S, T, G = {}, {}, {}
    for (_, iid, kind, pad, hist, mask, done) in r.tuples("S"):
        S[(iid, kind, pad, tuple(hist))] = (list(mask), bool(done))
    for (_, iid, kind, pad, hist, rew) in r.tuples("T"):
        T.setdefault((iid, kind, pad), []).append((list(hist), rew))
    for (_, iid, kind, pad, lo, hi) in r.tuples("G"):
        G[(iid, kind, pad)] = (lo, hi)
    if len(S) != r.distinct:
        raise tlc.TLCError("Persist_%s: %d states printed, %d explored" % (ad.module, len(S), r.distinct))
    return r, S, T, G


def write_jssp_files(where, td):
    """JSSP instance files in the format rl4co/envs/scheduling/jssp/parser.py documents: first line
    `<num jobs> <num machines>`, then one line per job with `<machine> <processing time>` pairs, machines from 1"""
    os.makedirs(where, exist_ok=True)
    B = td.batch_size[0]
    for b in range(B):
        so, eo = td["start_op_per_job"][b].long().tolist(), td["end_op_per_job"][b].long().tolist()
        pt = td["proc_times"][b]
        lines = ["%d %d" % (len(so), pt.shape[0])]
        for s, e in zip(so, eo):
            row = []
            for o in range(s, e + 1):
                m = pt[:, o].nonzero().reshape(-1)
                assert m.numel() == 1
                row += [int(m[0]) + 1, int(pt[m[0], o])]
            lines.append(" ".join(str(x) for x in row))
        with open(os.path.join(where, "%s_%dj_%dm.txt" % (str(b + 1).rjust(4, "0"), len(so), pt.shape[0])), "w") as fh:
            fh.write("\n".join(lines))


def file_order(files):
    """row k of what the file generators deliver is the instance written as number int(name[:4])"""
    return [int(os.path.basename(f)[:4]) - 1 for f in files]


def text_roundtrip(real, td, where, route):
    """instances -> text files -> instances, through the real writer / readers.  Returns (env_r, td_r) with the
    rows of td_r put back into the order in which the instances were written."""
    jssp = real.name == "jssp"
    n = td.batch_size[0]
    if jssp:
        write_jssp_files(where, td)
    else:
        from rl4co.envs.scheduling.fjsp.parser import write

        write(where, real.reset(td.clone()))
    if route == "load_data":
        td_r = real.load_data(where, batch_size=n)
        from rl4co.envs.scheduling.fjsp.generator import FJSPFileGenerator
        from rl4co.envs.scheduling.jssp.generator import JSSPFileGenerator

        files = (JSSPFileGenerator if jssp else FJSPFileGenerator).list_files(where)
        env_r = real
    else:
        env_r = type(real)(generator_params={"file_path": where}, mask_no_ops=real.mask_no_ops)
        env_r.check_solution = False
        td_r = env_r.generator(n)
        files = env_r.generator.files
    order = file_order(files)
    if sorted(order) != list(range(n)) or td_r.batch_size[0] != n:
        return env_r, None
    inv = [order.index(i) for i in range(n)]
    return env_r, td_r[torch.tensor(inv)].clone()


def sched_content(orig, rest):
    """FJSP / JSSP instance content up to padding: same jobs, same real columns; padded columns of the restored
    instance are flagged by pad_mask and hold nothing"""
    why = []
    B = orig.batch_size[0]
    for k in ("start_op_per_job", "end_op_per_job"):
        if rest[k].shape != orig[k].shape or not bool((rest[k].to(torch.float64) == orig[k].to(torch.float64)).all()):
            why.append("%s differs" % k)
    if why:
        return False, "; ".join(why)
    for b in range(B):
        n = int(orig["end_op_per_job"][b].max()) + 1
        Pr = rest["proc_times"].shape[-1]
        if Pr < n or orig["proc_times"].shape[-2] != rest["proc_times"].shape[-2]:
            why.append("row %d: %d columns for %d operations" % (b, Pr, n))
            continue
        if not torch.equal(orig["proc_times"][b][:, :n].float(), rest["proc_times"][b][:, :n].float()):
            why.append("row %d: processing times of real operations differ" % b)
        if bool(rest["pad_mask"][b][:n].any()) or not bool(rest["pad_mask"][b][n:].all()):
            why.append("row %d: pad_mask %s for %d operations" % (b, rest["pad_mask"][b].int().tolist(), n))
        if bool((rest["proc_times"][b][:, n:] != 0).any()):
            why.append("row %d: padded columns not empty" % b)
    return not why, "; ".join(why[:3])


def realisations(ad, env, real, td, group, tag):
    """the real round trips standing for a codec of the model: (name, codec kind, thunk -> (env_r, td_r), rows covered)"""
    from rl4co.data.utils import load_npz_to_tensordict, save_tensordict_to_npz

    allrows = list(range(len(group)))
    yield "deepcopy", "same", (lambda: (copy.deepcopy(real), copy.deepcopy(td))), allrows
    yield "pickle", "same", (lambda: (pickle.loads(pickle.dumps(real)), pickle.loads(pickle.dumps(td)))), allrows
    d = fresh_dir("replay", tag)

    def npz(compress):
        f = os.path.join(d, "inst_%d.npz" % compress)
        save_tensordict_to_npz(td, f, compress=compress)
        return real, load_npz_to_tensordict(f)

    for compress in (False, True):
        yield "npz(compress=%s)" % compress, "same", (lambda c=compress: npz(c)), allrows
    if ad.name == "cvrp":
        # a dataset file in the generate_data format: raw integer demands and the capacity on disk, CVRPEnv.load_data
        # normalises (once); the environment then works with vehicle capacity 1.  Capacities that are powers of two
        # keep the normalised demands exact.
        from rl4co.envs import CVRPEnv

        rows = [k for k, i in enumerate(group) if i["cap"] & (i["cap"] - 1) == 0]

        def dataset():
            # every instance twice: as it is, and with demands AND capacity doubled (the same normalised instance), so
            # that the file carries DIFFERENT capacities per instance (merged datasets)
            sub = td[torch.tensor(rows + rows)]
            f = os.path.join(d, "vrp_raw.npz")
            dem = [group[k]["dem"] for k in rows] + [[2 * x for x in group[k]["dem"]] for k in rows]
            cap = [group[k]["cap"] for k in rows] + [2 * group[k]["cap"] for k in rows]
            np.savez(f, depot=sub["depot"].numpy(), locs=sub["locs"].numpy(),
                     demand=np.array(dem, dtype=np.float32), capacity=np.array(cap, dtype=np.float32))
            return CVRPEnv(generator_params={"num_loc": group[0]["N"]}, check_solution=False), CVRPEnv.load_data(f)

        if rows:
            yield "dataset file + CVRPEnv.load_data", "same", dataset, rows + rows
    if ad.name in ("fjsp", "jssp"):
        for route in ("load_data", "file_generator"):
            yield "text files + " + route, "text", \
                (lambda r=route: text_roundtrip(real, td, fresh_dir("replay", tag, "txt_" + r), r)), allrows
        # directories holding a single instance (dataset size 1: no padding at all)
        for k in allrows[:2]:
            yield "text file (single) + load_data", "text", \
                (lambda k=k: text_roundtrip(real, td[k:k + 1], fresh_dir("replay", tag, "txt_single_%d" % k), "load_data")), [k]


def attempt(fn, secs=120):
    """run a round trip of the library; (value, None), or (None, what the LIBRARY raised) -- failures of the harness itself
    are not caught"""
    try:
        with time_limit(secs):
            return fn(), None
    except Exception as e:  # noqa: BLE001
        from ..check import crash_site

        where = crash_site(e)
        if where is None:
            raise
        return None, "raised %s at %s: %s" % (type(e).__name__, where, str(e).strip().split("\n")[0][:120])


def failed(kind, what, n, err):
    """records of a round trip that did not come back at all"""
    return records_for(kind, what + " -- round trip " + err, None, None, False, True, False, True,
                       ([[]] * n, [0] * n), ([[-999]] * n, [0] * n))


def family_of(ad, tier, seed, nmax):
    fam = pick([i for i in ad.family(tier, seed)], nmax, random.Random(seed))
    for k, i in enumerate(fam):
        i["id"] = k + 1
    return fam


def replay_env(ad, fam, model, viol, samples, stats):
    """every state TLC printed for the restored copy of Persist_<ENV> against the real restored objects"""
    r, S, T, G = model
    stats["states"] += r.distinct
    stats["transitions"] += r.generated
    stats["coverage"][ad.name] = r.coverage()
    nsteps = nrows = 0

    def bad(monitor, inst, actions, detail, route):
        viol.append({"property": "C19", "env": ad.name, "monitor": monitor,
                     "inst": {k: v for k, v in inst.items() if k not in ("D",)}, "actions": list(actions),
                     "detail": "[%s] %s" % (route, detail)})

    for gk, group in group_by(fam, ad.group_key).items():
        env = ad.make_env(group[0])
        real = getattr(env, "_env", env)
        wrap = (lambda e: type(env)(e)) if real is not env else (lambda e: e)   # noqa: E731
        td = ad.to_td(group)
        tag = "%s_%s" % (ad.name, "_".join(str(x) for x in gk))
        for (route, kind, thunk, rows) in realisations(ad, env, real, td, group, tag):
            res, err = attempt(thunk)
            if err:
                bad("replay-roundtrip", group[rows[0]], [], "the round trip " + err, route)
                continue
            env_r, td_r = res
            if td_r is None:
                bad("replay-content", group[rows[0]], [], "the files written do not come back one instance each", route)
                continue
            # instance content
            if kind == "same" and not route.startswith("dataset"):
                c, d, why = td_compare(td[torch.tensor(rows)], td_r)
                if not (c and d):
                    bad("replay-content", group[rows[0]], [], why, route)
                    continue          # not the instance that was saved: nothing to step
            if kind == "text":
                c, why = sched_content(td[torch.tensor(rows)], td_r)
                if not c:
                    bad("replay-content", group[rows[0]], [], why, route)
                    continue
            pad = int(td_r["proc_times"].shape[-1]) if kind == "text" else 0
            genv = wrap(env_r)
            # forced solutions
            for hi in (False, True):
                seqs, dn, acts, tdf = forced(genv, td_r, hi)
                rew = ad.get_reward(genv, tdf, acts) if acts.shape[1] else None
                for j, k in enumerate(rows):
                    inst = group[k]
                    exp = G.get((inst["id"], kind, pad))
                    if exp is None:
                        bad("replay-padding", inst, [], "restored instance has %d columns: not a padding the "
                            "specification allows" % pad, route)
                        continue
                    eseq, edone, erew = exp[1 if hi else 0]
                    got = ad.scale_reward(float(rew[j]), ad.scale(inst)) if (edone and rew is not None and dn[j]) else 0
                    if seqs[j] != eseq or (edone and got != erew):
                        bad("replay-greedy", inst, seqs[j], "forced %s-action solution %s reward %s, specification %s "
                            "reward %s" % ("highest" if hi else "lowest", seqs[j], got, eseq, erew), route)
            # all terminal behaviours, step by step
            items = []
            for j, k in enumerate(rows):
                for (hist, rew) in T.get((group[k]["id"], kind, pad), []):
                    items.append((j, k, hist, rew))
            for L, batch in group_by(items, lambda it: len(it[2])).items():
                idx = torch.tensor([it[0] for it in batch])
                tdb = genv.reset(td_r[idx].clone())
                dead = [False] * len(batch)
                for t in range(L + 1):
                    am, dn = tdb["action_mask"].reshape(len(batch), -1), done_of(tdb)
                    for q, (j, k, hist, rew) in enumerate(batch):
                        if dead[q]:
                            continue
                        inst = group[k]
                        em, ed = S[(inst["id"], kind, pad, tuple(hist[:t]))]
                        gm, gd = mask_list(am[q]), bool(dn[q])
                        nsteps += 1
                        if gm != em:
                            bad("replay-mask", inst, hist[:t], "restored object offers %s after %s, specification %s"
                                % (gm, hist[:t], em), route)
                            dead[q] = True
                        elif gd != ed:
                            bad("replay-done", inst, hist[:t], "restored object done=%s after %s, specification %s"
                                % (gd, hist[:t], ed), route)
                            dead[q] = True
                    if t == L:
                        break
                    tdb.set("action", torch.tensor([it[2][t] for it in batch], dtype=torch.long))
                    tdb = genv.step(tdb)["next"]
                acts = torch.tensor([it[2] for it in batch], dtype=torch.long)
                rew = ad.get_reward(genv, tdb, acts)
                for q, (j, k, hist, erew) in enumerate(batch):
                    nrows += 1
                    if dead[q]:
                        continue
                    got = ad.scale_reward(float(rew[q]), ad.scale(group[k]))
                    if got != erew:
                        bad("replay-reward", group[k], hist, "restored object reports %s (units 1/%s), specification %s"
                            % (got, ad.scale(group[k]), erew), route)
    stats["replayed_steps"] += nsteps
    stats["replayed_behaviours"] += nrows
    stats["per_env"][ad.name] = {"instances": len(fam), "states": r.distinct, "replayed_behaviours": nrows}
    k0 = next(iter(T))
    samples.append({"env": ad.name, "instance": {k: v for k, v in fam[k0[0] - 1].items() if k not in ("D", "pts")},
                    "codec": k0[1], "pad": k0[2], "spec_behaviour": T[k0][0][0], "spec_reward": T[k0][0][1]})


def replay_adapters(tier):
    from ..envs import cvrp, fjsp, tsp

    ads = [(cvrp.CVRP(), 14 if tier == "quick" else 80), (tsp.TSP(), 4 if tier == "quick" else 10),
           (fjsp.FJSP(), 10 if tier == "quick" else 50), (fjsp.JSSP(), 10 if tier == "quick" else 50)]
    if tier != "quick":
        import importlib

        for mod, cls, n in (("atsp", "ATSP", 10), ("pdp", "PDP", 10), ("op", "OP", 30), ("pctsp", "PCTSP", 30),
                            ("sdvrp", "SDVRP", 30), ("mtsp", "MTSP", 20), ("cvrptw", "CVRPTW", 30),
                            ("smtwtp", "SMTWTP", 20)):
            try:
                ads.append((getattr(importlib.import_module("harness.envs." + mod), cls)(), n))
            except (ImportError, AttributeError):
                pass
    return ads


# ---------------------------------------------------------------------------------------------
# (3) recorded round trips of the real code
# ---------------------------------------------------------------------------------------------
def rec_npz(tier, seed, recs, notes):
    """(route 1) save_tensordict_to_npz / load_npz_to_tensordict for the instances of every generator"""
    from rl4co.data.utils import load_npz_to_tensordict, save_tensordict_to_npz

    d = fresh_dir("npz")
    quick = tier == "quick"
    names = offline_envs()
    n = 0
    for name in names:
        cfgs = [SMALL.get(name, {})] + ([LARGER[name]] if (not quick and name in LARGER) else [])
        for ci, params in enumerate(cfgs):
            for size in ((1, 3) if quick else (1, 2, 5)):
                for compress in ((False,) if quick else (False, True)):
                    env = make_env(name, params, seed=seed + 11)
                    with torch.random.fork_rng():
                        torch.manual_seed(seed * 97 + size + ci)
                        td = env.generator([size])
                    f = os.path.join(d, "%s_%d_%d_%d.npz" % (name, ci, size, compress))
                    back, err = attempt(lambda: (save_tensordict_to_npz(td, f, compress=compress), load_npz_to_tensordict(f))[1])
                    if err:
                        recs += failed("npz", "%s %s size=%d compress=%s" % (name, params, size, compress), size, err)
                        continue
                    c, dt, why = td_compare(td, back)
                    if set(back.keys()) != set(td.keys()) or back.batch_size != td.batch_size:
                        c, why = False, why + " keys/batch size %s %s" % (sorted(back.keys()), back.batch_size)
                    what = "%s %s size=%d compress=%s %s" % (name, params, size, compress, why)
                    if "action_mask" in env.reset(td.clone()).keys():
                        recs += side_by_side("npz", what, env, td, env, back, c, dt, True, True, seed)
                    else:   # improvement environments: no mask-driven episode; content only
                        recs += records_for("npz", what, None, None, c, dt, True, True, ([[]] * size, [0] * size),
                                            ([[]] * size, [0] * size))
                    n += 1
    # a TensorDict with keys of SEVERAL dtypes (float64, float16, int32, int8, bool next to float32 / int64): a codec that
    # normalises dtypes changes values the generators (float32 / int64 only) never show
    from tensordict import TensorDict as _TD
    for size in (1, 4):
        g = torch.Generator().manual_seed(seed + size)
        base = torch.rand(size, 5, 2, generator=g, dtype=torch.float64)
        td = _TD({"locs": base.float(), "precise": base + 1e-12, "half": base[..., 0].half(), "count": torch.arange(size * 5, dtype=torch.int32).view(size, 5),
                  "small": torch.arange(size, dtype=torch.int8), "flag": base[..., 1] > 0.5, "idx": torch.arange(size)}, batch_size=[size])
        f = os.path.join(d, "mixed_dtypes_%d.npz" % size)
        back, err = attempt(lambda: (save_tensordict_to_npz(td, f), load_npz_to_tensordict(f))[1])
        if err:
            recs += failed("npz", "TensorDict with keys of several dtypes, size=%d" % size, size, err)
            continue
        c, dt, why = td_compare(td, back)
        recs += records_for("npz", "TensorDict with keys of several dtypes, size=%d %s" % (size, why), None, None, c, dt, True, True,
                            ([[]] * size, [0] * size), ([[]] * size, [0] * size))
        n += 1
    # observation only (a route C19 does not name): generator instances saved with save_tensordict_to_npz are NOT what
    # CVRPEnv.load_data expects (it divides by the capacity once more, and the generator's capacity is [B, 1])
    env = make_env("cvrp", seed=seed + 3)
    td = env.generator([3])
    f = os.path.join(d, "cvrp_generator_instances.npz")
    save_tensordict_to_npz(td, f)
    try:
        back = env.load_data(f)
        notes["cvrp generator instances -> save_tensordict_to_npz -> CVRPEnv.load_data"] = {
            "saved demand": list(td["demand"].shape), "loaded demand": list(back["demand"].shape),
            "max saved": float(td["demand"].max()), "max loaded": float(back["demand"].max())}
    except Exception as e:  # noqa: BLE001
        notes["cvrp generator instances -> save_tensordict_to_npz -> CVRPEnv.load_data"] = "raised %s" % type(e).__name__
    # MTVRP has its own loader (scale=False leaves the file as it is)
    env = make_env("mtvrp", seed=seed + 3)
    td = env.generator([3])
    f = os.path.join(d, "mtvrp_loader.npz")
    back, err = attempt(lambda: (save_tensordict_to_npz(td, f), env.load_data(f))[1])
    if err:
        recs += failed("npz", "mtvrp save_tensordict_to_npz + MTVRPEnv.load_data", 3, err)
        return n + 1
    c, dt, why = td_compare(td, back)
    recs += side_by_side("npz", "mtvrp save_tensordict_to_npz + MTVRPEnv.load_data %s" % why, env, td, env, back, c, dt,
                         True, True, seed)
    return n + 1


GEN_CASES = [  # problem name of generate_data, environment, graph size, distribution
    ("tsp", "tsp", 7, None), ("vrp", "cvrp", 10, None), ("pctsp", "pctsp", 20, None), ("pctsp", "spctsp", 20, None),
    ("op", "op", 20, "const"), ("op", "op", 20, "unif"), ("op", "op", 20, "dist"), ("pdp", "pdp", 6, None),
    ("atsp", "atsp", 5, None)]
GEN_CASES_MORE = [("tsp", "tsp", 20, None), ("vrp", "cvrp", 20, None), ("vrp", "cvrp", 15, None), ("pdp", "pdp", 10, None),
                  ("atsp", "atsp", 8, None), ("op", "op", 50, "dist"), ("pctsp", "pctsp", 50, None)]


VRP_CAPACITY = {10: 20.0, 15: 25.0, 20: 30.0, 30: 33.0, 40: 37.0, 50: 40.0}     # Kool et al. 2019 (documented in generate_vrp_data)


def in_memory_equivalent(problem, arrays):
    """what the dataset means, written down independently of the loaders: the arrays as generated; for the VRP the
    demands are given in units of the vehicle capacity (the environment works with capacity 1)"""
    a = {k: torch.from_numpy(np.array(v)) for k, v in arrays.items()}
    if problem == "vrp":
        a["demand"] = a["demand"] / a["capacity"].reshape(-1, 1)
    n = next(iter(a.values())).shape[0]
    return TensorDict(a, batch_size=[n])


def rec_dataset(tier, seed, recs):
    """(route 2) generate_data -> file -> env.load_data -> env.reset, against the equivalent in-memory instance"""
    from rl4co.data.generate_data import generate_dataset, generate_env_data

    d = fresh_dir("gen")
    quick = tier == "quick"
    n = 0
    for (problem, envname, size, dist) in GEN_CASES + ([] if quick else GEN_CASES_MORE):
        for dsize in ((1, 3) if quick else (1, 2, 6)):
            for how in (("data_dir",) if quick else ("data_dir", "filename")):
                s = 4321 + seed + dsize
                label = "%s generate_dataset(%s,%s,size=%d,n=%d,%s)" % (envname, problem, dist, size, dsize, how)
                if how == "data_dir":
                    generate_dataset(data_dir=d, name="c19n%d" % dsize, problem=problem, data_distribution=dist or "all",
                                     dataset_size=dsize, graph_sizes=[size], overwrite=True, seed=s)
                    fn = os.path.join(d, problem, "%s%s%d_c19n%d_seed%d.npz" % (problem, "_" + dist if dist else "", size,
                                                                              dsize, s))
                else:
                    fn = os.path.join(d, "byname", "%s_%s_%d_%d.npz" % (problem, dist, size, dsize))
                    generate_dataset(filename=fn, problem=problem, data_distribution=dist or "all",
                                     dataset_size=dsize, graph_sizes=[size], overwrite=True, seed=s)
                np.random.seed(s)
                arrays = generate_env_data(problem, dsize, size, dist)
                td_o = in_memory_equivalent(problem, arrays)
                env = make_env(envname, {"num_loc": size}, seed=seed + 5)
                td_r, err = attempt(lambda: env.load_data(fn))
                if err:
                    recs += failed("dataset", label + " + %s.load_data" % type(env).__name__, dsize, err)
                    continue
                c, dt, why = td_compare(td_o, td_r)
                if td_r.batch_size != td_o.batch_size:
                    c, why = False, why + " batch size %s" % (td_r.batch_size,)
                if problem == "vrp" and c:
                    # what generate_data documents for the VRP, independently of both loaders: integer demands 1..9 and
                    # one capacity from the table of Kool et al. -- the loaded demands are those, in units of the capacity
                    raw = td_r["demand"].double() * td_r["capacity"].double().reshape(-1, 1)
                    if not bool(((raw - raw.round()).abs() < 1e-4).all() and (raw.round() >= 1).all() and (raw.round() <= 9).all()
                                and (td_r["capacity"] == VRP_CAPACITY[size]).all()):
                        c, why = False, why + " loaded demand x capacity %s is not the documented integer 1..9" % raw[0].tolist()[:4]
                what = "%s + %s.load_data %s" % (label, type(env).__name__, why)
                recs += side_by_side("dataset", what, env, td_o, env, td_r, c, dt, True, True, seed)
                n += 1
                # the same path read a SECOND time (Lightning's setup reads a file once per stage) gives the same instances
                td_r2, err = attempt(lambda: env.load_data(fn))
                if err:
                    recs += failed("dataset", label + " + second %s.load_data of the same file" % type(env).__name__, dsize, err)
                else:
                    c2, dt2, why2 = td_compare(td_o, td_r2)
                    recs += side_by_side("dataset", "%s + SECOND %s.load_data of the same file %s" % (label, type(env).__name__, why2),
                                         env, td_o, env, td_r2, c2, dt2, True, True, seed)
                    n += 1
    # a file OVERWRITTEN under the same name reads back as its new content
    for (problem, envname, size, dist) in GEN_CASES[:2]:
        fn = os.path.join(d, "overwritten", "%s_%s_%d.npz" % (problem, dist, size))
        env = make_env(envname, {"num_loc": size}, seed=seed + 5)
        for k, s in enumerate((777 + seed, 888 + seed)):
            generate_dataset(filename=fn, problem=problem, data_distribution=dist or "all", dataset_size=2, graph_sizes=[size],
                             overwrite=True, seed=s)
            np.random.seed(s)
            td_o = in_memory_equivalent(problem, generate_env_data(problem, 2, size, dist))
            label = "%s file %s (seed %d)" % (envname, "written" if k == 0 else "OVERWRITTEN under the same name", s)
            td_r, err = attempt(lambda: env.load_data(fn))
            if err:
                recs += failed("dataset", label + " + load_data", 2, err)
                continue
            c, dt, why = td_compare(td_o, td_r)
            recs += side_by_side("dataset", label + " + %s.load_data %s" % (type(env).__name__, why), env, td_o, env, td_r, c, dt,
                                 True, True, seed)
            n += 1
    return n


def rec_text(tier, seed, recs, viol):
    """(route 3) FJSP / JSSP instances -> text files -> instances (FJSPFileGenerator / JSSPFileGenerator, load_data)"""
    quick = tier == "quick"
    n = 0
    cfgs = {"fjsp": [SMALL["fjsp"]] + ([] if quick else [LARGER["fjsp"], {"num_jobs": 2, "num_machines": 4,
                                                                            "min_ops_per_job": 1, "max_ops_per_job": 5}]),
            "jssp": [SMALL["jssp"]] + ([] if quick else [LARGER["jssp"],
                                                          {"num_jobs": 3, "num_machines": 2, "min_ops_per_job": 1,
                                                           "max_ops_per_job": 4, "one2one_ma_map": False,
                                                           "max_processing_time": 6}])}
    for name in ("fjsp", "jssp"):
        for ci, params in enumerate(cfgs[name]):
            for size in ((1, 4) if quick else (1, 2, 7)):
                for mask_no_ops in ((True,) if quick else (True, False)):
                    for route in ("load_data", "file_generator"):
                        env = make_env(name, params, seed=seed + 13)
                        env.mask_no_ops = mask_no_ops
                        with torch.random.fork_rng():
                            torch.manual_seed(seed * 31 + size + 7 * ci)
                            td = env.generator([size])
                        where = fresh_dir("text", "%s_%d_%d_%s" % (name, ci, size, route))
                        what = "%s %s n=%d mask_no_ops=%s text files + %s" % (name, params, size, mask_no_ops, route)
                        res, err = attempt(lambda: text_roundtrip(env, td, where, route))
                        if err:
                            recs += failed("text", what, size, err)
                            continue
                        env_r, td_r = res
                        if route == "load_data" and ci == 0 and mask_no_ops:
                            # the loader as every other environment's is called: load_data(path), batch_size left at its default
                            try:
                                env.load_data(where)
                            except Exception as e:  # noqa: BLE001
                                from ..check import crash_site

                                if crash_site(e) is None:
                                    raise
                                viol.append({"property": "C19", "env": name, "monitor": "library-raised",
                                             "cls": "load_data-default-batch_size",
                                             "inst": {"files": size, "where": crash_site(e), "call": "env.load_data(path)"},
                                             "actions": [], "detail": "%s.load_data(<directory of %d instance files>) with the "
                                             "default batch_size=[] raised %s: %s" % (type(env).__name__, size,
                                                                                       type(e).__name__, str(e)[:120])})
                        if td_r is None:
                            recs += records_for("text", what + " (files do not come back one instance each)", None, None,
                                                False, True, False, True, ([[]] * size, [0] * size), ([[]] * size, [0] * size))
                            continue
                        c, why = sched_content(td, td_r)
                        recs += side_by_side("text", what + " " + why, env, td, env_r, td_r, c, True, False, True, seed,
                                             n_eps=2)
                        n += 1
    return n


def plain_state(obj):
    out = {}
    for k, v in vars(obj).items():
        if isinstance(v, (int, float, str, bool, type(None))):
            out[k] = v
        elif isinstance(v, (list, tuple)) and all(isinstance(x, (int, float, str, bool, type(None))) for x in v):
            out[k] = list(v)
        elif isinstance(v, torch.Tensor):
            out[k] = v.tolist()
    return out


def rec_envcopy(tier, seed, recs):
    """(route 4) copy.deepcopy(env) / pickle of every environment class, incl. the random generator state"""
    quick = tier == "quick"
    n = 0
    cases = [(name, None) for name in offline_envs()]
    if not quick:
        cases += [(name, LARGER[name]) for name in LARGER]
    # an environment reading instance files (the generator keeps a cursor)
    fenv = make_env("fjsp", seed=seed + 1)
    from rl4co.envs.scheduling.fjsp.parser import write

    fdir = fresh_dir("envcopy_fjsp_files")
    write(fdir, fenv.reset(fenv.generator([12])))   # enough files: the cursor never reaches the end
    cases.append(("fjsp", {"file_path": fdir}))
    cases.append(("tsp_dense", None))
    if not quick:
        try:    # DPP / MDPP on the synthetic chip data of the environment pipeline
            from ..envs import dpp

            for A in (dpp.DPP, dpp.MDPP):
                ad = A()
                cases.append((ad.name, (lambda ad=ad: ad.make_env(ad.family("quick", 0)[0]))))
        except ImportError:
            pass
    for (name, params) in cases:
        for how in ("deepcopy", "pickle"):
            for advance in ((1,) if quick else (0, 1)):
                env = make_env(name, params, seed=seed + 17)
                for _ in range(advance):
                    env.reset(batch_size=[2])       # the generator state has moved on since construction
                B = 2 if quick else 3
                snap = lambda e: (plain_state(e), plain_state(e.generator))   # noqa: E731
                label = "%s %s(%s) %s after %d resets" % (name, type(env).__name__, "" if callable(params) else (params or ""),
                                                             how, advance)

                def restored(make):
                    e = make()
                    return e, snap(e), e.generator([B]), e.reset(batch_size=[2])

                if how == "pickle":
                    ps_o = snap(env)
                    blob, err = attempt(lambda: pickle.dumps(env))
                    nxt = env.generator([B])        # what the original produces next
                    nxt2 = env.reset(batch_size=[2])
                    if not err:                     # restores the generator state of the moment of pickling
                        res, err = attempt(lambda: restored(lambda: pickle.loads(blob)))
                else:
                    st = torch.get_rng_state()
                    cur = getattr(env.generator, "start_idx", None)
                    nxt = env.generator([B])
                    nxt2 = env.reset(batch_size=[2])
                    torch.set_rng_state(st)         # back to the moment of copying
                    if cur is not None:
                        env.generator.start_idx = cur
                    ps_o = snap(env)
                    res, err = attempt(lambda: restored(lambda: copy.deepcopy(env)))
                if err:
                    recs += failed("envcopy", label, B, err)
                    n += 1
                    continue
                env_r, ps_r, got, got2 = res
                r1, _, w1 = td_compare(nxt, got)
                r2, _, w2 = td_compare(nxt2, got2)
                c = ps_o == ps_r
                what = "%s %s %s" % (label, w1, w2)
                if "action_mask" in nxt2.keys():
                    recs += side_by_side("envcopy", what, env, nxt, env_r, nxt, c, True, True, r1 and r2, seed)
                else:
                    recs += records_for("envcopy", what, None, None, c, True, True, r1 and r2,
                                        ([[]] * B, [0] * B), ([[]] * B, [0] * B))
                n += 1
    return n


# ---- checkpoints ---------------------------------------------------------------------------
def ckpt_cases(tier):
    quick = tier == "quick"
    # (POMO: a multi-start model -- its policy carries "multistart_..." decode types that must survive the round trip)
    cases = [("REINFORCE", "rollout", "tsp"), ("REINFORCE", "exponential", "cvrp"), ("POMO", "shared", "tsp")]
    if not quick:
        # (baseline="rollout_only" cannot be trained at all: wrap_dataset runs before the baseline is set up)
        cases += [("REINFORCE", "no", "tsp"), ("REINFORCE", "mean", "tsp"), ("REINFORCE", "critic", "tsp"),
                  ("REINFORCE", "rollout-instance", "tsp"), ("AttentionModel", "rollout", "cvrp"),
                  ("AttentionModel", "exponential", "op"), ("POMO", "shared", "cvrp")]
    return cases


def build_module(cls, baseline, envname, seed):
    from rl4co.models import POMO, AttentionModel, AttentionModelPolicy
    from rl4co.models.rl import REINFORCE

    env = make_env(envname, {"num_loc": 6}, seed=seed + 3)
    env.check_solution = True
    kw = dict(batch_size=4, train_data_size=8, val_data_size=4, test_data_size=4, optimizer_kwargs={"lr": 1e-2})
    pk = dict(embed_dim=16, num_encoder_layers=1, num_heads=2, feedforward_hidden=16)
    if cls == "REINFORCE":
        if baseline == "critic":
            pk = dict(num_encoder_layers=1, num_heads=2, feedforward_hidden=16)   # create_critic_from_actor assumes the default width
        pol = AttentionModelPolicy(env_name=envname, **pk)
        if baseline == "rollout-instance":      # a baseline OBJECT among the hyper-parameters: pickled into the checkpoint
            from rl4co.models.rl.reinforce.baselines import RolloutBaseline, WarmupBaseline

            baseline = WarmupBaseline(RolloutBaseline(), n_epochs=1)
        return REINFORCE(env, pol, baseline=baseline, **kw)
    if cls == "AttentionModel":
        return AttentionModel(env, baseline=baseline, policy_kwargs=pk, **kw)
    return POMO(env, policy_kwargs=pk, num_augment=8, **kw)


def load_ckpt(cls, path, load_baseline, force):
    """the documented way back: Model.load_from_checkpoint(path, load_baseline=...); `weights_only=False` is handed
    through to Lightning (the checkpoint holds the pickled environment and policy among its hyper-parameters).
    force: additionally lift torch.load's weights-only default for the whole process (second attempt only)"""
    import rl4co.models as zoo
    from rl4co.models.rl import REINFORCE

    C = REINFORCE if cls == "REINFORCE" else getattr(zoo, cls)
    old = os.environ.get("TORCH_FORCE_NO_WEIGHTS_ONLY_LOAD")
    if force:
        os.environ["TORCH_FORCE_NO_WEIGHTS_ONLY_LOAD"] = "1"
    try:
        return C.load_from_checkpoint(path, load_baseline=load_baseline, weights_only=False)
    finally:
        if force:
            if old is None:
                os.environ.pop("TORCH_FORCE_NO_WEIGHTS_ONLY_LOAD", None)
            else:
                os.environ["TORCH_FORCE_NO_WEIGHTS_ONLY_LOAD"] = old


def sd_equal(a, b):
    sa, sb = a.state_dict(), b.state_dict()
    if set(sa) != set(sb):
        return False, "state_dict keys differ: %s" % sorted(set(sa) ^ set(sb))[:3]
    for k in sa:
        if not tensors_equal(sa[k], sb[k]) or sa[k].dtype != sb[k].dtype:
            return False, "parameter %s differs" % k
    for k in ("train_decode_type", "val_decode_type", "test_decode_type"):
        if getattr(a, k, None) != getattr(b, k, None):
            return False, "%s %r became %r" % (k, getattr(a, k, None), getattr(b, k, None))
    return True, ""


def policy_solutions(pol, env, td):
    """greedy solutions, and the solutions of the policy's OWN test-phase decoding (its stored decode type, e.g.
    multistart_greedy for POMO), both as (actions, reward bits) per row of the output"""
    pol.eval()
    with torch.no_grad():
        out = pol(env.reset(td.clone()), env, decode_type="greedy")
        own = pol(env.reset(td.clone()), env, phase="test")
    B = td.batch_size[0]
    acts = [[int(x) for x in out["actions"][b].reshape(-1).tolist()] for b in range(B)]
    rews = [bits(x) for x in out["reward"].reshape(-1).tolist()]
    # the own-phase output may have several rows per instance (multi-start): rows b, b + B, ... belong to instance b
    for b in range(B):
        rows = list(range(b, own["actions"].shape[0], B))
        acts[b] = acts[b] + [-1] + [int(x) for r in rows for x in own["actions"][r].reshape(-1).tolist()] \
            + [-2] + [bits(float(own["reward"][r])) for r in rows]
    return acts, rews


def rollout_policy_of(bl):
    from rl4co.models.rl.reinforce.baselines import RolloutBaseline, WarmupBaseline

    if isinstance(bl, WarmupBaseline):
        bl = bl.baseline
    return bl.policy if isinstance(bl, RolloutBaseline) and hasattr(bl, "policy") else None


def rec_ckpt(tier, seed, recs, viol, notes):
    """(route 5) a Lightning checkpoint written by a real (tiny) training run, restored with load_from_checkpoint"""
    from rl4co.utils import RL4COTrainer

    d = fresh_dir("ckpt")
    n = 0
    for (cls, baseline, envname) in ckpt_cases(tier):
        torch.manual_seed(seed + 100 + n)
        mod = build_module(cls, baseline, envname, seed)
        tr = RL4COTrainer(max_epochs=2, devices=1, accelerator="cpu", logger=None, default_root_dir=d,
                          enable_checkpointing=False, enable_progress_bar=False, enable_model_summary=False)
        tr.fit(mod)
        path = os.path.join(d, "%s_%s_%s.ckpt" % (cls, baseline, envname))
        baseline = str(baseline)
        tr.save_checkpoint(path)
        env = mod.env
        with torch.random.fork_rng():
            torch.manual_seed(seed + 5)
            td = env.generator([5])
        sol_o = policy_solutions(mod.policy, env, td)
        blp_o = rollout_policy_of(mod.baseline)
        bsol_o = policy_solutions(blp_o, env, td) if blp_o is not None else None
        if blp_o is not None:
            notes.setdefault("baseline_policy_differs_from_policy", {})["%s/%s" % (cls, baseline)] = \
                not sd_equal(blp_o, mod.policy)[0]
        for lb in (False, True):
            what = "checkpoint %s(baseline=%s) on %s, load_from_checkpoint(load_baseline=%s)" % (cls, baseline, envname, lb)
            rest, err = None, None
            for force in (False, True):
                try:
                    with torch.random.fork_rng():
                        rest = load_ckpt(cls, path, lb, force)
                    break
                except Exception as e:  # noqa: BLE001
                    from ..check import crash_site

                    where = crash_site(e)
                    if where is None:
                        raise
                    if not force:
                        err = (where, "%s: %s" % (type(e).__name__, str(e).strip().split("\n")[0][:200]))
                        viol.append({"property": "C19", "env": "checkpoint", "monitor": "library-raised",
                                     "cls": "load_baseline=%s" % lb,
                                     "inst": {"model": cls, "baseline": baseline, "env": envname, "load_baseline": lb,
                                              "where": where, "torch": torch.__version__},
                                     "actions": [], "detail": "%s raised %s at %s" % (what, err[1], where)})
                    else:
                        rest = None
            if rest is None:
                continue
            ok, why = sd_equal(mod.policy, rest.policy)
            sol_r = policy_solutions(rest.policy, rest.env, td)
            recs += records_for("ckpt", what + " policy " + why + (" [after lifting torch.load's weights-only default]"
                                                                   if err else ""),
                                None, None, ok, True, True, True, sol_o, sol_r)
            if lb and blp_o is not None:
                blp_r = rollout_policy_of(rest.baseline)
                if blp_r is None:
                    recs += records_for("ckpt", what + " rollout-baseline policy missing after restore", None, None,
                                        False, True, True, True, bsol_o, ([[]] * 5, [0] * 5))
                else:
                    ok, why = sd_equal(blp_o, blp_r)
                    recs += records_for("ckpt", what + " rollout-baseline policy " + why, None, None, ok, True, True, True,
                                        bsol_o, policy_solutions(blp_r, rest.env, td))
            # baseline STATE that is not a policy: reported, not demanded by C19
            st = {}
            for nm, o, r_ in (("warmup alpha", getattr(mod.baseline, "alpha", None), getattr(rest.baseline, "alpha", None)),
                              ("exponential v", getattr(mod.baseline, "v", None), getattr(rest.baseline, "v", None))):
                if o is not None or r_ is not None:
                    st[nm] = {"original": None if o is None else float(o), "restored": None if r_ is None else float(r_)}
            if st:
                notes.setdefault("baseline_state_after_restore", {})[what] = st
        n += 1
    return n


# ---------------------------------------------------------------------------------------------
def run(tier, seed):
    t0 = time.time()
    logging.disable(logging.WARNING)
    os.makedirs(OUTD, exist_ok=True)
    torch.set_num_threads(1)        # tiny tensors only: intra-op threads just fight for the (shared) cores
    viol, samples, recs, notes = [], [], [], {}
    stats = {"states": 0, "transitions": 0, "replayed_steps": 0, "replayed_behaviours": 0, "coverage": {}, "per_env": {}}
    # ---- (1) + (2) the specification and its replay ----
    import concurrent.futures as cf

    ads = replay_adapters(tier)
    fams = [family_of(ad, tier, seed, nmax) for ad, nmax in ads]
    with cf.ThreadPoolExecutor(max_workers=4) as ex:     # the TLC runs side by side, 4 workers each
        lossy = [ex.submit(run_model, ads[k][0], ads[k][0].name + "_lossy", fams[k][:6], 2, "lossy") for k in (0, 2)]
        models = list(ex.map(lambda k: run_model(ads[k][0], ads[k][0].name, fams[k], workers=4), range(len(ads))))
        notes["model_self_test"] = {ads[k][0].module: "lossy codec violates " + ", ".join(f.result().violated)
                                    for k, f in zip((0, 2), lossy)}
    t_model = time.time() - t0
    for (ad, _), fam, model in zip(ads, fams, models):
        t1 = time.time()
        replay_env(ad, fam, model, viol, samples, stats)
        stats["per_env"][ad.name]["wall_replay_s"] = round(time.time() - t1, 1)
    t_replay = time.time() - t0
    # ---- (3) recorded round trips ----
    counts = {}
    torch.manual_seed(seed)
    counts["npz"] = rec_npz(tier, seed, recs, notes)
    counts["dataset"] = rec_dataset(tier, seed, recs)
    counts["text"] = rec_text(tier, seed, recs, viol)
    counts["envcopy"] = rec_envcopy(tier, seed, recs)
    counts["ckpt"] = rec_ckpt(tier, seed, recs, viol, notes)
    t_rec = time.time() - t0 - t_replay
    fails, drifts, st, _ = validate_records("PersistTrace", recs, TRACE_INV, "c19", per_shard=400)
    for j in drifts:
        print("MODEL-DRIFT C19: record %d (%s): an action was played that the original did not offer" % (j, recs[j]["what"]))
    seen = set()
    for f in fails:
        rec = recs[f[0]]
        key = (f[0], f[1])
        if key in seen:
            continue
        seen.add(key)
        envn = rec["what"].split(" ")[0].split("(")[0]
        viol.append({"property": "C19", "env": envn, "monitor": f[1], "cls": rec["kind"],
                     "inst": {"kind": rec["kind"], "what": rec["what"], "row": rec["row"]},
                     "actions": rec["a"][: f[2]],
                     "detail": "step %d: original mask %s done %s, restored mask %s done %s; rewards (bits) %s / %s; greedy %s / %s"
                               % (f[2], rec["orig"]["mask"][min(f[2], len(rec["orig"]["mask"]) - 1)],
                                  rec["orig"]["done"][min(f[2], len(rec["orig"]["done"]) - 1)],
                                  rec["rest"]["mask"][min(f[2], len(rec["rest"]["mask"]) - 1)],
                                  rec["rest"]["done"][min(f[2], len(rec["rest"]["done"]) - 1)],
                                  rec["orig"]["reward"], rec["rest"]["reward"], rec["greedy_o"], rec["greedy_r"])})
    # data routing (Routing.tla): the content a phase reads from a file is what was saved there
    from . import c17b_routing
    rt_viol, rt_cov = c17b_routing.violations(tier, seed)
    viol += [v for v in rt_viol if v["property"] == "C19"]
    stats["states"] += rt_cov["states"]
    stats["transitions"] += rt_cov["transitions"]
    n_new, n_known = verdict.report("C19", viol)
    samples.append({"real_record": {k: recs[0][k] for k in ("kind", "what", "a", "orig")}})
    samples.append({"real_record": {k: recs[-1][k] for k in ("kind", "what", "greedy_o", "greedy_r", "content_equal")}})
    cov = {"states": stats["states"] + st, "transitions": stats["transitions"],
           "traces_validated_against_impl": stats["replayed_behaviours"] + len(recs),
           "samples": samples, "exhaustive": True,
           "replayed_model_behaviours": stats["replayed_behaviours"], "replayed_model_steps": stats["replayed_steps"],
           "recorded_rows": len(recs), "recorded_round_trips": counts,
           "records_by_kind": {k: sum(1 for r in recs if r["kind"] == k) for k in ("npz", "dataset", "text", "envcopy", "ckpt")},
           "per_env": stats["per_env"], "tlc_action_coverage": stats["coverage"], "known_finding_witnesses": n_known,
           "observations": notes, "wall_model_s": round(t_model, 1), "wall_replay_s": round(t_replay - t_model, 1), "wall_record_s": round(t_rec, 1),
           "explanation": "Persist.tla (original and restored copy of the environment model, codecs same / text) model-checked "
                          "for small-scope families; every printed state of the restored copy replayed into the real "
                          "restored objects; recorded real round trips validated by PersistTrace.tla"}
    verdict.write_evidence("C19", tier, seed, "model_checking", cov,
                           ["exact float32 embedding of the integer instances of the replay (harness/embed.py); dataset-file "
                            "replay restricted to capacities that are powers of two",
                            "recorded round trips compare original and restored object bit for bit (same code, same data)",
                            "FJSP/JSSP files come back in os.listdir order: rows are matched by file name",
                            "JSSP has no writer in rl4co: files are written by the harness in the format its parser documents",
                            "DPP/MDPP need downloaded data: not constructible offline",
                            "checkpoint loading is attempted as documented (weights_only=False handed to Lightning); baseline state "
                            "that is not a policy (warm-up alpha, exponential mean) is reported under observations, not demanded"],
                           time.time() - t0, n_new)
    return 1 if n_new else 0
