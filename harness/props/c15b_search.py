"""C15b / C12 (growth) -- the TRANSDUCTIVE (test-time) SEARCH methods of rl4co: ActiveSearch and EAS / EASEmb / EASLay
(rl4co/models/zoo/active_search/search.py, rl4co/models/zoo/eas/search.py, rl4co/models/common/transductive/base.py).

spec/search/Search.tla is the search protocol as one state machine (Setup, BatchStart, Iteration, BatchEnd, End) over a
CATALOGUE of real solutions of a small real data set (exact lattice instances of TSP / CVRP; every catalogue entry is a
feasible action sequence with its integer objective, computed by the harness from the problem definition, not by rl4co).
(a) TLC model-checks it for all runs of a small scope (which catalogue solution every rollout of every iteration takes,
    where the run time limit stops the search) with the properties as invariants; EVERY complete run is replayed into the
    REAL ActiveSearch / EAS classes on the real TSPEnv / CVRPEnv: a table policy (stub decoder plugged into the real
    ConstructivePolicy; it recognises the instance of a row by its CONTENT) plays the planned solutions, the real
    environment prices them, the real search code keeps its incumbents and buffers; the projected state (incumbent rewards /
    solutions, data-set level buffers, optimiser steps) is compared with the specification's after every action;
(b) the same executions, and real RL4COTrainer.fit runs with a small real AttentionModelPolicy on random instances
    (observed through wrappers installed from here: env.get_reward tap, log_dict tap, Lightning callback), are written as
    iteration-level traces and validated by TLC against spec/search/SearchTrace.tla, which RE-SCORES every rollout and every
    stored solution on the ORIGINAL instance with the problem definitions of spec/env/TSP.tla / CVRP.tla.
`violations(tier, seed)` returns (violations, coverage); property "C15" (best-of-all-rollouts, stored solution achieves the
stored reward, monotone, batches independent) or "C12" (rollouts keep their instance, start nodes, batch offset / layout of
the result buffers)."""
import itertools
import json
import logging
import os
import sys
import time
import warnings

os.environ.setdefault("VERIF_RUN_ID", "%d" % os.getpid())      # private TLC scratch (set by harness/check.py otherwise)
_REPO = os.environ.get("VERIF_REPO", "/repo")
if _REPO not in sys.path:
    sys.path.insert(0, _REPO)

import torch  # noqa: E402
import torch.nn as nn  # noqa: E402
from tensordict import TensorDict  # noqa: E402

from .. import embed, tlc, verdict  # noqa: E402

warnings.filterwarnings("ignore")

SCALE = 32            # integer reward units: 1/32 (lattice templates have grid 16 or 32)
CAP_UNIT = 8          # CVRP demand k -> k/8
NEG = -2000000000     # "-infinity" of the specification (NegInf in Search.tla)
BAD = -777777         # "not a value the specification can produce"

# ----------------------------------------------------------------------------------------------------------------
# the world: a real data set of exact instances + the catalogue of solutions the specification chooses from
# ----------------------------------------------------------------------------------------------------------------
CVRP_DEMANDS = [(1, 2, 3), (2, 1, 1), (3, 1, 2), (1, 1, 2), (2, 2, 1), (1, 3, 1), (2, 3, 2), (1, 2, 1)]
CVRP_CAP = 4


def make_instances(env_name, n):
    """n pairwise distinguishable exact instances with NN = 4 nodes (TSP: 4 cities; CVRP: depot + 3 customers)"""
    out = []
    k = 0
    for rot in range(4):
        for which in range(3):          # the three grid-16 templates
            pts, g = embed.template(4, which, rot)
            D = embed.dist_matrix(pts)
            inst = {"N": 4 if env_name == "tsp" else 3, "D": [[d * (SCALE // g) for d in row] for row in D], "pts": pts, "grid": g}
            if env_name == "cvrp":
                inst["dem"] = list(CVRP_DEMANDS[k % len(CVRP_DEMANDS)])
                inst["cap"] = CVRP_CAP
            out.append(inst)
            k += 1
    keys = set()
    res = []
    for inst in out:
        key = inst_key(inst)
        if key in keys:
            continue
        keys.add(key)
        res.append(inst)
        if len(res) == n:
            break
    assert len(res) == n, "not enough distinct instances"
    for i, inst in enumerate(res):
        inst["id"] = i + 1
    return res


def inst_key(inst):
    return (tuple(tuple(r) for r in inst["D"]), tuple(inst.get("dem", ())))


def to_td(env_name, insts):
    locs = torch.stack([embed.locs_tensor(i["pts"], i["grid"]) for i in insts])
    if env_name == "tsp":
        return TensorDict({"locs": locs}, batch_size=[len(insts)])
    dem = torch.tensor([i["dem"] for i in insts], dtype=torch.float32) / CAP_UNIT
    return TensorDict({"depot": locs[:, 0], "locs": locs[:, 1:], "demand": dem}, batch_size=[len(insts)])


def make_env(env_name, nn_=4):
    from rl4co.envs import CVRPEnv, TSPEnv

    if env_name == "tsp":
        return TSPEnv(generator_params={"num_loc": nn_})
    return CVRPEnv(generator_params={"num_loc": nn_ - 1, "vehicle_capacity": CVRP_CAP / CAP_UNIT})


# ---- the problem definitions in Python (used to BUILD the catalogue; every entry that is played is re-scored by TLC with
# ---- spec/env/TSP.tla / CVRP.tla when the recorded run is validated against SearchTrace.tla: M_RollScore) ----
def objective(env_name, inst, seq):
    D = inst["D"]
    path = list(seq) if env_name == "tsp" else [0] + list(seq)
    return -sum(D[path[i]][path[(i + 1) % len(path)]] for i in range(len(path)))


def all_solutions(env_name, inst, start):
    """every complete mask-confined action sequence that begins with `start` (effective length: ends with the last city)"""
    if env_name == "tsp":
        rest = [v for v in range(inst["N"]) if v != start]
        return [[start] + list(p) for p in itertools.permutations(rest)]
    N, dem, cap = inst["N"], inst["dem"], inst["cap"]
    out = []

    def rec(seq, visited, load):
        if len(visited) == N:
            out.append(list(seq))
            return
        cur = seq[-1] if seq else 0
        for j in range(1, N + 1):
            if j not in visited and load + dem[j - 1] <= cap:
                rec(seq + [j], visited | {j}, load + dem[j - 1])
        if cur != 0:
            rec(seq + [0], visited, 0)

    if start == 0:                       # only the as-coded EAS start rule ever forces the depot as first move
        rec([], frozenset(), 0)
        return [[0] + s for s in out]
    if dem[start - 1] > cap:
        return []
    rec([start], frozenset([start]), dem[start - 1])
    return out


def catalogue(env_name, insts, C):
    """per instance, per start node v (0..NN-1): C candidate solutions [acts, rew]:
    1 = shortest and best, 2 = longest and worst, 3 = a tie with 1 if there is one (else the median)"""
    cat = []
    for inst in insts:
        nn_ = inst["N"] if env_name == "tsp" else inst["N"] + 1
        per = []
        for v in range(nn_):
            sols = all_solutions(env_name, inst, v)
            sc = sorted(((len(s), -objective(env_name, inst, s), s) for s in sols))
            c1 = sc[0]
            c2 = max(sc, key=lambda x: (x[0], x[1], x[2]))
            ties = [x for x in sc if x[2] != c1[2] and x[1] == c1[1] and x[2] != c2[2]]
            mid = [x for x in sc if x[2] not in (c1[2], c2[2])]
            c3 = ties[0] if ties else (mid[len(mid) // 2] if mid else c2)
            per.append([{"acts": c[2], "rew": -c[1]} for c in (c1, c2, c3)[:C]])
        cat.append({"cands": per})
    return cat


class World:
    def __init__(self, env_name, n, C=2):
        self.env_name = env_name
        self.insts = make_instances(env_name, n)
        self.NN = 4
        self.S = self.NN if env_name == "tsp" else self.NN - 1
        self.W = 2 * self.NN
        self.C = C
        self.cat = catalogue(env_name, self.insts, C)
        self.by_key = {inst_key(i): i["id"] for i in self.insts}
        self.td = to_td(env_name, self.insts)

    def json(self):
        return {"env": self.env_name, "NN": self.NN, "S": self.S, "W": self.W, "C": self.C,
                "insts": [{"N": i["N"], "D": i["D"], "dem": i.get("dem", []), "cap": i.get("cap", 0), "cands": c["cands"]}
                          for i, c in zip(self.insts, self.cat)]}

    def iid_of_rows(self, td):
        """data-set index (1-based) of every row of a (possibly augmented, replicated) state -- by CONTENT:
        pairwise distances are invariant under the augmentations; CVRP rows also carry their demands"""
        locs = td["locs"].double()
        d = (locs[:, :, None, :] - locs[:, None, :, :]).norm(dim=-1)
        Dm = torch.round(d * SCALE).long().tolist()
        dem = torch.round(td["demand"].double() * CAP_UNIT).long().tolist() if self.env_name == "cvrp" else None
        out = []
        for r in range(len(Dm)):
            key = (tuple(tuple(x) for x in Dm[r]), tuple(dem[r]) if dem is not None else ())
            out.append(self.by_key.get(key, 0))
        return out


# ----------------------------------------------------------------------------------------------------------------
# the table policy: plays, for every row, the solution the plan prescribes for (instance, start node, occurrence)
# ----------------------------------------------------------------------------------------------------------------
class Director:
    """what the stub policy, the scripted optimiser and the scripted clock share"""

    def __init__(self, world):
        self.world = world
        self.plans = []           # plans[it] = {(iid, start): [acts, ...]} for the batch being searched
        self.rollouts = 0         # rollout batches decoded since the batch started (= iterations)
        self.opt_steps = 0
        self.unplanned = []       # (iteration, iid, start) of rows the plan has no solution for
        self.clock_on = False

    def begin_batch(self, plans):
        self.plans = plans
        self.rollouts = 0

    # scripted clock (replaces the `time` module inside the search modules while the harness drives them)
    def time(self):
        return float(self.rollouts)


def make_policy(world, director):
    from rl4co.models.common.constructive.autoregressive.decoder import AutoregressiveDecoder
    from rl4co.models.common.constructive.base import ConstructivePolicy

    class Cache:
        def __init__(self):
            self.logit_key = torch.zeros(1, 1, 1)

    class Pointer(nn.Module):
        def forward(self, *a, **k):
            raise RuntimeError("the stub decoder does not use its pointer")

    class Dec(AutoregressiveDecoder):
        """logit 0 for the planned action, -60 elsewhere: sampling takes it with probability 1 - 1e-26, and an action FORCED
        on a row (multi-start node, EAS incumbent) keeps a log-probability the library's sanity check (> -1000) accepts"""

        def __init__(self):
            nn.Module.__init__(self)
            self.version = nn.Parameter(torch.zeros(()))
            self.pointer = Pointer()
            self.embed_dim = 2

        def _precompute_cache(self, embeddings, *a, **k):
            return Cache()

        def pre_decoder_hook(self, td, env, hidden=None, num_starts=0):
            return td, env, hidden

        def _assign(self, td):
            it = director.rollouts
            director.rollouts += 1
            plan = director.plans[it] if it < len(director.plans) else {}
            rows = td.shape[0]
            iids = world.iid_of_rows(td)
            cur = td["current_node"].view(rows).tolist()
            seen = {}
            seq = torch.full((rows, 2 * world.W), -1, dtype=torch.long)
            for r in range(rows):
                key = (iids[r], int(cur[r]))
                k = seen.get(key, 0)
                seen[key] = k + 1
                lst = plan.get(key, [])
                if k < len(lst):
                    s = lst[k]
                    seq[r, : len(s)] = torch.tensor(s, dtype=torch.long)
                    seq[r, len(s):] = 0
                else:
                    director.unplanned.append((it, key[0], key[1], k))
            td.set("plan_seq", seq)
            td.set("plan_t", torch.ones(rows, dtype=torch.long))

        def forward(self, td, hidden=None, num_starts=0):
            if "plan_t" not in td.keys():
                self._assign(td)
            mask = td["action_mask"]
            rows, n = mask.shape
            t = td["plan_t"]
            want = td["plan_seq"].gather(1, t.view(rows, 1).clamp(max=td["plan_seq"].shape[1] - 1)).view(rows)
            td.set("plan_t", t + 1)
            # rows without a plan (or past its end): the first feasible action
            fallback = mask.int().argmax(-1)
            ok = (want >= 0) & (want < n)
            ok = ok & mask.gather(1, want.clamp(0, n - 1).view(rows, 1)).view(rows)
            act = torch.where(ok, want.clamp(0, n - 1), fallback)
            logits = torch.full((rows, n), -60.0)
            logits.scatter_(1, act.view(rows, 1), 0.0)
            dep = 0.0 * self.version
            if hidden is not None and hasattr(hidden, "logit_key"):
                dep = dep + 0.0 * hidden.logit_key.sum()            # EASEmb optimises the cached embedding
            lay = getattr(self.pointer, "eas_layer", None)
            if lay is not None:                                      # EASLay optimises the added layer
                dep = dep + 0.0 * lay(torch.zeros(lay.func.W1.shape[0], 1, self.embed_dim)).sum()
            return logits + dep, mask

    class Enc(nn.Module):
        def forward(self, td):
            return None, None

    return ConstructivePolicy(encoder=Enc(), decoder=Dec(), env_name=world.env_name)


class PlanOptimizer(torch.optim.Optimizer):
    """user-defined optimiser (a supported extension point): a step moves the stub's `version` by one"""

    director = None

    def __init__(self, params, **kw):
        super().__init__(list(params) or [torch.zeros((), requires_grad=True)], {})

    def step(self, closure=None):
        d = PlanOptimizer.director
        d.opt_steps += 1
        if d.policy is not None:
            with torch.no_grad():
                d.policy.decoder.version.add_(1.0)
        return None


# ----------------------------------------------------------------------------------------------------------------
# observation of the real objects (wrappers installed from here; nothing in /repo is edited)
# ----------------------------------------------------------------------------------------------------------------
def ival(x, scale=SCALE):
    x = float(x) * scale
    if x != x or abs(x) > 1e9:
        return NEG if x < 0 else BAD
    r = round(x)
    return int(r) if abs(x - r) < 1e-3 else BAD


class FakeTrainer:
    def __init__(self):
        self.should_stop = False
        self.loggers = []
        self.current_epoch = 0


def search_module_of(module):
    import importlib

    return importlib.import_module(type(module).__mro__[[c.__name__ for c in type(module).__mro__].index(
        "ActiveSearch" if any(c.__name__ == "ActiveSearch" for c in type(module).__mro__) else "EAS")].__module__)


class Recorder:
    """taps: env.get_reward (one call = the rollouts of one iteration, rows identified by content), module.log_dict (one
    call per iteration, right after the incumbent update: the locals max_reward / best_solutions of training_step are
    read from the caller's frame), and the hooks of the module (called by the harness or by a Lightning callback)"""

    def __init__(self, module, env, ident, to_int, passthrough_log=False):
        self.module, self.env, self.ident, self.to_int = module, env, ident, to_int
        self.events = []
        self.last_rolls = None
        self.bi = -1
        self.it = 0
        self.snapshot = None
        real_reward = env.get_reward

        def tapped(td, actions):
            rew = real_reward(td, actions)
            iids = ident(td)
            acts = actions.tolist()
            self.last_rolls = [{"i": int(iids[r]), "rew": to_int(rew[r]), "acts": [int(a) for a in acts[r]]} for r in range(len(acts))]
            return rew

        env.get_reward = tapped
        real_log = module.log_dict

        def log_tap(d, *a, **k):
            f = sys._getframe(1)
            while f is not None and f.f_code.co_name != "training_step":
                f = f.f_back
            if f is None:
                raise tlc.TLCError("log_dict was not called from training_step")
            loc = f.f_locals
            self.it += 1
            self.events.append({"a": "iter", "bi": self.bi, "it": self.it, "rolls": self.last_rolls or [],
                                "obs": self.project_locals(loc["max_reward"], loc["best_solutions"])})
            self.last_rolls = None
            if passthrough_log:
                return real_log(d, *a, **k)

        module.log_dict = log_tap

    def ver(self):
        return -1

    def project_locals(self, max_reward, best_solutions):
        mr = max_reward.detach().reshape(-1).tolist() if torch.is_tensor(max_reward) else [float(max_reward)]
        return {"maxRew": [self.to_int(x) for x in mr],
                "bestSol": [[int(a) for a in row] for row in best_solutions.detach().reshape(-1, best_solutions.shape[-1]).tolist()],
                "ver": self.ver()}

    def params(self):
        return {k: v.detach().clone() for k, v in self.module.policy.named_parameters()}

    def buffers(self):
        """the data-set level result buffers as (rewards, solution rows, shapes); lists of per-batch tensors are flattened"""
        m = self.module
        rw, sol = m.instance_rewards, m.instance_solutions
        if isinstance(rw, list):
            rws = [self.to_int(x) for t in rw for x in t.detach().reshape(-1).tolist()]
            rshape = [len(rws)]
        else:
            rws = [self.to_int(x) for x in rw.detach().reshape(-1).tolist()]
            rshape = list(rw.shape)
        if isinstance(sol, list):
            rows = [[int(a) for a in r] for t in sol for r in t.detach().reshape(-1, t.shape[-1]).tolist()]
            sshape = [len(rows)] + ([len(rows[0])] if rows else [])
        else:
            rows = [[int(a) for a in r] for r in sol.detach().reshape(-1, sol.shape[-1]).tolist()] if sol.dim() >= 1 else []
            sshape = list(sol.shape)
        return {"instRew": rws, "instSol": rows, "rshape": rshape, "sshape": sshape}

    # ---- protocol points
    def after_setup(self):
        self.snapshot = self.params()
        o = self.buffers()
        o["ver"] = self.ver()
        self.events.append({"a": "setup", "obs": o})

    def after_batch_start(self, bi):
        self.bi, self.it = bi, 0
        live = self.params()
        ok = set(live) == set(self.snapshot) and all(torch.equal(live[k], self.snapshot[k]) for k in live)
        self.events.append({"a": "bstart", "bi": bi, "obs": {"paramsOk": bool(ok), "ver": self.ver()}})

    def after_batch_end(self, bi):
        o = self.buffers()
        o["ver"] = self.ver()
        self.events.append({"a": "bend", "bi": bi, "obs": o})

    def after_end(self):
        o = self.buffers()
        o["ver"] = self.ver()
        self.events.append({"a": "end", "obs": o})


def build_module(world, method, cfg, director):
    """the REAL search class on the real environment and a real data set of the world's instances"""
    from rl4co.data.dataset import TensorDictDataset
    from rl4co.models.zoo import EAS, ActiveSearch, EASEmb, EASLay

    cls = {"AS": ActiveSearch, "EAS": EAS, "EASEmb": EASEmb, "EASLay": EASLay}[cfg.get("cls", "AS" if method == "AS" else "EASEmb")]
    env = make_env(world.env_name, world.NN)
    pol = make_policy(world, director)
    director.policy = pol
    PlanOptimizer.director = director
    ds = TensorDictDataset(world.td.clone())
    stop = cfg.get("stop_at")
    kw = dict(batch_size=cfg["B"], max_iters=cfg["max_iters"], augment_size=cfg["A"], augment_dihedral=(cfg["A"] == 8),
              num_parallel_runs=cfg.get("R", 1), max_runtime=(stop - 0.5) if stop else 86400,
              optimizer=PlanOptimizer, optimizer_kwargs={})
    if cls is EAS:
        kw.update(use_eas_embedding=True, use_eas_layer=True)
    kw.update(cfg.get("extra", {}))
    mod = cls(env, pol, ds, **kw)
    return env, pol, mod


def drive(world, method, cfg, plans):
    """drive the real module hook by hook, the way the Lightning fit loop does (manual optimisation):
    setup; per batch on_train_batch_start / training_step / on_train_batch_end; on_train_epoch_end.
    plans[bi][it] = {(iid, start): [acts, ...]}.  Returns (events, director)."""
    director = Director(world)
    env, pol, mod = build_module(world, method, cfg, director)
    rec = Recorder(mod, env, world.iid_of_rows, ival)
    rec.ver = lambda: int(round(float(pol.decoder.version)))
    sm = search_module_of(mod)
    real_time = sm.time
    opt = PlanOptimizer(mod.parameters())
    mod.optimizers = lambda: opt
    mod.manual_backward = lambda loss: loss.backward()
    mod._trainer = FakeTrainer()
    sm.time = director
    try:
        mod.train()
        mod.setup("fit")
        rec.after_setup()
        for bi, batch in enumerate(mod.train_dataloader()):
            director.begin_batch(plans[bi] if bi < len(plans) else [])
            mod.on_train_batch_start(batch, bi)
            rec.after_batch_start(bi)
            out = mod.training_step(batch, bi)
            mod.on_train_batch_end(out, batch, bi)
            rec.after_batch_end(bi)
        mod.on_train_epoch_end()
        rec.after_end()
    finally:
        sm.time = real_time
    return rec.events, director


# ----------------------------------------------------------------------------------------------------------------
# traces -> TLC (spec/search/SearchTrace.tla)
# ----------------------------------------------------------------------------------------------------------------
TRACE_INV = ["M_RollBatch", "M_RollScore", "M_Start", "M_Best", "M_Sol", "M_SolSeen", "M_Mono", "M_Buffers", "M_FinalShape",
             "M_Final", "M_Params", "M_IterCount", "M_Drift", "End_"]
TRACE_CONST = dict(Method='"AS"', NData="1", B="1", A="1", R="1", MaxIters="1", C="1", DevSlots="{}", Stops="{}", Focuses="{}", StaleTail="FALSE",
                   EASStartMod="FALSE", OptSteps="0", Aliased="TRUE")
# clause -> property
CLAUSE = {"rollouts-of-own-batch": "C12", "rollout-reward-is-objective-on-original": "C12", "start-node-feasible": "C12",
          "incumbent-is-best-of-all-rollouts": "C15", "stored-solution-rescored-on-original": "C15",
          "stored-solution-is-a-rollout-of-its-instance": "C15", "incumbent-never-worse": "C15",
          "batch-results-at-own-rows": "C12", "final-buffers-one-row-per-instance": "C12",
          "reported-best-of-all-rollouts": "C15", "parameters-restored-at-batch-start": "C15", "iteration-count": "C15"}


def make_record(env_name, insts, method, cfg, S, W, events, eps=0, note=""):
    return {"method": "AS" if method == "AS" else "EAS", "cls": cfg.get("cls", method), "env": env_name, "NN": W // 2, "S": S, "W": W,
            "n": len(insts), "B": cfg["B"], "A": cfg["A"], "R": cfg.get("R", 1), "maxIters": cfg["max_iters"],
            "stopAt": cfg.get("stop_at") or cfg["max_iters"], "eps": eps, "note": note,
            "insts": [{"N": i["N"], "D": i["D"], "dem": i.get("dem", []), "cap": i.get("cap", 0)} for i in insts],
            "ev": events}


def validate_traces(recs, tag):
    """TLC over SearchTrace.tla; returns fails [(rec index, clause, event number)], drifts [(rec, event)], states"""
    import concurrent.futures as cf

    n = len(recs)
    if n == 0:
        return [], [], 0
    k = max(1, min(2, (n + 199) // 200))
    bounds = [(i * n) // k for i in range(k + 1)]

    def one(j):
        lo, hi = bounds[j], bounds[j + 1]
        wd, root = tlc.prepare("searchtrace_%s_%d" % (tag, j), module="SearchTrace")
        f = os.path.join(wd, "recs.ndjson")
        tlc.dump_ndjson(f, recs[lo:hi])
        tlc.write_cfg(wd, root, constants=TRACE_CONST, invariants=TRACE_INV, init_next=("TInit", "TNext"))
        r = tlc.run(wd, root, workers=1, env={"TRACE_FILE": f}, heap="3g")
        if r.violated:
            raise tlc.TLCError("SearchTrace invariant violated: %s" % r.violated)
        os.remove(f)
        return ([(lo + t[1] - 1, t[2], t[3]) for t in r.tuples("FAIL")], [(lo + t[1] - 1, t[2]) for t in r.tuples("DRIFT")],
                r.distinct, {lo + t[1] - 1 for t in r.tuples("END")})

    fails, drifts, states, ended = [], [], 0, set()
    with cf.ThreadPoolExecutor(max_workers=k) as ex:
        for a, b, c, d in ex.map(one, range(k)):
            fails += a
            drifts += b
            states += c
            ended |= d
    if len(ended) != n:
        raise tlc.TLCError("SearchTrace: %d of %d runs not consumed" % (n - len(ended), n))
    return sorted(fails), sorted(drifts), states


# ----------------------------------------------------------------------------------------------------------------
# (a) TLC on Search.tla, replay of every complete run into the real classes
# ----------------------------------------------------------------------------------------------------------------
INVARIANTS = ["TypeOK", "BestIsMax", "SolAchieves", "Monotone", "RowsKeepInstance", "EASGroupOwn", "StartsOK", "BuffersOwnRows",
              "FinalBest", "ParamsAtBatchStart", "IterCount", "Emit"]
FIELDS = ["pc", "bi", "it", "ver", "maxRew", "bestSol", "instRew", "instSol", "rolls"]
# the INTENDED behaviour (see the header of Search.tla); `--as-coded` explores the behaviour of the pinned tree instead
INTENDED = dict(StaleTail="FALSE", EASStartMod="FALSE", OptSteps="0", Aliased="TRUE")
AS_CODED = dict(StaleTail="TRUE", EASStartMod="TRUE", OptSteps="0", Aliased="TRUE")

CONFIGS = {
    # env, method (model), cls (real class), n, B, A, R, max_iters, C, DevSlots
    "quick": [
        dict(env="tsp", method="AS", cls="AS", n=2, B=1, A=2, R=1, max_iters=2, C=2, dev="{1, 8}"),
        dict(env="cvrp", method="AS", cls="AS", n=2, B=1, A=2, R=1, max_iters=2, C=2, dev="{1, 6}"),
        dict(env="tsp", method="EAS", cls="EASEmb", n=3, B=2, A=2, R=1, max_iters=2, C=2, dev="{1, 10}", stops="{2}"),
        dict(env="cvrp", method="EAS", cls="EASLay", n=4, B=2, A=2, R=1, max_iters=2, C=2, dev="{3, 8}", focus="{1}"),
    ],
    "thorough": [
        dict(env="tsp", method="AS", cls="AS", n=3, B=1, A=2, R=1, max_iters=3, C=2, dev="{1, 4, 8}"),
        dict(env="tsp", method="AS", cls="AS", n=2, B=1, A=8, R=1, max_iters=2, C=3, dev="{1, 32}"),
        dict(env="cvrp", method="AS", cls="AS", n=3, B=1, A=2, R=2, max_iters=3, C=2, dev="{1, 12}"),
        dict(env="cvrp", method="AS", cls="AS", n=2, B=1, A=8, R=1, max_iters=2, C=3, dev="{1, 24}"),
        dict(env="tsp", method="EAS", cls="EASEmb", n=5, B=2, A=2, R=1, max_iters=2, C=2, dev="{1, 10}"),
        dict(env="tsp", method="EAS", cls="EASLay", n=5, B=3, A=2, R=1, max_iters=2, C=2, dev="{1, 10}"),
        dict(env="tsp", method="EAS", cls="EAS", n=4, B=2, A=8, R=1, max_iters=2, C=2, dev="{1, 40}"),
        dict(env="tsp", method="EAS", cls="EASEmb", n=4, B=2, A=2, R=1, max_iters=2, C=3, dev="{1}"),
        dict(env="cvrp", method="EAS", cls="EASEmb", n=4, B=2, A=2, R=1, max_iters=3, C=2, dev="{2}"),
        dict(env="cvrp", method="EAS", cls="EASLay", n=5, B=3, A=2, R=1, max_iters=2, C=2, dev="{2, 5, 8}"),
        dict(env="cvrp", method="EAS", cls="EAS", n=4, B=2, A=2, R=2, max_iters=2, C=2, dev="{2}"),
    ],
}
CLSNAME = {"AS": "ActiveSearch", "EAS": "EAS", "EASEmb": "EASEmb", "EASLay": "EASLay"}


def hkey(h):
    return tuple(tuple(x) for x in h)


def model_run(cd, ci, flags):
    """TLC on Search.tla for one configuration; returns (world, result, table, leaves, modelfails)"""
    world = World(cd["env"], cd["n"], C=cd["C"])
    wf = os.path.join(tlc.OUT, "search_world_%d.json" % ci)
    tlc.dump_json(wf, world.json())
    wd, root = tlc.prepare("search_%d" % ci, module="Search")
    C = dict(Method='"%s"' % cd["method"], NData=str(cd["n"]), B=str(cd["B"]), A=str(cd["A"]), R=str(cd["R"]),
             MaxIters=str(cd["max_iters"]), C=str(cd["C"]), DevSlots=cd["dev"],
             Stops=cd.get("stops", "{%s}" % ", ".join(str(k) for k in range(1, cd["max_iters"] + 1))),
             Focuses=cd.get("focus", "{%s}" % ", ".join(str(k) for k in range(-(-cd["n"] // cd["B"])))))
    C.update(flags)
    tlc.write_cfg(wd, root, constants=C, invariants=INVARIANTS)
    r = tlc.run(wd, root, workers=1, coverage=True, timeout=3000, env={"WORLD_FILE": wf}, heap="3g")
    if r.violated:
        raise tlc.TLCError("Search.tla: %s violated (the clauses should only print)" % r.violated)
    tup = r.tuples("S")
    if len(tup) != r.distinct - 1:                      # every state but the initial one is printed
        raise tlc.TLCError("Search: parsed %d of %d states" % (len(tup), r.distinct))
    table = {(t[1], t[2], hkey(t[3])): dict(zip(FIELDS, t[4])) for t in tup}
    leaves = sorted(k for k, a in table.items() if a["pc"] == "done")
    mfails = [(t[1], t[2][0], t[2][1], hkey(t[2][2])) for t in r.tuples("MODELFAIL")]
    return world, r, table, leaves, mfails


def eff(env_name, row, nn_):
    if env_name == "tsp":
        return list(row[:nn_])
    k = len(row)
    while k > 0 and row[k - 1] == 0:
        k -= 1
    return list(row[:k])


def plans_of(world, cd, table, key):
    """plans[bi][it] = {(iid, first action): [solution, ...]} from the rollouts the specification chose along the run"""
    focus, stop, h = key
    plans, cur = [], None
    for j, act in enumerate(h):
        if act[0] == "bstart":
            cur = []
            plans.append(cur)
        elif act[0] == "iter":
            st = table[(focus, stop, h[: j + 1])]
            p = {}
            for rr in st["rolls"]:
                if rr["inc"]:
                    continue
                a = eff(world.env_name, rr["acts"], world.NN)
                p.setdefault((rr["i"], a[0]), []).append(a)
            cur.append(p)
    return plans


def first_moves(world, iid):
    if world.env_name == "tsp":
        return set(range(world.NN))
    inst = world.insts[iid - 1]
    return {j for j in range(1, inst["N"] + 1) if inst["dem"][j - 1] <= inst["cap"]}


def compare_run(world, cd, table, key, events):
    """the projected real state after every action against the specification's; returns [(event index, property, clause, detail)]
    -- only the FIRST disagreement of a run is reported (what follows is its consequence)"""
    focus, stop, h = key
    env_name, nn_ = world.env_name, world.NN
    seen = {}                                       # iid -> {(rew, eff acts)} by content, from the REAL rollouts
    prev_iter = None                                # observation of the previous iteration of the same batch
    notes = []                                      # protocol-level disagreement that is not a property failure
    kinds, want_kinds = [e["a"] for e in events], [a[0] for a in h]
    if kinds != want_kinds:
        j = next((k for k, (x, y) in enumerate(zip(kinds, want_kinds)) if x != y), min(len(kinds), len(want_kinds)) - 1)
        if [k for k in kinds if k != "iter"] == [k for k in want_kinds if k != "iter"]:
            return notes + [(j, "C15", "iteration-count", "the real run took the actions %s, the specification (max_iters %d, run-time limit exceeded "
                     "after iteration %d) %s" % (kinds, cd["max_iters"], stop, want_kinds))]
        return notes + [(j, None, "batch-structure", "the real run took the actions %s, the specification %s" % (kinds, want_kinds))]
    for j, (act, e) in enumerate(zip(h, events)):
        spec = table[(focus, stop, h[: j + 1])]
        o = e["obs"]
        if act[0] == "bstart" and not o["paramsOk"]:
            return notes + [(j, "C15", "parameters-restored-at-batch-start", "batch %d does not start from the original policy parameters" % e["bi"])]
        if act[0] == "iter":
            real = sorted((r["i"], r["rew"], tuple(eff(env_name, r["acts"], nn_))) for r in e["rolls"])
            want = sorted((r["i"], r["rew"], tuple(eff(env_name, r["acts"], nn_))) for r in spec["rolls"])
            for r in e["rolls"]:
                seen.setdefault(r["i"], set()).add((r["rew"], tuple(eff(env_name, r["acts"], nn_))))
            if real != want and cd["method"] == "EAS" and e["it"] > 1 and prev_iter is not None:
                # an earlier arg-max tie was broken differently (accepted above): the re-constructed incumbents differ, although
                # they are equally good.  Compare the free rollouts, and require the real incumbent rows to be the real incumbent.
                copies = cd["A"] * cd["R"]
                real2, ok_inc = list(real), True
                want2 = sorted((r["i"], r["rew"], tuple(eff(env_name, r["acts"], nn_))) for r in spec["rolls"] if not r["inc"])
                for b, row in enumerate(prev_iter["bestSol"]):
                    item = (e["bi"] * cd["B"] + b + 1, prev_iter["maxRew"][b], tuple(eff(env_name, row, nn_)))
                    for _ in range(copies):
                        if item in real2:
                            real2.remove(item)
                        else:
                            ok_inc = False
                if ok_inc and sorted(real2) == want2:
                    real = want
            if real != want:
                bad_start = [(r["i"], r["acts"]) for r in e["rolls"] if r["i"] and r["acts"][0] not in first_moves(world, r["i"])]
                if bad_start:
                    return notes + [(j, "C12", "start-node-feasible", "rollout %s of instance %d starts with a move the environment does not offer "
                             "(start nodes of the iteration: %s, specification: %s)"
                             % (bad_start[0][1], bad_start[0][0], sorted({r["acts"][0] for r in e["rolls"]}), sorted({r["acts"][0] for r in spec["rolls"]})))]
                owners = sorted(r["i"] for r in e["rolls"])
                if owners != sorted(r["i"] for r in spec["rolls"]):
                    return notes + [(j, "C12", "rollouts-of-own-batch", "rows were rolled out on instances %s, specification %s"
                             % (owners, sorted(r["i"] for r in spec["rolls"])))]
                return notes + [(j, None, "rollouts-differ-from-plan", "real %s / planned %s" % (real[:4], want[:4]))]
            if o["maxRew"] != spec["maxRew"]:
                return notes + [(j, "C15", "incumbent-is-best-of-all-rollouts", "max_reward %s, specification %s" % (o["maxRew"], spec["maxRew"]))]
            for b, (row, srow) in enumerate(zip(o["bestSol"], spec["bestSol"])):
                iid = e["bi"] * cd["B"] + b + 1
                if row == srow:
                    continue
                tied = (o["maxRew"][b], tuple(eff(env_name, row, nn_))) in seen.get(iid, set())
                if tied and _tail_clean(env_name, row, nn_, seen.get(iid, set()), o["maxRew"][b]):
                    continue                      # another maximiser of the same instance (ties of the arg-max)
                return notes + [(j, "C15", "stored-solution-is-a-rollout-of-its-instance",
                         "best_solutions[%d] = %s for reward %s, specification %s" % (b, row, o["maxRew"][b], srow))]
        if act[0] == "end" and (o["rshape"] != [cd["n"]] or o["sshape"] != [cd["n"], world.W]):
            return notes + [(j, "C12", "final-buffers-one-row-per-instance",
                     "instance_rewards has shape %s, instance_solutions %s: expected [%d] and [%d, %d] (row i = instance i)"
                     % (o["rshape"], o["sshape"], cd["n"], cd["n"], world.W))]
        prev_iter = o if act[0] == "iter" else None
        if act[0] in ("setup", "bend", "end"):
            if o["instRew"] != spec["instRew"]:
                return notes + [(j, "C12" if act[0] == "bend" else "C15", "batch-results-at-own-rows" if act[0] == "bend" else "reported-best-of-all-rollouts",
                         "instance_rewards %s, specification %s" % (o["instRew"], spec["instRew"]))]
            for i, (row, srow) in enumerate(zip(o["instSol"], spec["instSol"])):
                if row != srow and not ((o["instRew"][i], tuple(eff(env_name, row, nn_))) in seen.get(i + 1, set())
                                        and _tail_clean(env_name, row, nn_, seen.get(i + 1, set()), o["instRew"][i])):
                    return notes + [(j, "C12" if act[0] == "bend" else "C15", "batch-results-at-own-rows" if act[0] == "bend" else "reported-best-of-all-rollouts",
                             "instance_solutions[%d] = %s, specification %s" % (i, row, srow))]
            if len(o["instSol"]) != len(spec["instSol"]):
                return notes + [(j, "C12", "batch-results-at-own-rows", "%d solution rows, specification %d" % (len(o["instSol"]), len(spec["instSol"])))]
        if o.get("ver", spec["ver"]) != spec["ver"] and not notes:
            notes.append((j, None, "optimiser-steps", "optimiser steps applied to the live parameters: %s, specification %s" % (o.get("ver"), spec["ver"])))
    return notes


def _tail_clean(env_name, row, nn_, seen, rew):
    """the columns after the effective solution are padding"""
    k = len(eff(env_name, row, nn_))
    return all(a == 0 for a in row[k:])


def crash_site(exc):
    """file:line of the innermost frame inside rl4co, provided no harness frame is deeper (as harness/check.py)"""
    repo = os.path.realpath(_REPO)
    tb = exc.__traceback__
    frames = []
    while tb is not None:
        frames.append((os.path.realpath(tb.tb_frame.f_code.co_filename), tb.tb_lineno))
        tb = tb.tb_next
    for fn, ln in reversed(frames):
        if "site-packages" in fn or fn.startswith("<"):
            continue
        if fn.startswith(os.path.join(repo, "rl4co")):
            return "%s:%d" % (os.path.relpath(fn, repo), ln)
        return None
    return None


def raised(exc, cls, env_name, inst, actions):
    """the library itself raised while following the protocol on a legitimate configuration: a verdict"""
    where = crash_site(exc)
    if where is None or isinstance(exc, tlc.TLCError):
        raise exc
    return {"property": "C12", "env": "%s/%s" % (CLSNAME.get(cls, cls), env_name), "monitor": "library-raised",
            "inst": dict(inst, where=where), "actions": actions, "detail": "%s: %s" % (type(exc).__name__, str(exc)[:300])}


def mkviol(prop, clause, prefix, rec, upto, detail):
    return {"property": prop, "env": "%s/%s" % (CLSNAME.get(rec["cls"], rec["cls"]), rec["env"]), "monitor": prefix + clause,
            "inst": {"n": rec["n"], "batch_size": rec["B"], "augment_size": rec["A"], "num_parallel_runs": rec["R"],
                     "max_iters": rec["maxIters"], "stop_after": rec["stopAt"], "note": rec.get("note", ""),
                     "instances": [{k: v for k, v in i.items() if k != "D" or len(v) <= 5} for i in rec["insts"]][:5]},
            "actions": [[e["a"], e.get("bi", ""), e.get("it", "")] + ([[r["i"], r["rew"], r["acts"]] for r in e["rolls"][:12]] if e["a"] == "iter" and k + 3 >= upto else [])
                        for k, e in enumerate(rec["ev"][:upto])],
            "detail": detail}


# ----------------------------------------------------------------------------------------------------------------
# (b) real RL4COTrainer.fit runs with a small real AttentionModelPolicy on random instances
# ----------------------------------------------------------------------------------------------------------------
FSCALE = 1000000
RUN_LIMIT_S = 30     # one replayed run takes ~0.1 s
FIT_LIMIT_S = 60     # one RL4COTrainer.fit run takes ~1 s
FEPS = 40            # 4e-5: float32 tour lengths against float64 sums of 1e-6-rounded distances


def fit_run(env_name, cls, n, B, A, max_iters, seed, num_loc=6, max_runtime=86400, R=1, extra=None):
    import lightning.pytorch as pl

    from rl4co.envs import CVRPEnv, TSPEnv
    from rl4co.models import AttentionModelPolicy
    from rl4co.models.zoo import EAS, ActiveSearch, EASEmb, EASLay
    from rl4co.utils.trainer import RL4COTrainer

    torch.manual_seed(seed)
    if env_name == "tsp":
        env = TSPEnv(generator_params=dict(num_loc=num_loc))
    else:
        env = CVRPEnv(generator_params=dict(num_loc=num_loc, capacity=12.0))
    ds = env.dataset(n)
    raw = TensorDict({k: torch.stack([ds[i][k] for i in range(n)]) for k in ds[0].keys()}, batch_size=[n])
    locs = raw["locs"].double() if env_name == "tsp" else torch.cat((raw["depot"][:, None, :], raw["locs"]), 1).double()
    Dref = (locs[:, :, None, :] - locs[:, None, :, :]).norm(dim=-1)                 # [n, NN, NN]
    insts = []
    for i in range(n):
        inst = {"N": num_loc, "D": [[int(round(v * FSCALE)) for v in row] for row in Dref[i].tolist()]}
        if env_name == "cvrp":
            inst["dem"] = [int(round(float(x) * 12)) for x in raw["demand"][i].tolist()]
            inst["cap"] = 12
        insts.append(inst)
    dref = raw["demand"].double() if env_name == "cvrp" else None

    def ident(td):
        x = td["locs"].double()
        d = (x[:, :, None, :] - x[:, None, :, :]).norm(dim=-1)                     # [rows, NN, NN]
        err = (d[:, None] - Dref[None]).abs().amax(dim=(-1, -2))                     # [rows, n]
        if dref is not None:
            err = err + (td["demand"].double()[:, None] - dref[None]).abs().amax(-1)
        best = err.argmin(1)
        return [int(b) + 1 if float(err[r, b]) < 1e-4 else 0 for r, b in enumerate(best.tolist())]

    pol = AttentionModelPolicy(env_name=env.name, embed_dim=16, num_encoder_layers=1, num_heads=2, feedforward_hidden=32)
    klass = {"AS": ActiveSearch, "EAS": EAS, "EASEmb": EASEmb, "EASLay": EASLay}[cls]
    kw = dict(batch_size=B, max_iters=max_iters, augment_size=A, augment_dihedral=(A == 8), num_parallel_runs=R, max_runtime=max_runtime)
    if klass is EAS:
        kw.update(use_eas_embedding=True, use_eas_layer=True)
    kw.update(extra or {})
    mod = klass(env, pol, ds, **kw)
    def fint(x):
        x = float(x)
        return NEG if x == float("-inf") else BAD if x != x or abs(x) > 1000 else int(round(x * FSCALE))

    rec = Recorder(mod, env, ident, fint, passthrough_log=True)
    steps = {"n": 0}
    rec.ver = lambda: steps["n"]

    class Cb(pl.Callback):
        def on_train_start(self, trainer, m):
            for opt in trainer.optimizers:                    # count the optimiser steps the search really takes
                real_step = opt.step

                def counting(*a, _real=real_step, **k):
                    steps["n"] += 1
                    return _real(*a, **k)

                opt.step = counting
            rec.after_setup()

    # the module's own hooks are wrapped so that the observation happens right AFTER them
    real_start, real_end, real_epoch_end = mod.on_train_batch_start, mod.on_train_batch_end, mod.on_train_epoch_end

    def start(batch, batch_idx):
        r = real_start(batch, batch_idx)
        rec.after_batch_start(batch_idx)
        return r

    def end(outputs, batch, batch_idx):
        r = real_end(outputs, batch, batch_idx)
        rec.after_batch_end(batch_idx)
        return r

    def epoch_end():
        r = real_epoch_end()
        rec.after_end()
        return r

    mod.on_train_batch_start, mod.on_train_batch_end, mod.on_train_epoch_end = start, end, epoch_end
    trainer = RL4COTrainer(max_epochs=1, accelerator="cpu", devices=1, precision="32-true", logger=False,
                           enable_checkpointing=False, enable_progress_bar=False, enable_model_summary=False, callbacks=[Cb()])
    trainer.fit(mod)
    cfg = dict(B=B, A=A, R=R, max_iters=max_iters, cls=cls, stop_at=1 if max_runtime == 0 else None)
    nn_ = num_loc if env_name == "tsp" else num_loc + 1
    S = nn_ if env_name == "tsp" else nn_ - 1
    return make_record(env_name, insts, "AS" if cls == "AS" else "EAS", cfg, S, 2 * nn_, rec.events, eps=FEPS,
                       note="RL4COTrainer.fit, AttentionModelPolicy, %d random instances with %d nodes, seed %d" % (n, num_loc, seed))


FIT_PLANS = {
    # env, class, n, B, A, max_iters, max_runtime
    "quick": [("tsp", "AS", 2, 1, 8, 2, 86400), ("cvrp", "AS", 2, 1, 2, 3, 86400), ("tsp", "EASEmb", 4, 2, 8, 2, 86400),
              ("cvrp", "EASLay", 4, 2, 2, 3, 86400), ("cvrp", "AS", 2, 1, 2, 3, 0)],
    "thorough": [("tsp", "AS", 3, 1, 8, 3, 86400), ("cvrp", "AS", 4, 1, 8, 4, 86400), ("cvrp", "AS", 3, 1, 3, 4, 86400),
                 ("tsp", "EASEmb", 4, 2, 8, 3, 86400), ("tsp", "EASLay", 5, 2, 4, 3, 86400), ("tsp", "EAS", 6, 3, 8, 2, 86400),
                 ("cvrp", "EASEmb", 4, 2, 8, 3, 86400), ("cvrp", "EASLay", 5, 3, 3, 3, 86400), ("cvrp", "EAS", 4, 2, 2, 4, 86400),
                 ("cvrp", "AS", 2, 1, 2, 3, 0), ("tsp", "EASEmb", 4, 2, 2, 3, 0), ("tsp", "EASEmb", 2, 1, 2, 2, 86400)],
}


# ----------------------------------------------------------------------------------------------------------------
def _first_fails(fails):
    first = {}
    for (i, clause, l) in fails:
        first.setdefault((i, clause), l)
    return sorted(first.items())


class RunTimeout(Exception):
    pass


class watchdog:
    """bounds one run of the real code (the library loops until every row is done: a broken change can spin forever)"""

    def __init__(self, seconds):
        self.seconds = seconds

    def __enter__(self):
        import signal

        def handler(signum, frame):
            raise RunTimeout("no result after %d s" % self.seconds)

        self.old = signal.signal(signal.SIGALRM, handler)
        signal.setitimer(signal.ITIMER_REAL, self.seconds)

    def __exit__(self, *a):
        import signal

        signal.setitimer(signal.ITIMER_REAL, 0)
        signal.signal(signal.SIGALRM, self.old)
        return False


def hang(cls, env_name, inst, actions, ex):
    return {"property": "C15", "env": "%s/%s" % (CLSNAME.get(cls, cls), env_name), "monitor": "search-does-not-finish",
            "inst": inst, "actions": actions, "detail": str(ex)}


def config_task(args):
    """one configuration: TLC on Search.tla, replay of every complete run, TLC on the recorded traces (own process)"""
    ci, cd, flags, seed = args
    logging.disable(logging.WARNING)
    torch.set_num_threads(1)                 # tiny tensors: one thread is the fastest; configurations run side by side
    out = {"viol": [], "drift": [], "samples": [], "mfails": [], "states": 0, "transitions": 0, "runs": 0, "steps": 0, "rollouts": 0,
           "traces": 0}
    world, r, table, leaves, mfails = model_run(cd, ci, flags)
    out["states"] += r.distinct
    out["transitions"] += r.generated
    out["mfails"] = sorted({(ci, m[0]) for m in mfails})
    acts = {}
    for (_, _, h) in table:
        if h:
            nm = h[-1][0] + ("" if h[-1][0] != "iter" else ":base" if h[-1][2] == 0 else ":deviation")
            acts[nm] = acts.get(nm, 0) + 1
    info = {"config": cd, "states": r.distinct, "complete_runs": len(leaves), "depth": r.depth, "explored_actions": acts,
            "tlc_action_coverage": {k: list(v) for k, v in r.coverage().items()}, "model_clause_failures": len(mfails),
            "tlc_wall_s": round(r.wall, 1)}
    recs, n_raised, t1 = [], 0, time.time()
    inst_note = {"n": cd["n"], "batch_size": cd["B"], "augment_size": cd["A"], "num_parallel_runs": cd["R"], "max_iters": cd["max_iters"]}
    for k, key in enumerate(leaves):
        cfg = dict(B=cd["B"], A=cd["A"], R=cd["R"], max_iters=cd["max_iters"], cls=cd["cls"], stop_at=key[1])
        torch.manual_seed(seed * 100003 + k)
        try:
            with watchdog(RUN_LIMIT_S):
                events, director = drive(world, cd["method"], cfg, plans_of(world, cd, table, key))
        except RunTimeout as ex:
            out["viol"].append(hang(cd["cls"], cd["env"], dict(inst_note, stop_after=key[1]), [list(x) for x in key[2]], ex))
            n_raised += 1
            if n_raised >= 3:
                break
            continue
        except Exception as ex:  # noqa: BLE001
            out["viol"].append(raised(ex, cd["cls"], cd["env"], dict(inst_note, stop_after=key[1]), [list(x) for x in key[2]]))
            n_raised += 1
            if n_raised >= 3:
                break
            continue
        rec = make_record(cd["env"], world.insts, cd["method"], cfg, world.S, world.W, events,
                          note="replay of a run of Search.tla (focus batch %d)" % key[0])
        recs.append(rec)
        out["steps"] += len(events)
        out["rollouts"] += sum(len(e["rolls"]) for e in events if e["a"] == "iter")
        for (j, prop, clause, detail) in compare_run(world, cd, table, key, events):
            if prop is None:
                out["drift"].append(("replay", ci, k, j, clause, detail[:200]))
            else:
                out["viol"].append(mkviol(prop, clause, "replay-", rec, j + 1, "after action %d (%s): %s"
                                          % (j + 1, key[2][j][0] if j < len(key[2]) else "?", detail)))
    out["runs"] = len(recs)
    info["replayed_runs"] = len(recs)
    info["replay_wall_s"] = round(time.time() - t1, 1)
    # the same real executions as traces, judged by TLC with an independent re-scoring on the original instances
    t1 = time.time()
    fails, drifts, st = validate_traces(recs, "replay%d" % ci)
    info["trace_wall_s"] = round(time.time() - t1, 1)
    out["states"] += st
    out["traces"] = len(recs)
    for (i, clause), l in _first_fails(fails):
        out["viol"].append(mkviol(CLAUSE[clause], clause, "", recs[i], l, "event %d (%s): observed %s"
                                  % (l, recs[i]["ev"][l - 1]["a"], json.dumps(recs[i]["ev"][l - 1]["obs"])[:400])))
    out["drift"] += [("trace", ci, i, l) for (i, l) in drifts]
    if recs:
        e = recs[-1]["ev"]
        out["samples"].append({"replayed_run": {"class": CLSNAME[cd["cls"]], "env": cd["env"],
                                                "actions": [[x["a"], x.get("bi", ""), x.get("it", "")] for x in e], "final": e[-1]["obs"]}})
    out["info"] = info
    return out


def fit_task(args):
    """real RL4COTrainer.fit runs with a neural policy, recorded and judged by TLC (own process)"""
    plans, seed = args
    logging.disable(logging.WARNING)
    torch.set_num_threads(2)
    out = {"viol": [], "drift": [], "samples": [], "states": 0, "traces": 0, "rollouts": 0}
    fit_recs, t1, n_hang = [], time.time(), 0
    for k, p in enumerate(plans):
        env_name, cls, n, B, A, iters, mrt = p[:7]
        note = dict({"n": n, "batch_size": B, "augment_size": A, "max_iters": iters, "max_runtime": mrt,
                     "note": "RL4COTrainer.fit, AttentionModelPolicy"}, **(p[7] if len(p) > 7 else {}))
        try:
            with watchdog(FIT_LIMIT_S):
                fit_recs.append(fit_run(env_name, cls, n, B, A, iters, seed=seed * 1009 + k, max_runtime=mrt, **(p[7] if len(p) > 7 else {})))
        except RunTimeout as ex:
            out["viol"].append(hang(cls, env_name, note, [["RL4COTrainer.fit"]], ex))
            n_hang += 1
            if n_hang >= 2:
                break
        except Exception as ex:  # noqa: BLE001
            out["viol"].append(raised(ex, cls, env_name, dict({"n": n, "batch_size": B, "augment_size": A, "max_iters": iters, "max_runtime": mrt,
                                                                "note": "RL4COTrainer.fit, AttentionModelPolicy"}, **(p[7] if len(p) > 7 else {})),
                                      [["RL4COTrainer.fit"]]))
    out["fit_wall_s"] = round(time.time() - t1, 1)
    fails, drifts, st = validate_traces(fit_recs, "fit")
    out["states"] = st
    out["traces"] = len(fit_recs)
    out["rollouts"] = sum(len(e["rolls"]) for rec in fit_recs for e in rec["ev"] if e["a"] == "iter")
    for (i, clause), l in _first_fails(fails):
        out["viol"].append(mkviol(CLAUSE[clause], clause, "fit-", fit_recs[i], l, "event %d (%s): observed %s"
                                  % (l, fit_recs[i]["ev"][l - 1]["a"], json.dumps(fit_recs[i]["ev"][l - 1]["obs"])[:400])))
    out["drift"] = [("fit", i, l) for (i, l) in drifts]
    if fit_recs:
        e = fit_recs[0]["ev"]
        out["samples"].append({"fit_run": {"note": fit_recs[0]["note"],
                                           "events": [[x["a"], x.get("bi", ""), x.get("it", ""), x["obs"].get("maxRew", x["obs"].get("instRew"))] for x in e]}})
    out["opt_steps"] = sorted({e["obs"].get("ver", 0) for rec in fit_recs for e in rec["ev"]})
    out["iterations"] = sorted({(rec["cls"], rec["env"], rec["maxIters"], rec["stopAt"], sum(1 for e in rec["ev"] if e["a"] == "iter" and e["bi"] == 0))
                                for rec in fit_recs})
    return out


def violations(tier, seed, flags=None, configs=None, fit_plans=None, procs=None):
    import multiprocessing as mp
    from concurrent.futures import ProcessPoolExecutor

    import rl4co

    flags = dict(INTENDED if flags is None else flags)
    t0 = time.time()
    configs = CONFIGS[tier] if configs is None else configs
    fit_plans = FIT_PLANS[tier] if fit_plans is None else fit_plans
    procs = int(os.environ.get("VERIF_SEARCH_PROCS", "4")) if procs is None else procs
    tasks = [("fit", (fit_plans, seed))] + [("cfg", (ci, cd, flags, seed)) for ci, cd in enumerate(configs)]
    # longest first
    tasks.sort(key=lambda t: 0 if t[0] == "fit" else -t[1][1]["n"] * t[1][1]["A"] * t[1][1]["max_iters"])
    if procs <= 1:
        results = [(kind, (fit_task if kind == "fit" else config_task)(a)) for kind, a in tasks]
    else:
        with ProcessPoolExecutor(max_workers=min(procs, len(tasks)), mp_context=mp.get_context("spawn")) as ex:
            futs = [(kind, a, ex.submit(fit_task if kind == "fit" else config_task, a)) for kind, a in tasks]
            results = [(kind, f.result()) for kind, a, f in futs]
    viol, samples, per_cfg, drift_notes, model_fails = [], [], [], [], []
    states = transitions = n_runs = n_steps = n_traces = n_rollouts = 0
    fit = {}
    for kind, o in sorted(results, key=lambda x: (x[0] == "fit", x[1].get("info", {}).get("config", {}).get("env", ""))):
        viol += o["viol"]
        drift_notes += o["drift"]
        samples += o["samples"]
        states += o["states"]
        n_traces += o["traces"]
        n_rollouts += o["rollouts"]
        if kind == "fit":
            fit = o
        else:
            transitions += o["transitions"]
            n_runs += o["runs"]
            n_steps += o["steps"]
            model_fails += o["mfails"]
            per_cfg.append(o["info"])
    if model_fails:
        print("MODEL-DRIFT C15b: clauses of Search.tla fail in the model itself under flags %s: %s" % (flags, sorted(set(model_fails))[:8]))
    if drift_notes:
        print("MODEL-DRIFT C15b: protocol-level disagreement between Search.tla and the real code at %s" % drift_notes[:4])
    cov = {"states": states, "transitions": transitions, "replayed": n_runs, "traces_validated_against_impl": n_runs + n_traces,
           "replayed_runs": n_runs, "replayed_actions": n_steps, "rollouts_rescored": n_rollouts, "tlc_validated_traces": n_traces,
           "fit_runs": fit.get("traces", 0), "fit_wall_s": fit.get("fit_wall_s", 0), "optimizer_steps_observed_in_fit": fit.get("opt_steps", []),
           "fit_iterations_(class,env,max_iters,expected,observed)": [list(x) for x in fit.get("iterations", [])],
           "flags": flags, "models": per_cfg, "samples": samples[:5], "exhaustive": True, "drift": [list(map(str, d)) for d in drift_notes[:10]],
           "rl4co": os.path.dirname(rl4co.__file__), "wall_s": round(time.time() - t0, 1),
           "explanation": "Search.tla (search protocol of ActiveSearch / EAS over a catalogue of real solutions) model-checked for "
                          "all runs of the scope; every run replayed into the real classes (table policy, real environment) with "
                          "state comparison after every action; the same executions and real RL4COTrainer.fit runs with an "
                          "AttentionModelPolicy validated by TLC against SearchTrace.tla (independent re-scoring of every rollout "
                          "and every stored solution on the original instance)."}
    return viol, cov


ASSUMPTIONS = ["table policy = stub decoder inside the real ConstructivePolicy; it recognises the instance of a row by content",
               "exact lattice instances (4 nodes) so that rewards are integers in units of 1/32; random instances in units of 1e-6 (eps 4e-5)",
               "the run-time limit is exercised through a scripted clock in the replay and through max_runtime = 0 in RL4COTrainer.fit",
               "shuffle_train_dataloader = False (the default); single device, cpu, num_workers = 0",
               "per-iteration incumbents are the locals max_reward / best_solutions of training_step, read when it calls log_dict"]


def run(tier, seed, flags=None):
    """verdict lines for C15 and C12; evidence goes to the agent's scratch directory"""
    t0 = time.time()
    viol, cov = violations(tier, seed, flags)
    n_new = 0
    for pid in ("C15", "C12"):
        a, _ = verdict.report(pid, viol)
        n_new += a
    d = os.path.join(verdict.ROOT, "out", "agents", "grow_search")
    os.makedirs(d, exist_ok=True)
    scratch = os.path.realpath(os.environ.get("VERIF_REPO", "/repo")) != "/repo"
    with open(os.path.join(d, "evidence_C15b_%s%s.json" % (tier, "_scratch" if scratch else "")), "w") as f:
        json.dump({"property_id": "C15b_SEARCH", "tier": tier, "seed": seed, "level": "model_checking", "coverage": cov,
                   "assumptions": ASSUMPTIONS, "wall_s": round(time.time() - t0, 2), "violations": n_new,
                   "violation_classes": sorted({(v["property"], v["env"], v["monitor"]) for v in viol})}, f, indent=1, default=str)
    print("[C15b] states=%d replayed_runs=%d actions=%d rollouts=%d traces=%d fit_runs=%d violations=%d classes=%d wall=%.1fs"
          % (cov["states"], cov["replayed_runs"], cov["replayed_actions"], cov["rollouts_rescored"], cov["tlc_validated_traces"],
             cov["fit_runs"], n_new, len({(v["property"], v["env"], v["monitor"]) for v in viol}), time.time() - t0))
    return 1 if n_new else 0


if __name__ == "__main__":
    import argparse

    ap = argparse.ArgumentParser()
    ap.add_argument("tier", nargs="?", default="quick")
    ap.add_argument("--seed", type=int, default=int(os.environ.get("VERIF_SEED", "0")))
    ap.add_argument("--as-coded", action="store_true", help="explore the model with the quirks of the pinned tree switched on")
    a = ap.parse_args()
    torch.set_num_threads(4)
    sys.exit(run(a.tier, a.seed, AS_CODED if a.as_coded else None))
