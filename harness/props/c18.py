"""C18 -- generators emit well-formed, solvable instances within documented bounds.

(1) TLC model-checks spec/data/GenCVRPTW.tla (the CVRPTW time-window construction: int truncation, max_ts,
    repair branch) and spec/data/GenMTVRP.tla (MTVRP time-window / distance-limit formulas) for ALL points of a
    grid of depot distances x uniform draws; the invariants are the contract clauses + the InstanceOK assumption
    of the environment model (spec/env/CVRPTW.tla).
(2) every grid point is replayed into the REAL generator code with the random draws pinned (torch.rand patched in
    the harness, locations through the public `loc_sampler` hook); the emitted windows must equal the model's.
(3) every generator x parameter grid x seeds is run for real; each generated instance is recorded (integer-scaled)
    together with one uniformly random mask-confined episode of the real environment, and validated by TLC against
    spec/data/GenTrace.tla (contract = spec/data/Generators.tla, incl. the environment modules' InstanceOK).
    An exception raised inside rl4co by a generator on a valid configuration is recorded per configuration and
    judged by the monitor M_Crash."""
import contextlib
import math
import os
import random
import signal
import time
import traceback

import torch

from .. import tlc, verdict
from .common import validate_records

S6 = 10 ** 6
TRACE_INV = ["M_Crash", "M_Contract", "M_Solvable", "End"]


# ----------------------------------------------------------------------------------------------------
# helpers
# ----------------------------------------------------------------------------------------------------
def crash_site(exc):
    """file:line of the innermost non-library frame if it lies inside rl4co (else None: harness problem)"""
    repo = os.path.realpath(os.environ.get("VERIF_REPO", "/repo"))
    tb = exc.__traceback__
    frames = []
    while tb is not None:
        frames.append((os.path.realpath(tb.tb_frame.f_code.co_filename), tb.tb_lineno))
        tb = tb.tb_next
    for fn, ln in reversed(frames):
        if "site-packages" in fn or fn.startswith("<"):
            continue
        if fn.startswith(os.path.join(repo, "rl4co")):
            return "%s:%d" % (os.path.relpath(fn, repo), ln)
        return None
    return None


class _Timeout(Exception):
    pass


@contextlib.contextmanager
def wall_guard(secs):
    def onalarm(signum, frame):
        raise _Timeout()

    try:
        old = signal.signal(signal.SIGALRM, onalarm)
    except ValueError:          # not in the main thread
        yield
        return
    signal.setitimer(signal.ITIMER_REAL, secs)
    try:
        yield
    finally:
        signal.setitimer(signal.ITIMER_REAL, 0)
        signal.signal(signal.SIGALRM, old)


@contextlib.contextmanager
def pinned_rand(columns):
    """torch.rand(B, n) (positional ints, no kwargs: the calls made by the generators under test) returns the
    pinned tensors in order; every other call (torch.distributions ...) goes to the real torch.rand"""
    orig = torch.rand
    seq = list(columns)

    def fake(*a, **kw):
        if not kw and a and all(isinstance(x, int) for x in a) and seq and tuple(seq[0].shape) == tuple(a):
            return seq.pop(0).clone()
        return orig(*a, **kw)

    torch.rand = fake
    try:
        yield seq
    finally:
        torch.rand = orig


class PinLoc:
    """a location sampler (public hook `loc_sampler=`) that returns fixed coordinates"""

    def __init__(self, locs):
        self.locs = locs

    def sample(self, shape):
        assert tuple(shape) == tuple(self.locs.shape), (shape, self.locs.shape)
        return self.locs.clone()


# ----------------------------------------------------------------------------------------------------
# (1) + (2): the models and their replay
# ----------------------------------------------------------------------------------------------------
CVRPTW_MODEL = {
    "quick": [dict(Q="4", M="1024", MaxTime="480", DMaxN="849", DStride="16", DKeep="5",
                   UNums="{0,1,2,4,64,512,1000,1023}")],
    "thorough": [dict(Q="4", M="1024", MaxTime="480", DMaxN="849", DStride="1", DKeep="1",
                      UNums="{0,1,2,3,4,8,64,256,512,1000,1022,1023}"),
                 dict(Q="4", M="1024", MaxTime="240", DMaxN="425", DStride="1", DKeep="1",      # max_loc 75
                      UNums="{0,1,2,4,64,512,1000,1023}"),
                 dict(Q="4", M="1024", MaxTime="1000", DMaxN="849", DStride="4", DKeep="4",
                      UNums="{0,1,2,4,64,512,1000,1023}")],
}
CVRPTW_INV = ["NoRaise", "Ordered", "Reachable", "CanReturn", "EnvAssumption", "FloorBound", "Emit"]
MTVRP_MODEL = {
    "quick": [dict(G="8", DSet="{1,125,250,375,500,625,750,875,1000,1125,1250,1375,1414}", T="4600", L="3000",
                   ASet="{0,1,4,7}")],
    "thorough": [dict(G="8", DSet="{1,2,50,125,250,375,500,625,750,875,1000,1125,1250,1375,1400,1414}", T="4600",
                      L="3000", ASet="{0,1,2,3,4,5,6,7}")],
}
MTVRP_INV = ["Ordered", "OpensAfterArrival", "Reachable", "CanReturn", "LimitOK", "ServiceRange", "Emit"]


def model_cvrptw(tier, recs, pin_cfgs, drift, samples, stats, notes):
    """TLC on GenCVRPTW.tla; every emitted grid point replayed into the real CVRPTWGenerator with pinned draws.
    The real outputs become records (judged by GenTrace.tla like every other generated instance, with an episode of the
    real environment); a difference between the real window and the model's is MODEL-DRIFT, not a verdict."""
    import rl4co.envs as E

    for ci, C in enumerate(CVRPTW_MODEL[tier]):
        wd, root = tlc.prepare("gencvrptw_%d" % ci, module="GenCVRPTW")
        tlc.write_cfg(wd, root, constants=C, invariants=CVRPTW_INV)
        r = tlc.run(wd, root, timeout=3000)
        stats["states"] += r.distinct
        stats["transitions"] += r.generated
        stats["model_violated"] += ["GenCVRPTW:" + v for v in r.violated]
        rows = r.tuples("W")
        if not r.violated and len(rows) * 6 != r.distinct:
            raise tlc.TLCError("GenCVRPTW: parsed %d emitted windows of %d states" % (len(rows), r.distinct))
        Q, M, T = int(C["Q"]), int(C["M"]), int(C["MaxTime"])
        c = {"fam": "cvrptw", "env": "cvrptw", "gp": {"num_loc": 1, "max_time": T, "max_loc": 256.0}, "B": 0, "nb": 1,
             "id": 10000 + ci, "pinned": "depot (0,0), customer (dist,0), draws ts_1 = u1, ts_2 = u2"}
        pin_cfgs.append(c)
        ok_rows = [w for w in rows if not w[6]]
        if ok_rows:
            B = len(ok_rows)
            locs = torch.zeros(B, 2, 2)
            locs[:, 1, 0] = torch.tensor([w[1] / Q for w in ok_rows], dtype=torch.float32)
            u1 = torch.zeros(B, 2)
            u2 = torch.zeros(B, 2)
            u1[:, 1] = torch.tensor([w[2] / M for w in ok_rows], dtype=torch.float32)
            u2[:, 1] = torch.tensor([w[3] / M for w in ok_rows], dtype=torch.float32)
            gp = dict(c["gp"])
            gp["loc_sampler"] = PinLoc(locs)
            env = E.CVRPTWEnv(generator_params=gp, check_solution=False)
            torch.manual_seed(ci)
            try:
                with pinned_rand([u1, u2]) as left:
                    td = env.generator(B)
            except Exception as e:      # noqa: BLE001
                if crash_site(e) is None:
                    raise
                notes.append("pinned CVRPTW replay: %s: %s" % (type(e).__name__, str(e)[:160]))
                recs.append({"fam": "cvrptw", "cfg": c["id"], "crashed": True, "where": crash_site(e), "stage": "generate",
                             "batch": 0, "roll": dict(NO_ROLL), "err": "%s: %s" % (type(e).__name__, str(e)[:200])})
                continue
            if left:
                raise tlc.TLCError("GenCVRPTW replay: the generator did not consume the pinned draws")
            new = records_of_batch(c, env, td, 0, notes)
            tw = td["time_windows"][:, 1, :].tolist()
            for w, (lo, hi), rec in zip(ok_rows, tw, new):
                stats["replayed"] += 1
                rec["pin"] = {"dist": w[1] / Q, "u1": w[2] / M, "u2": w[3] / M}
                if (int(lo), int(hi)) != (w[4], w[5]):
                    drift.append("CVRPTW window at dist=%s u1=%s u2=%s max_time=%s: real (%s, %s), model (%s, %s)"
                                 % (w[1] / Q, w[2] / M, w[3] / M, T, lo, hi, w[4], w[5]))
            recs += new
            samples.append({"model": "GenCVRPTW", "dist": ok_rows[-1][1] / Q, "u1": ok_rows[-1][2] / M,
                            "u2": ok_rows[-1][3] / M, "window_model": ok_rows[-1][4:6], "window_real": tw[-1]})
        for w in [w for w in rows if w[6]][:50]:        # grid points where the model says the generator raises
            locs = torch.zeros(1, 2, 2)
            locs[0, 1, 0] = w[1] / Q
            gp = dict(c["gp"])
            gp["loc_sampler"] = PinLoc(locs)
            env = E.CVRPTWEnv(generator_params=gp, check_solution=False)
            stats["replayed"] += 1
            try:
                with pinned_rand([torch.tensor([[0.0, w[2] / M]]), torch.tensor([[0.0, w[3] / M]])]):
                    env.generator(1)
                raised = False
            except AssertionError:
                raised = True
            if not raised:
                drift.append("CVRPTW at dist=%s u1=%s u2=%s: model says the generator's assertion fires, it does not"
                             % (w[1] / Q, w[2] / M, w[3] / M))


def model_mtvrp(tier, recs, pin_cfgs, drift, samples, stats, notes):
    import rl4co.envs as E

    for ci, C in enumerate(MTVRP_MODEL[tier]):
        wd, root = tlc.prepare("genmtvrp_%d" % ci, module="GenMTVRP")
        tlc.write_cfg(wd, root, constants=C, invariants=MTVRP_INV)
        r = tlc.run(wd, root, timeout=3000)
        stats["states"] += r.distinct
        stats["transitions"] += r.generated
        stats["model_violated"] += ["GenMTVRP:" + v for v in r.violated]
        rows = [w for w in r.tuples("V") if not w[8]]
        if not r.violated and len(rows) * 5 != r.distinct:
            raise tlc.TLCError("GenMTVRP: parsed %d emitted windows of %d states" % (len(rows), r.distinct))
        if not rows:
            continue
        G, T, L = int(C["G"]), int(C["T"]) / 1000.0, int(C["L"]) / 1000.0
        B = len(rows)
        c = {"fam": "mtvrp", "env": "mtvrp", "B": B, "nb": 1, "id": 20000 + ci,
             "gp": {"num_loc": 1, "variant_preset": "vrpltw", "max_time": T, "distance_limit": L},
             "pinned": "depot (0,0), customer on the diagonal at distance dist, draws (service, length, start)"}
        pin_cfgs.append(c)
        locs = torch.zeros(B, 2, 2)
        locs[:, 1, :] = torch.tensor([w[1] / 1000.0 / math.sqrt(2.0) for w in rows], dtype=torch.float32)[:, None]
        cols = [torch.ones(B, 1)] + [torch.tensor([[w[k] / G] for w in rows], dtype=torch.float32) for k in (2, 3, 4)]
        env = E.MTVRPEnv(generator_params=dict(c["gp"]), check_solution=False)
        env.generator.generate_locations = lambda batch_size, num_loc: locs.clone()      # harness-only pin
        torch.manual_seed(ci)
        try:
            with pinned_rand(cols) as left:
                td = env.generator(B)
        except Exception as e:      # noqa: BLE001
            if crash_site(e) is None:
                raise
            notes.append("pinned MTVRP replay: %s: %s" % (type(e).__name__, str(e)[:160]))
            recs.append({"fam": "mtvrp", "cfg": c["id"], "crashed": True, "where": crash_site(e), "stage": "generate",
                         "batch": 0, "roll": dict(NO_ROLL), "err": "%s: %s" % (type(e).__name__, str(e)[:200])})
            continue
        if left:
            raise tlc.TLCError("GenMTVRP replay: the generator did not consume the pinned draws")
        new = records_of_batch(c, env, td, 0, notes)
        tw, svc, lim = td["time_windows"], td["service_time"], td["distance_limit"]
        for j, w in enumerate(rows):
            stats["replayed"] += 1
            new[j]["pin"] = {"dist": w[1] / 1000.0, "draws": [w[2] / G, w[3] / G, w[4] / G]}
            exp = (w[7] / (1000.0 * G * G), (w[7] + w[6] * G) / (1000.0 * G * G), w[5] / (1000.0 * G))
            got = (float(tw[j, 1, 0]), float(tw[j, 1, 1]), float(svc[j, 1]))
            if any(abs(a - b) > 2e-5 for a, b in zip(exp, got)) or abs(float(lim[j, 0]) - L) > 1e-6:
                drift.append("MTVRP window at dist=%s draws=%s: real (start, end, service) %s, model %s"
                             % (w[1] / 1000.0, [w[2] / G, w[3] / G, w[4] / G], got, exp))
        recs += new
        samples.append({"model": "GenMTVRP", "dist": rows[-1][1] / 1000.0, "draws": [rows[-1][k] / G for k in (2, 3, 4)],
                        "window_spec": list(exp[:2]), "window_real": list(got[:2])})


# ----------------------------------------------------------------------------------------------------
# (3) recorded generator outputs: the configurations
# ----------------------------------------------------------------------------------------------------
def dpp_params(chip, **kw):
    from ..envs import dpp as dppmod

    p = dict(data_dir=dppmod.DATA, chip_file=chip, decap_file=dppmod.DECAP, freq_file=dppmod.FREQ)
    p.update(kw)
    return p


MTVRP_PRESETS = ["cvrp", "ovrp", "vrpb", "vrpl", "vrptw", "ovrptw", "ovrpb", "ovrpl", "vrpbl", "vrpbtw", "vrpltw",
                 "ovrpbl", "ovrpbtw", "ovrpltw", "vrpbltw", "ovrpbltw", "all", "single_feat", "single_feat_otw"]
SPECIAL_DIST = [("cluster", dict(n_cluster=3)), ("mixed", dict(n_cluster_mix=1)),
                ("gaussian_mixture", dict(num_modes=0, cdist=0)), ("gaussian_mixture", dict(num_modes=1, cdist=1)),
                ("gaussian_mixture", dict(num_modes=3, cdist=10)),
                ("mix_distribution", dict(n_cluster=3, n_cluster_mix=1)), ("mix_multi_distributions", dict())]


def configs(tier):
    from ..envs import dpp as dppmod

    q = tier == "quick"
    C = []

    def add(fam, env, B=8, nb=1, cls="", **gp):
        C.append({"fam": fam, "env": env, "gp": gp, "B": B, "nb": nb, "cls": cls})

    # --- TSP: sizes, bounds, every sampler of distribution_utils ---
    for n in ([5, 20] if q else [2, 5, 20, 37, 100]):
        add("tsp", "tsp", num_loc=n)
    add("tsp", "tsp", num_loc=10, min_loc=0.25, max_loc=0.75)
    add("tsp", "tsp", num_loc=10, min_loc=-1.0, max_loc=2.0)
    add("tsp", "tsp", num_loc=10, loc_distribution="uniform")
    for name, kw in SPECIAL_DIST:
        for n in ([10] if q else [7, 20, 50]):
            add("tsp", "tsp", num_loc=n, loc_distribution=name, **kw)
    # many points: a coordinate of the clustered samplers leaves the unit square with probability ~1e-4 before clamping
    add("tsp", "tsp", B=64, num_loc=100, loc_distribution="cluster", n_cluster=3)
    add("tsp", "tsp", B=64, num_loc=100, loc_distribution="mixed", n_cluster_mix=1)
    # --- ATSP ---
    for n in ([5, 10] if q else [3, 5, 10, 20]):
        add("atsp", "atsp", num_loc=n)
        add("atsp", "atsp", num_loc=n, tmat_class=False)
    add("atsp", "atsp", num_loc=6, min_dist=1.0, max_dist=5.0)
    # --- CVRP / SDVRP: table and off-table sizes, capacity override, demand range, depot samplers, bounds ---
    for n in ([10, 13, 20, 50] if q else [5, 10, 13, 15, 17, 20, 37, 50, 68, 100, 110, 200]):
        add("cvrp", "cvrp", B=8 if n <= 50 else 3, num_loc=n)
    for n in ([35] if q else [35, 45, 175]):                 # equidistant from two tabulated sizes
        add("cvrp", "cvrp", B=4, num_loc=n)
    add("cvrp", "cvrp", num_loc=10, capacity=15)
    add("cvrp", "cvrp", num_loc=10, depot_distribution=0.5)            # constant sampler
    add("cvrp", "cvrp", num_loc=6, capacity=10, min_demand=3, max_demand=3)
    add("cvrp", "cvrp", num_loc=12, capacity=10, min_demand=3, max_demand=10)
    add("cvrp", "cvrp", num_loc=10, min_demand=1, max_demand=5)
    add("cvrp", "cvrp", num_loc=10, depot_distribution="uniform")
    add("cvrp", "cvrp", num_loc=10, depot_distribution="center")
    add("cvrp", "cvrp", num_loc=10, depot_distribution="corner")
    add("cvrp", "cvrp", num_loc=10, min_loc=0.5, max_loc=1.0)
    add("cvrp", "cvrp", num_loc=10, min_loc=0.5, max_loc=1.0, depot_distribution="uniform")
    add("cvrp", "cvrp", num_loc=10, min_loc=0.5, max_loc=1.0, depot_distribution="corner")
    add("cvrp", "cvrp", cls="center-sampler-offset-bounds", num_loc=10, min_loc=0.5, max_loc=1.0, depot_distribution="center")
    add("cvrp", "cvrp", num_loc=12, loc_distribution="cluster", n_cluster=3)
    add("cvrp", "cvrp", num_loc=12, loc_distribution="mix_distribution", n_cluster=3, n_cluster_mix=1)
    for n in ([10, 17] if q else [10, 17, 20, 50]):
        add("cvrp", "sdvrp", num_loc=n)
    # --- CVRPTW: unscaled / scaled, sizes, other horizon ---
    for n in ([10, 17] if q else [5, 10, 17, 20, 50, 100]):
        for scale in (False, True):
            add("cvrptw", "cvrptw", B=8 if n <= 50 else 3, nb=2 if q else 4, num_loc=n, scale=scale)
    add("cvrptw", "cvrptw", num_loc=10, max_loc=75.0, max_time=240)
    add("cvrptw", "cvrptw", num_loc=10, max_time=1000, scale=True)
    add("cvrptw", "cvrptw", num_loc=10, depot_distribution="uniform")
    add("cvrptw", "cvrptw", num_loc=10, capacity=12)
    # --- OP: prize types, sizes, max length override ---
    for n in ([10, 20] if q else [5, 10, 20, 37, 50, 100]):
        for pt in ("dist", "const", "unif"):
            add("op", "op", cls="" if pt == "dist" else "prize-type", num_loc=n, prize_type=pt)
    add("op", "op", num_loc=10, max_length=1.5)
    add("op", "op", num_loc=10, depot_distribution="uniform")
    # --- PCTSP / SPCTSP ---
    for n in ([10, 20] if q else [5, 10, 20, 37, 50, 100]):
        add("pctsp", "pctsp", num_loc=n)
        add("pctsp", "spctsp", num_loc=n)
    add("pctsp", "pctsp", num_loc=10, penalty_factor=1.5)
    add("pctsp", "pctsp", num_loc=10, depot_distribution="uniform")
    # --- PDP: odd sizes are rounded up ---
    for n in ([10, 11] if q else [2, 3, 10, 11, 20, 50]):
        add("pdp", "pdp", num_loc=n)
    add("pdp", "pdp", num_loc=10, depot_distribution="uniform", min_loc=0.25, max_loc=0.75)
    # --- mTSP ---
    for n, a, b in ([(10, 2, 4), (20, 5, 5)] if q else [(5, 1, 1), (10, 2, 4), (20, 5, 5), (10, 1, 9), (50, 3, 10)]):
        add("mtsp", "mtsp", num_loc=n, min_num_agents=a, max_num_agents=b)
    # --- SVRP ---
    for n in ([10, 20] if q else [5, 10, 20, 50]):
        add("svrp", "svrp", num_loc=n)
    add("svrp", "svrp", num_loc=10, tech_costs=[1, 2])
    add("svrp", "svrp", num_loc=10, min_skill=2.0, max_skill=5.0, tech_costs=[1, 2, 3, 4])
    add("svrp", "svrp", num_loc=10, depot_distribution="uniform")
    # --- MDCPDP ---
    for n, nd in ([(10, 3), (11, 1)] if q else [(4, 1), (10, 3), (11, 1), (20, 5), (50, 5)]):
        add("mdcpdp", "mdcpdp", num_loc=n, num_depot=nd)
    add("mdcpdp", "mdcpdp", num_loc=10, num_depot=3, depot_mode="single")
    add("mdcpdp", "mdcpdp", num_loc=10, num_depot=2, min_capacity=2, max_capacity=2)
    add("mdcpdp", "mdcpdp", num_loc=10, num_depot=2, min_lateness_weight=0.5, max_lateness_weight=2.0)
    # --- MTVRP: every preset, off-rule sizes, capacity override, unscaled demand, no sub-sampling ---
    for p in MTVRP_PRESETS:
        for n in ([10] if q else [10, 20, 37]):
            add("mtvrp", "mtvrp", nb=1 if q else 2, num_loc=n, variant_preset=p)
    for n in ([50] if q else [5, 50, 100]):
        add("mtvrp", "mtvrp", B=4, num_loc=n, variant_preset="all")
    add("mtvrp", "mtvrp", num_loc=10, variant_preset="all", capacity=20)
    add("mtvrp", "mtvrp", num_loc=10, variant_preset="all", scale_demand=False)
    add("mtvrp", "mtvrp", num_loc=10, variant_preset=None, subsample=False)
    add("mtvrp", "mtvrp", num_loc=10, variant_preset="vrpb", backhaul_ratio=0.5, min_backhaul=2, max_backhaul=6)
    # vehicle speed other than 1: travel times differ from distances in the window construction
    add("mtvrp", "mtvrp", num_loc=10, variant_preset="vrptw", speed=0.8)
    add("mtvrp", "mtvrp", num_loc=10, variant_preset="ovrpbltw", speed=2.0)
    add("mtvrp", "mtvrp", num_loc=8, variant_preset="vrpltw", speed=0.5, max_time=10.0)
    # --- FJSP / JSSP ---
    add("fjsp", "fjsp", B=4, num_jobs=3, num_machines=3)
    add("fjsp", "fjsp", B=4, num_jobs=3, num_machines=3, min_ops_per_job=1, max_ops_per_job=3, same_mean_per_op=False)
    add("fjsp", "fjsp", B=4, num_jobs=4, num_machines=3, min_eligible_ma_per_op=2, max_eligible_ma_per_op=3)
    add("fjsp", "fjsp", B=4, num_jobs=3, num_machines=2, min_ops_per_job=2, max_ops_per_job=2, min_processing_time=5,
        max_processing_time=7)
    add("fjsp", "jssp", B=4, num_jobs=3, num_machines=3)
    add("fjsp", "jssp", B=4, num_jobs=4, num_machines=3, min_ops_per_job=1, max_ops_per_job=4, one2one_ma_map=False)
    add("fjsp", "jssp", B=4, num_jobs=3, num_machines=4, max_processing_time=5)
    if not q:
        add("fjsp", "fjsp", B=4, num_jobs=10, num_machines=5)
        add("fjsp", "fjsp", B=4, num_jobs=5, num_machines=4, min_eligible_ma_per_op=4)
        add("fjsp", "jssp", B=4, num_jobs=6, num_machines=6)
        add("fjsp", "jssp", B=4, num_jobs=10, num_machines=5)
    # --- FFSP ---
    add("ffsp", "ffsp", B=4)                                   # 2 stages x 3 machines, 4 jobs, times 2..10
    add("ffsp", "ffsp", B=4, num_stage=3, num_machine=2, num_job=5)
    add("ffsp", "ffsp", B=4, num_stage=1, num_machine=2, num_job=3, min_time=1, max_time=3)
    if not q:
        add("ffsp", "ffsp", B=4, num_stage=2, num_machine=1, num_job=3)
        add("ffsp", "ffsp", B=4, num_stage=3, num_machine=4, num_job=20)
    # --- SMTWTP ---
    for n in ([5, 10] if q else [1, 5, 10, 20, 50]):
        add("smtwtp", "smtwtp", num_job=n)
    add("smtwtp", "smtwtp", num_job=8, max_time_span=8.0, min_process_time=0.1, min_job_weight=0.5, max_job_weight=2.0)
    # --- FLP ---
    for n, k in ([(10, 3), (3, 1), (5, 5)] if q else [(10, 3), (3, 1), (5, 5), (100, 10), (20, 1), (2, 2)]):
        add("flp", "flp", num_loc=n, to_choose=k)
    add("flp", "flp", num_loc=8, to_choose=2, min_loc=0.25, max_loc=0.75)
    # --- MCP: default shape, small shapes (few sets: the sampled maximum set size may stay below max_size) ---
    add("mcp", "mcp", B=2)
    add("mcp", "mcp", num_items=20, num_sets=10, n_sets_to_choose=3, min_size=2, max_size=4)
    add("mcp", "mcp", B=1, nb=4 if q else 12, cls="few-sets", num_items=10, num_sets=3, n_sets_to_choose=2, min_size=1, max_size=4)
    add("mcp", "mcp", B=2, nb=2, num_items=6, num_sets=4, n_sets_to_choose=4, min_size=2, max_size=2)
    add("mcp", "mcp", num_items=30, num_sets=8, n_sets_to_choose=1, min_size=1, max_size=6, min_weight=2, max_weight=3)
    # --- DPP / MDPP on the synthetic chip data (harness/envs/dpp.py) ---
    dflt = os.path.join(dppmod.MDPP_CWD, "data", "dpp") + "/"
    add("dpp", "dpp", **dpp_params("syn4_chip.npy", num_keepout_min=1, num_keepout_max=4, max_decaps=3))
    add("dpp", "dpp", **dpp_params("syn3_chip.npy", num_keepout_min=1, num_keepout_max=3, max_decaps=2))
    add("dpp", "dpp", B=4, data_dir=dflt)                      # 10x10, default keep-out range and quota
    add("dpp", "mdpp", **dpp_params("syn4_chip.npy", num_keepout_min=1, num_keepout_max=4, max_decaps=3,
                                     num_probes_min=1, num_probes_max=3))
    add("dpp", "mdpp", B=4, data_dir=dflt)
    # --- degenerate ranges (minimum = maximum): admitted by the documented parameters / the generators' own checks ---
    dg = "degenerate-range"
    add("fjsp", "fjsp", B=4, cls=dg, num_jobs=3, num_machines=3, min_processing_time=5, max_processing_time=5)
    add("fjsp", "fjsp", B=4, num_jobs=3, num_machines=3, min_processing_time=5, max_processing_time=5, same_mean_per_op=False)
    add("fjsp", "jssp", B=4, num_jobs=3, num_machines=3, min_processing_time=5, max_processing_time=5)
    add("ffsp", "ffsp", B=4, cls=dg, min_time=3, max_time=3)
    add("dpp", "dpp", cls=dg, **dpp_params("syn4_chip.npy", num_keepout_min=2, num_keepout_max=2, max_decaps=3))
    add("dpp", "mdpp", cls=dg, **dpp_params("syn4_chip.npy", num_keepout_min=1, num_keepout_max=3, max_decaps=3,
                                             num_probes_min=2, num_probes_max=2))
    add("mtsp", "mtsp", num_loc=6, min_num_agents=2, max_num_agents=2)
    add("smtwtp", "smtwtp", num_job=4, min_process_time=1, max_process_time=1)
    add("atsp", "atsp", num_loc=4, min_dist=1.0, max_dist=1.0)
    add("mtvrp", "mtvrp", num_loc=6, variant_preset="all", min_demand=2, max_demand=2)
    for i, c in enumerate(C):
        c["id"] = i
    return C


# ----------------------------------------------------------------------------------------------------
# recording: TensorDict -> integer-scaled records
# ----------------------------------------------------------------------------------------------------
def dtclass(dt):
    if dt == torch.bool:
        return "bool"
    return "float" if dt.is_floating_point else "int"


def shapes(td):
    return [{"k": k, "s": [int(x) for x in v.shape[1:]], "dt": dtclass(v.dtype)} for k, v in td.items()]


def scl(t, S):
    """scaled, rounded integers of a tensor (nested lists keep the tensor's shape)"""
    return torch.round(t.double() * S).long().tolist()


def isint(t, tol=1e-3):
    return bool(((t.double() - torch.round(t.double())).abs() <= tol).all())


def bounds(gp, S, special=None):
    if gp.get("loc_distribution") in [d for d, _ in SPECIAL_DIST]:
        return 0, S                # the samplers of distribution_utils are defined on the unit square
    return int(round(gp.get("min_loc", 0.0) * S)), int(round(gp.get("max_loc", 1.0) * S))


def ex_tsp(td, gp, env):
    S = S6
    lo, hi = bounds(gp, S)
    return S, [{"N": td["locs"].shape[1], "xs": scl(td["locs"][r].flatten(), S), "lo": lo, "hi": hi}
               for r in range(td.shape[0])], [td["locs"]]


def ex_atsp(td, gp, env):
    S = S6
    D = td["cost_matrix"]
    return S, [{"N": D.shape[1], "D": scl(D[r], S), "dlo": int(round(gp.get("min_dist", 0.0) * S)),
                "dhi": int(round(gp.get("max_dist", 1.0) * S)), "tmat": bool(gp.get("tmat_class", True))}
               for r in range(D.shape[0])], [D]


def _cvrp_part(td, gp, S, r, lo, hi):
    cap = td["capacity"][r].double().flatten()[0]
    dem = td["demand"][r].double() * cap
    return {"N": td["locs"].shape[1], "xs": scl(td["locs"][r].flatten(), S), "dep": scl(td["depot"][r].flatten(), S),
            "lo": lo, "hi": hi, "dem": torch.round(dem).long().tolist(), "demInt": isint(dem),
            "cap": int(round(float(cap))) if abs(float(cap) - round(float(cap))) < 1e-6 else -1,
            "capCfg": int(gp.get("capacity") or 0), "minDem": int(gp.get("min_demand", 1)),
            "maxDem": int(gp.get("max_demand", 10))}


def ex_cvrp(td, gp, env):
    S = S6
    lo, hi = bounds(gp, S)
    return S, [_cvrp_part(td, gp, S, r, lo, hi) for r in range(td.shape[0])], [td["locs"], td["depot"], td["demand"],
                                                                                td["capacity"]]


def ex_cvrptw(td, gp, env):
    scale = bool(gp.get("scale", False))
    T = float(gp.get("max_time", 480))
    maxloc, minloc = float(gp.get("max_loc", 150.0)), float(gp.get("min_loc", 0.0))
    S = S6 if scale else 10 ** 4
    div = T if scale else 1.0
    lo = int(round(float(torch.tensor(minloc, dtype=torch.float32) / div) * S))
    hi = int(round(float(torch.tensor(maxloc, dtype=torch.float32) / div) * S))
    out = []
    d0 = (td["locs"].double() - td["depot"].double()[:, None, :]).norm(dim=-1)
    for r in range(td.shape[0]):
        rec = _cvrp_part(td, gp, S, r, lo, hi)
        tw = td["time_windows"][r].double()
        rec.update({"H": int(round((1.0 if scale else T) * S)), "tws": scl(tw[:, 0], S), "twe": scl(tw[:, 1], S),
                    "dur": scl(td["durations"][r], S), "d0": scl(d0[r], S), "scaled": scale})
        out.append(rec)
    return S, out, [td["locs"], td["depot"], td["demand"], td["capacity"], td["time_windows"].float(), td["durations"]]


def ex_op(td, gp, env):
    S = S6
    lo, hi = bounds(gp, S)
    out = []
    for r in range(td.shape[0]):
        p = td["prize"][r].double() * 100
        out.append({"N": td["locs"].shape[1], "xs": scl(td["locs"][r].flatten(), S), "dep": scl(td["depot"][r].flatten(), S),
                    "lo": lo, "hi": hi, "prize100": torch.round(p).long().tolist(), "prizeInt": isint(p),
                    "ptype": gp.get("prize_type", "dist"), "L": scl(td["max_length"][r].reshape(-1)[0], S),
                    "LCfg": int(round(float(gp.get("max_length") or 0) * S))})
    return S, out, [td["locs"], td["depot"], td["prize"], td["max_length"]]


def ex_pctsp(td, gp, env):
    S = S6
    lo, hi = bounds(gp, S)
    return S, [{"N": td["locs"].shape[1], "xs": scl(td["locs"][r].flatten(), S), "dep": scl(td["depot"][r].flatten(), S),
                "lo": lo, "hi": hi, "pen": scl(td["penalty"][r], S), "dprize": scl(td["deterministic_prize"][r], S),
                "sprize": scl(td["stochastic_prize"][r], S), "pf10": int(round(gp.get("penalty_factor", 3.0) * 10))}
               for r in range(td.shape[0])], [td["locs"], td["depot"], td["penalty"], td["deterministic_prize"],
                                              td["stochastic_prize"]]


def ex_pdp(td, gp, env):
    S = S6
    lo, hi = bounds(gp, S)
    return S, [{"N": td["locs"].shape[1], "reqN": int(gp.get("num_loc", 20)), "xs": scl(td["locs"][r].flatten(), S),
                "dep": scl(td["depot"][r].flatten(), S), "lo": lo, "hi": hi} for r in range(td.shape[0])], \
        [td["locs"], td["depot"]]


def ex_mtsp(td, gp, env):
    S = S6
    lo, hi = bounds(gp, S)
    return S, [{"N": td["locs"].shape[1], "xs": scl(td["locs"][r].flatten(), S), "lo": lo, "hi": hi,
                "m": int(td["num_agents"][r].reshape(-1)[0]), "mMin": int(gp.get("min_num_agents", 5)),
                "mMax": int(gp.get("max_num_agents", 5))} for r in range(td.shape[0])], [td["locs"]]


def ex_svrp(td, gp, env):
    S = S6
    lo, hi = bounds(gp, S)
    costs = list(gp.get("tech_costs", [1, 2, 3]))
    return S, [{"N": td["locs"].shape[1], "T": td["techs"].shape[1], "xs": scl(td["locs"][r].flatten(), S),
                "dep": scl(td["depot"][r].flatten(), S), "lo": lo, "hi": hi, "skill": scl(td["techs"][r].flatten(), S),
                "req": scl(td["skills"][r].flatten(), S), "cost": costs, "sMin": int(round(gp.get("min_skill", 1.0) * S)),
                "sMax": int(round(gp.get("max_skill", 10.0) * S))} for r in range(td.shape[0])], \
        [td["locs"], td["depot"], td["techs"], td["skills"]]


def ex_mdcpdp(td, gp, env):
    S = S6
    lo, hi = bounds(gp, S)
    return S, [{"N": td["locs"].shape[1], "reqN": int(gp.get("num_loc", 20)), "nd": td["depot"].shape[1],
                "xs": scl(td["locs"][r].flatten(), S), "deps": scl(td["depot"][r].flatten(), S), "lo": lo, "hi": hi,
                "cap": int(td["capacity"][r].reshape(-1)[0]), "capMin": int(gp.get("min_capacity", 1)),
                "capMax": int(gp.get("max_capacity", 5)), "lw": scl(td["lateness_weight"][r].reshape(-1)[0], S),
                "lwMin": int(round(gp.get("min_lateness_weight", 1.0) * S)),
                "lwMax": int(round(gp.get("max_lateness_weight", 1.0) * S)),
                "single": gp.get("depot_mode", "multiple") == "single"} for r in range(td.shape[0])], \
        [td["locs"], td["depot"], td["lateness_weight"]]


def ex_mtvrp(td, gp, env):
    S = S6
    lo, hi = bounds(gp, S)
    scale = bool(gp.get("scale_demand", True))
    out = []
    locs = td["locs"].double()
    d0 = (locs - locs[:, 0:1, :]).norm(dim=-1)
    inf_ok = True
    for r in range(td.shape[0]):
        capO = td["capacity_original"][r].double().flatten()[0]
        f = capO if scale else 1.0
        lh, bh = td["demand_linehaul"][r].double() * f, td["demand_backhaul"][r].double() * f
        tw = td["time_windows"][r].double()
        twe = [(-1 if math.isinf(v) and v > 0 else int(round(v * S))) for v in tw[:, 1].tolist()]
        lim = float(td["distance_limit"][r].reshape(-1)[0])
        speed = float(td["speed"][r].reshape(-1)[0])
        inf_ok = inf_ok and not torch.isinf(tw[:, 0]).any() and not (torch.isinf(tw[:, 1]) & (tw[:, 1] < 0)).any() \
            and not (math.isinf(lim) and lim < 0)
        out.append({"N": locs.shape[1] - 1, "xs": scl(td["locs"][r].flatten(), S), "lo": lo, "hi": hi,
                    "lh": torch.round(lh).long().tolist(), "bh": torch.round(bh).long().tolist(),
                    "demInt": isint(lh) and isint(bh), "capO": int(round(float(capO))),
                    "capCfg": int(gp.get("capacity") or 0), "vcap": scl(td["vehicle_capacity"][r].reshape(-1)[0], S),
                    "scaleDemand": scale, "open": bool(td["open_route"][r].reshape(-1)[0]),
                    "lim": -1 if math.isinf(lim) else int(round(lim * S)),
                    "limCfg": int(round(gp.get("distance_limit", 3.0) * S)),
                    "tws": scl(torch.nan_to_num(tw[:, 0], posinf=0.0, neginf=0.0), S), "twe": twe,
                    "svc": scl(td["service_time"][r], S), "d0": scl(d0[r], S),
                    "t0": scl(d0[r] / (speed if speed > 0 else 1.0), S), "H": int(round(gp.get("max_time", 4.6) * S)),
                    "speed": int(round(speed * S)), "speedCfg": int(round(gp.get("speed", 1.0) * S)),
                    "preset": gp.get("variant_preset") or "none", "minDem": int(gp.get("min_demand", 1)),
                    "maxDem": int(gp.get("max_demand", 10)), "minBh": int(gp.get("min_backhaul", 1)),
                    "maxBh": int(gp.get("max_backhaul", 10))})
    fin = [td["locs"], td["demand_linehaul"], td["demand_backhaul"], td["service_time"], td["vehicle_capacity"],
           td["capacity_original"], td["speed"], torch.nan_to_num(td["time_windows"], posinf=0.0),
           torch.nan_to_num(td["distance_limit"], posinf=0.0)]
    if not inf_ok:
        fin.append(torch.tensor([float("inf")]))
    return S, out, fin


def ex_fjsp(td, gp, env):
    jssp = env == "jssp"
    M = td["proc_times"].shape[1]
    out = []
    for r in range(td.shape[0]):
        st, en = td["start_op_per_job"][r].tolist(), td["end_op_per_job"][r].tolist()
        pt = td["proc_times"][r].double()
        maxops = gp.get("max_ops_per_job") or (M if jssp else 6)
        minops = gp.get("min_ops_per_job") or (M if jssp else 4)
        out.append({"J": len(st), "M": M, "P": pt.shape[1], "start": [int(x) for x in st], "end": [int(x) for x in en],
                    "nops": [int(e - s + 1) for s, e in zip(st, en)], "pad": [bool(x) for x in td["pad_mask"][r].tolist()],
                    "pt": torch.round(pt).long().tolist(), "ptInt": isint(pt), "jssp": jssp,
                    "one2one": bool(jssp and gp.get("one2one_ma_map", True)), "minOps": int(minops), "maxOps": int(maxops),
                    "minPT": int(gp.get("min_processing_time", 1)),
                    "maxPT": int(gp.get("max_processing_time", 99 if jssp else 20)),
                    "minEl": int(gp.get("min_eligible_ma_per_op", 1)),
                    "maxEl": int(gp.get("max_eligible_ma_per_op") or M)})
    return 1, out, [td["proc_times"].float()]


def ex_ffsp(td, gp, env):
    S_, m, J = int(gp.get("num_stage", 2)), int(gp.get("num_machine", 3)), int(gp.get("num_job", 4))
    return 1, [{"S": S_, "m": m, "N": J, "rt": [[int(x) for x in row] for row in td["run_time"][r].tolist()],
                "minT": int(gp.get("min_time", 2)), "maxT": int(gp.get("max_time", 10))} for r in range(td.shape[0])], []


def ex_smtwtp(td, gp, env):
    S = S6
    n = int(gp.get("num_job", 10))
    span = gp.get("max_time_span")
    span = n / 2 if span is None else span
    out = []
    for r in range(td.shape[0]):
        d, w, p = (scl(td[k][r], S) for k in ("job_due_time", "job_weight", "job_process_time"))
        out.append({"N": len(d) - 1, "dummy": [d[0], w[0], p[0]], "d": d[1:], "w": w[1:], "p": p[1:],
                    "dMin": int(round(gp.get("min_time_span", 0) * S)), "dMax": int(round(span * S)),
                    "wMin": int(round(gp.get("min_job_weight", 0) * S)), "wMax": int(round(gp.get("max_job_weight", 1) * S)),
                    "pMin": int(round(gp.get("min_process_time", 0) * S)),
                    "pMax": int(round(gp.get("max_process_time", 1) * S))})
    return S, out, [td["job_due_time"], td["job_weight"], td["job_process_time"]]


def ex_flp(td, gp, env):
    S = S6
    lo, hi = bounds(gp, S)
    out = []
    for r in range(td.shape[0]):
        D = td["orig_distances"][r].double()
        out.append({"N": td["locs"].shape[1], "xs": scl(td["locs"][r].flatten(), S), "lo": lo, "hi": hi,
                    "K": int(td["to_choose"][r].reshape(-1)[0]), "KCfg": int(gp.get("to_choose", 10)),
                    "symErr": scl((D - D.T).abs().max(), S), "diagMax": scl(D.diagonal().abs().max(), S),
                    "dPairMax": scl(D.max(), S), "dInitMin": scl(td["distances"][r].min(), S),
                    "dInitMax": scl(td["distances"][r].max(), S), "chosenCnt": int(td["chosen"][r].sum())})
    return S, out, [td["locs"], td["orig_distances"], td["distances"]]


def ex_mcp(td, gp, env):
    out = []
    for r in range(td.shape[0]):
        mem, w = td["membership"][r].double(), td["weights"][r].double()
        out.append({"N": mem.shape[0], "M": w.shape[0], "mem": torch.round(mem).long().tolist(),
                    "w": torch.round(w).long().tolist(), "wInt": isint(w) and isint(mem),
                    "K": int(round(float(td["n_sets_to_choose"][r].reshape(-1)[0]))),
                    "KCfg": int(gp.get("n_sets_to_choose", 10)), "minW": int(gp.get("min_weight", 1)),
                    "maxW": int(gp.get("max_weight", 10)), "minSz": int(gp.get("min_size", 5)),
                    "maxSz": int(gp.get("max_size", 15))})
    return 1, out, [td["membership"], td["weights"], td["n_sets_to_choose"]]


def ex_dpp(td, gp, env, size=None):
    S = S6
    n = td["locs"].shape[1]
    size = int(round(math.sqrt(n)))
    grid = torch.stack(torch.meshgrid(torch.arange(size), torch.arange(size), indexing="ij"), dim=-1).reshape(-1, 2).double() / size
    out = []
    for r in range(td.shape[0]):
        if env == "dpp":
            probes = [int(x) for x in td["probe"][r].reshape(-1).tolist()]
        else:
            probes = [int(i) for i in torch.nonzero(td["probe"][r].reshape(-1)).flatten().tolist()]
        avail = [int(i) for i in torch.nonzero(td["action_mask"][r].reshape(-1)).flatten().tolist()]
        keep = [i for i in range(n) if i not in set(avail) and i not in set(probes)]
        err = (td["locs"][r].double() - grid).abs().max() if grid.shape == td["locs"][r].shape else torch.tensor(1.0)
        out.append({"variant": env, "size": size, "N": n, "probes": probes, "avail0": avail, "keepout": keep,
                    "K": int(gp.get("max_decaps", 20)), "kMin": int(gp.get("num_keepout_min", 1)),
                    "kMax": int(gp.get("num_keepout_max", 50)),
                    "pMin": 1 if env == "dpp" else int(gp.get("num_probes_min", 2)),
                    "pMax": 1 if env == "dpp" else int(gp.get("num_probes_max", 5)), "gridErr": scl(err, S)})
    return S, out, [td["locs"]]


def expected_dims(c, env):
    """the dimensions the CONFIGURATION asks for (documented defaults where a parameter is not given)"""
    gp, fam, e = c["gp"], c["fam"], c["env"]
    if fam in ("tsp", "cvrp", "cvrptw", "op", "pctsp", "mtsp", "mtvrp"):
        return {"N": int(gp.get("num_loc", 20))}
    if fam == "atsp":
        return {"N": int(gp.get("num_loc", 10))}
    if fam == "pdp":
        n = int(gp.get("num_loc", 20))
        return {"N": n + n % 2, "reqN": n}
    if fam == "svrp":
        return {"N": int(gp.get("num_loc", 20)), "T": len(gp.get("tech_costs", [1, 2, 3]))}
    if fam == "mdcpdp":
        n = int(gp.get("num_loc", 20))
        return {"N": n + n % 2, "reqN": n, "nd": int(gp.get("num_depot", 5))}
    if fam == "fjsp":
        jssp = e == "jssp"
        J, M = int(gp.get("num_jobs", 6 if jssp else 10)), int(gp.get("num_machines", 6 if jssp else 5))
        maxops = int(gp.get("max_ops_per_job") or (M if jssp else 6))
        return {"J": J, "M": M, "P": maxops * J, "maxOps": maxops}
    if fam == "ffsp":
        return {"S": int(gp.get("num_stage", 2)), "m": int(gp.get("num_machine", 3)), "N": int(gp.get("num_job", 4))}
    if fam == "smtwtp":
        return {"N": int(gp.get("num_job", 10))}
    if fam == "flp":
        return {"N": int(gp.get("num_loc", 100))}
    if fam == "mcp":
        return {"N": int(gp.get("num_sets", 100)), "M": int(gp.get("num_items", 200)), "maxSz": int(gp.get("max_size", 15))}
    if fam == "dpp":
        size = int(env.generator.size)          # defined by the chip data file
        return {"size": size, "N": size * size, "variant": e}
    raise KeyError(fam)


EXTRACT = {"tsp": ex_tsp, "atsp": ex_atsp, "cvrp": ex_cvrp, "cvrptw": ex_cvrptw, "op": ex_op, "pctsp": ex_pctsp,
           "pdp": ex_pdp, "mtsp": ex_mtsp, "svrp": ex_svrp, "mdcpdp": ex_mdcpdp, "mtvrp": ex_mtvrp, "fjsp": ex_fjsp,
           "ffsp": ex_ffsp, "smtwtp": ex_smtwtp, "flp": ex_flp, "mcp": ex_mcp, "dpp": ex_dpp}
NO_ROLL = {"ran": False, "done": False, "dead": False, "raised": False, "hang": False, "steps": 0, "cap": 0, "minmask": 0}


def make_env(c):
    import rl4co.envs as E
    from ..envs import dpp as dppmod

    cls = {"tsp": E.TSPEnv, "atsp": E.ATSPEnv, "cvrp": E.CVRPEnv, "sdvrp": E.SDVRPEnv, "cvrptw": E.CVRPTWEnv,
           "op": E.OPEnv, "pctsp": E.PCTSPEnv, "spctsp": E.SPCTSPEnv, "pdp": E.PDPEnv, "mtsp": E.MTSPEnv,
           "svrp": E.SVRPEnv, "mdcpdp": E.MDCPDPEnv, "mtvrp": E.MTVRPEnv, "fjsp": E.FJSPEnv, "jssp": E.JSSPEnv,
           "ffsp": E.FFSPEnv, "smtwtp": E.SMTWTPEnv, "flp": E.FLPEnv, "mcp": E.MCPEnv, "dpp": E.DPPEnv,
           "mdpp": E.MDPPEnv}[c["env"]]
    kw = {} if c["env"] in ("fjsp", "jssp", "ffsp") else {"check_solution": False}
    if c["env"] in ("dpp", "mdpp"):
        dppmod.ensure_data()
        cwd = os.getcwd()
        os.chdir(dppmod.MDPP_CWD)      # MDPPEnv.__init__ first builds a default DPPGenerator ("data/dpp/" relative to cwd)
        try:
            return cls(generator_params=dict(c["gp"]), **kw)
        finally:
            os.chdir(cwd)
    return cls(generator_params=dict(c["gp"]), **kw)


def rollout(env, td, B):
    """one uniformly random mask-confined episode per row (the whole batch stepped together, as rl4co's loops do)"""
    width = int(td["action_mask"].reshape(B, -1).shape[1])
    cap = 20 * width + 100
    steps = torch.zeros(B, dtype=torch.long)
    minmask = torch.full((B,), 10 ** 6 - 1, dtype=torch.long)
    dead = torch.zeros(B, dtype=torch.bool)
    n = 0

    def done_rows(t):
        return t["done"].reshape(B, -1)[:, 0].bool().clone()

    dn = done_rows(td)
    while not bool(dn.all()) and n < cap:
        m = td["action_mask"].reshape(B, -1)
        cnt = m.sum(-1)
        minmask = torch.where(~dn, torch.minimum(minmask, cnt.long()), minmask)
        dead = dead | (~dn & (cnt == 0))
        if bool(dead.any()):
            break
        w = m.float().clone()
        w[cnt == 0, 0] = 1.0
        td.set("action", torch.multinomial(w, 1).squeeze(-1))
        td = env.step(td)["next"]
        n += 1
        steps = torch.where(~dn, torch.full_like(steps, n), steps)
        dn = done_rows(td)
    return [{"ran": True, "done": bool(dn[r]), "dead": bool(dead[r]), "raised": False, "hang": False,
             "steps": int(steps[r]), "cap": cap, "minmask": int(minmask[r])} for r in range(B)]


def records_of_batch(c, env, td0, b, notes, episodes=True):
    """the records of one generated batch (+ one random episode per row of the real environment)"""
    B = td0.shape[0]
    common = {"fam": c["fam"], "cfg": c["id"], "crashed": False, "where": "", "keys": sorted(td0.keys()),
              "shp": shapes(td0), "batch": b}
    exp = expected_dims(c, env)
    try:
        S, rows, fin = EXTRACT[c["fam"]](td0, c["gp"], c["env"])
        finite = all(bool(torch.isfinite(t.double()).all()) for t in fin)
        ok = all(row.get(k) == v for row in rows for k, v in exp.items())
        if not ok:
            notes.append("cfg %d %s: emitted dimensions differ from the requested %s" % (c["id"], c["env"], exp))
    except (KeyError, IndexError, RuntimeError, ValueError, TypeError, OverflowError) as e:
        notes.append("cfg %d %s: unreadable output (%s: %s)" % (c["id"], c["env"], type(e).__name__, str(e)[:120]))
        S, rows, finite, ok = S6, [{} for _ in range(B)], False, False
    if not ok or not finite:
        rows = [{} for _ in range(B)]
    rolls = [dict(NO_ROLL) for _ in range(B)]
    if ok and finite and episodes:
        try:
            td = env.reset(td0.clone())
            with wall_guard(300):
                rolls = rollout(env, td, B)
        except _Timeout:
            rolls[0].update({"ran": True, "hang": True})
        except Exception as e:      # noqa: BLE001
            where = crash_site(e)
            if where is None:
                raise
            notes.append("cfg %d %s episode: %s at %s: %s" % (c["id"], c["env"], type(e).__name__, where, str(e)[:160]))
            rolls[0].update({"ran": True, "raised": True})
            common["where"] = where
            common["err"] = "%s: %s" % (type(e).__name__, str(e)[:200])
    recs = []
    for r in range(B):
        rec = dict(common)
        rec.update(rows[r])
        rec.update(exp)
        rec.update({"U": S, "ok": ok, "finite": bool(finite) if ok else False, "row": r, "roll": rolls[r]})
        recs.append(rec)
    return recs


def record_config(c, seed, notes):
    """all records of one configuration; library exceptions become `crashed` / `roll.raised` records"""
    recs = []

    def crashed(e, stage, b):
        where = crash_site(e)
        if where is None:
            raise e
        notes.append("cfg %d %s %s: %s at %s: %s" % (c["id"], c["env"], stage, type(e).__name__, where, str(e)[:160]))
        return {"fam": c["fam"], "cfg": c["id"], "crashed": True, "where": where, "stage": stage, "batch": b,
                "tseed": seed * 100003 + c["id"] * 101 + max(b, 0), "roll": dict(NO_ROLL),
                "err": "%s: %s" % (type(e).__name__, str(e)[:200])}

    try:
        env = make_env(c)
    except Exception as e:      # noqa: BLE001
        return [crashed(e, "construct", -1)]
    for b in range(c["nb"]):
        s = seed * 100003 + c["id"] * 101 + b
        torch.manual_seed(s)
        random.seed(s)
        try:
            td0 = env.generator(c["B"])
        except Exception as e:      # noqa: BLE001
            recs.append(crashed(e, "generate", b))
            continue
        new = records_of_batch(c, env, td0, b, notes)
        for rec in new:
            rec["tseed"] = s
        recs += new
    return recs


# ----------------------------------------------------------------------------------------------------
def run(tier, seed):
    t0 = time.time()
    import logging

    logging.disable(logging.WARNING)
    import rl4co.envs  # noqa: F401  (also switches off torch.distributions argument validation, as for every user)

    torch.set_num_threads(2)
    viol, samples, notes, drift, pin_cfgs, recs = [], [], [], [], [], []
    stats = {"states": 0, "transitions": 0, "replayed": 0, "model_violated": []}
    model_cvrptw(tier, recs, pin_cfgs, drift, samples, stats, notes)
    model_mtvrp(tier, recs, pin_cfgs, drift, samples, stats, notes)
    t_model = time.time() - t0
    n_pinned = len(recs)
    # ---- recorded generator outputs ----
    cfgs = configs(tier)
    nrep = 2 if tier == "quick" else 5
    for rep in range(nrep):
        for c in cfgs:
            recs += record_config(c, seed + 7919 * rep, notes)
    t_rec = time.time() - t0 - t_model
    fails, _, st, _ = validate_records("GenTrace", recs, TRACE_INV, "c18", shards=16, per_shard=250)
    fam_of = {c["id"]: c for c in cfgs + pin_cfgs}
    seen = {}
    for f in fails:
        rec = recs[f[0]]
        c = fam_of[rec["cfg"]]
        key = (rec["cfg"], f[1])
        seen[key] = seen.get(key, 0) + 1
        if seen[key] > 3:              # three witnesses per configuration and clause are enough
            continue
        inst = {"generator_params": c["gp"], "batch_size": c["B"], "torch_manual_seed": rec.get("tseed"),
                "batch": rec.get("batch"), "row": rec.get("row")}
        for k in ("pin", "N", "cap", "dem", "dep", "lo", "hi", "tws", "twe", "d0", "H", "preset", "open", "lim", "K", "shp",
                  "where", "err", "stage"):
            if k in rec:
                inst[k] = rec[k]
        if c.get("pinned"):
            inst["pinned"] = c["pinned"]
        viol.append({"property": "C18", "env": c["env"], "monitor": f[1], "cls": c.get("cls", ""), "inst": inst, "actions": [],
                     "detail": "%s generator, configuration %s: clause '%s' of Generators.tla fails%s"
                               % (c["env"], c["gp"], f[1], (" -- " + rec["err"] + " at " + rec["where"]) if rec.get("err") else
                                  (" -- roll %s" % rec["roll"] if rec["roll"]["ran"] else ""))})
    for d in drift[:5]:
        print("MODEL-DRIFT C18: %s" % d)
    if stats["model_violated"]:
        print("MODEL-DRIFT C18: the generator models violate their own invariants %s" % stats["model_violated"])
    for n in notes[:10]:
        print("[C18] note: %s" % n)
    n_new, n_known = verdict.report("C18", viol)
    per_fam = {}
    for r in recs:
        per_fam[r["fam"]] = per_fam.get(r["fam"], 0) + 1
    okrec = next((r for r in recs if not r["crashed"] and r["fam"] == "cvrptw"), None)
    if okrec:
        samples.append({"recorded_instance": {k: okrec[k] for k in ("fam", "N", "cap", "dem", "tws", "twe", "d0", "H", "roll")}})
    cov = {"states": stats["states"] + st, "transitions": stats["transitions"],
           "traces_validated_against_impl": len(recs), "samples": samples[:6], "exhaustive": True,
           "replayed_grid_points": stats["replayed"], "recorded_instances": len(recs) - n_pinned, "model_drift": len(drift), "configurations": len(cfgs),
           "episodes_run": sum(1 for r in recs if r["roll"]["ran"]), "instances_per_family": per_fam,
           "model_constants": {"GenCVRPTW": CVRPTW_MODEL[tier], "GenMTVRP": MTVRP_MODEL[tier]},
           "wall_model_s": round(t_model, 1), "wall_record_s": round(t_rec, 1), "notes": notes[:20],
           "known_finding_witnesses": n_known,
           "explanation": "GenCVRPTW.tla / GenMTVRP.tla (exact arithmetic of the time-window constructions) model-checked for "
                          "all grid points and replayed into the real generators with pinned draws; every generator x "
                          "parameter grid x seeds recorded (instance + one random mask-confined episode of the real "
                          "environment) and validated by GenTrace.tla against the contract Generators.tla."}
    verdict.write_evidence("C18", tier, seed, "model_checking", cov,
                           ["configurations inside the documented parameter ranges (CVRPTW: max_time >= 2*sqrt(2)*max_loc + 2; "
                            "capacity overrides >= max_demand; MTVRP on the unit square with speed 1)",
                            "unit-square quantities scaled by 1e6 and rounded (monotone: <= is preserved); float-vs-float "
                            "clauses carry a slack of 2 units",
                            "DPP/MDPP on synthetic chip data (harness/envs/dpp.py)",
                            "one random episode per instance; normal/exponential/poisson samplers (unbounded) not claimed"],
                           time.time() - t0, n_new)
    return 1 if n_new else 0
