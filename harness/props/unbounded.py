"""UNBOUNDED lifts of TLC-checked (bounded) results, with the other two tools of the TLA+ trifecta.

TLC explores the specification for small parameters (B <= 4, n <= 6, <= 4 epochs ...).  This module re-establishes a part of
those results for ALL parameter values:

  Apalache 0.58 (`apalache-mc check`, SMT over mathematical integers) checks INDUCTIVE invariants of scalar / pointwise
      abstractions  spec/*/MC_*_apa.tla :   Init => Ind   (--init=Init --inv=Ind --length=0)
                                            Ind /\\ Next => Ind' and Ind => Concl   (--init=Ind --inv=Ind,Concl --length=1)
  TLAPS (`tlapm`, back ends Z3 / Zenon / Isabelle) proves the index algebra of C12 in its direct form
      (spec/decode/LayoutIdx_proofs.tla), where Apalache/Z3 alone diverges (x % (B*q) with symbolic B, q), and the closed form
      of the EMA recurrence of C20 by induction (spec/train/EmaClosed_proofs.tla);
  TLC ties every abstraction to the module it abstracts, on the bounded scope (spec/*/MC_*_eq.tla): operator equivalence
      (Layout) or step-by-step refinement under a mapping, for every watched index (Loader, TrainingRun, Stats).

  property  abstracts            unbounded in                                   tool
  C12       decode/Layout.tla    batch size B, nesting depth, every factor, K   apalache (MC_Layout_apa) + tlapm (LayoutIdx_proofs)
  C17       data/Loader.tla      n, batch size b, evaluation batch size e       apalache (MC_Loader_apa)
  C17/C20   train/TrainingRun    epochs, warm-up length, NTrain, NEval, policy  apalache (MC_TrainingRun_apa)
  C20       train/Stats.tla (U)  warm-up length NEp, number of calls            apalache (MC_Stats_apa)
  C20       train/Stats.tla (E)  number of calls, beta = p/d, batch means       tlapm (EmaClosed_proofs) + tlc link (MC_EmaClosed_eq)
  NOT lifted: RetExact (convex combination of two EMAs; definitional once EmaExact holds) and the Welford machine W of Stats.tla
  (exact rationals with sums of symbolic length: no SMT theory for Apalache; tlapm can neither load Rat.tla / Stats.tla
  (RECURSIVE is rejected) nor reason about rationals -- the EMA proof works on an integer-scaled restatement).

`run_all(tier)` -> list of {"module", "tool", "claim", "ok", "wall_s", "detail", "id"}:  ok True = proved / no error,
False = counterexample / failed proof obligation (detail says which), None = timeout or tool failure.  Never raises.  Everything
(copies of the modules, tool output, JVM / SANY / Isabelle temporaries) goes to the per-run scratch directory `harness.tlc.OUT`;
nothing is written to /tmp or to the checkout.  At most 4 tool processes at a time, one JVM thread each.

`mutants()` shows non-vacuity: single-site mutations of the restated operators / abstract machines (e.g. owner = r div B)
make the tools report counterexamples.   Standalone:  /venv/bin/python -m harness.props.unbounded quick|thorough|mutants
"""
import concurrent.futures
import glob
import os
import re
import shutil
import signal
import subprocess
import sys
import time

from harness import tlc

PAR = 4                      # concurrent tool processes (shared machine)
JVM_ARGS = "-Xmx2g -XX:ActiveProcessorCount=1 -XX:-UsePerfData -XX:TieredStopAtLevel=1"
JVM_GC_ARGS = "-XX:+UseSerialGC"
APA_TIMEOUT = {"quick": 120, "thorough": 600}
TLAPM_TIMEOUT = 900


def _apa(jid, module, init, nxt, inv, length, claim, tier="quick"):
    return dict(id=jid, tool="apalache", module=module, init=init, next=nxt, inv=inv, length=length, claim=claim, tier=tier)


def _ind(prefix, module, init, nxt, ind, concl, what, rng):
    """the two Apalache runs of one inductive argument"""
    return [_apa(prefix + ".base", module, init, nxt, ind, 0, "%s: initial states satisfy the inductive invariant %s [%s]" % (what, ind, rng)),
            _apa(prefix + ".step", module, ind, nxt, ind + "," + concl, 1,
                 "%s: %s is preserved by every step and implies %s [%s]" % (what, ind, concl, rng))]


LAYOUT_RNG = "all integers B >= 1, any depth, every factor >= 1"
JOBS = (
    _ind("C12.LB", "MC_Layout_apa", "InitB", "StepB", "IndInvB", "ConclB",
         "batchify at any nesting depth: row i of the expansion belongs to instance ((i-1) mod B)+1 (RowOwner)", LAYOUT_RNG)
    + _ind("C12.LU", "MC_Layout_apa", "InitU", "StepU", "IndInvU", "ConclU",
           "unbatchify at any depth: rows stay with their owner (RowsStayOwned); unbatchify(batchify(x)) = x (RoundTrip)", LAYOUT_RNG)
    + [_apa("C12.lemmas", "MC_Layout_apa", "Free", "Stutter", "Lemmas", 0,
            "owner(copy j of b) = b; sources in range; stride of unbatchify; one-level round trip for x of any length; unbatchify is a "
            "bijection; the best-of-K pick is an own rollout and every own row is one of the K rollouts [all integers B, r, s, K >= 1]")]
    + _ind("C17.P", "MC_Loader_apa", "InitP", "StepP", "IndInvP", "ConclP",
           "loader pass: every position delivered exactly once in loader order with its own extra, batches full but the last, "
           "ceil(n/b) batches (Exactly, ExtraIsOwn, Sizes)", "all integers n >= 1, b >= 1")
    + _ind("C17.E", "MC_Loader_apa", "InitE", "StepE", "IndInvE", "ConclE",
           "baseline rollout in evaluation batches: extraOf[i] = F(i) and Len = n whatever the evaluation batch size",
           "all integers n >= 1, e >= 1")
    + _ind("C20.run", "MC_TrainingRun_apa", "Init", "Next", "Ind", "Concl",
           "epoch protocol: AlphaSchedule, ExtraAtWrap, ExtraFromCurrentBaseline, BlValsCurrent, DatasetPerEpoch, VersionsCount, "
           "TypeOK, wrapped iff not the first epoch or no warm-up",
           "any number of epochs >= 1, warm-up >= 0, NTrain, NEval >= 1, any integer policy values")
    + _ind("C20.U", "MC_Stats_apa", "Init", "Next", "Ind", "Concl,Act",
           "warm-up schedule: alpha = min(1, epoch/NEp) (AlphaExact), monotone, inner baseline idle before the first callback, "
           "warm-up baseline frozen after the NEp-th", "all integers NEp >= 1, any number and interleaving of calls")
)

L_CONST = {"MaxB": "3", "Factors": "{1,2,3}", "MaxDepth": "2", "SB": "2", "SK": "3", "Rewards": "{0,1,2}"}
L_CONST_T = dict(L_CONST, MaxB="4", MaxDepth="3")


def _tlc(jid, module, claim, constants, invariants, properties=(), init_next=None, tier="quick"):
    return dict(id=jid, tool="tlc", module=module, claim=claim, constants=constants, invariants=list(invariants),
                properties=list(properties), init_next=init_next, tier=tier)


TLC_JOBS = [
    _tlc("C12.eq.L", "MC_Layout_eq", "BatchifySingle / UnbatchifySingle of Layout.tla = BSrc / USrc of LayoutIdx.tla (all sequences of "
         "length <= 12, factors <= 5, and on every step of machine L); lengths are B * product of factors", L_CONST,
         ["EqShape", "EqOwner", "RowOwner", "RoundTrip", "RowsStayOwned"], ["EqStepB", "EqStepU"], ("InitLL", "NextLL")),
    _tlc("C12.eq.S", "MC_Layout_eq", "PickedRow / ownership expression of Layout.tla = Picked / Owner of LayoutIdx.tla", L_CONST,
         ["EqPicked", "BestIsOwnMax"], [], ("InitSS", "NextSS")),
    _tlc("C17.eq", "MC_Loader_eq", "Loader.tla refines machine P of MC_Loader_apa.tla for every watched position; EvalChunks unfolds as "
         "machine E", {"MaxN": "5", "Shuffle": "FALSE"}, ["RefInit", "RefInv", "Exactly", "ExtraIsOwn", "Sizes"], ["RefStep"]),
    _tlc("C20.run.eq", "MC_TrainingRun_eq", "TrainingRun.tla refines MC_TrainingRun_apa.tla for every watched training / evaluation item",
         dict(MaxEpochs="3", MinWarm="0", MaxWarm="2", PolVals="{0,2}", Pol0="1", NTrain="3", NEval="2", B="2", Shuffle="FALSE"),
         ["RefInit", "RefInv", "AlphaSchedule", "ExtraFromCurrentBaseline"], ["RefStep"]),
    _tlc("C20.U.eq", "MC_Stats_eq", "machine U of Stats.tla refines MC_Stats_apa.tla",
         dict(Vals0="{0,1}", Off="1", MaxLen="1", MaxB="6", BetaN="4", BetaD="5", Beta2N="1", Beta2D="2", NEp="3"),
         ["RefInit", "RefInv", "AlphaExact"], ["RefStep"], ("InitU", "NextU")),
    _tlc("C20.ema.eq", "MC_EmaClosed_eq", "v / EmaClosed of Stats.tla (machine E, exact rationals) are V[t] / (p^t m0 + T[t][t]) over L d^t of "
         "EmaClosed_proofs.tla, built by the recurrences that are the theorem's hypotheses",
         dict(Vals0="{0,1,3}", Off="1", MaxLen="2", MaxB="3", BetaN="4", BetaD="5", Beta2N="1", Beta2D="2", NEp="3"),
         ["Hyp", "EqRec", "EqClosed", "ThmInst", "EmaExact"], [], ("InitE", "NextE")),
    # thorough: the scopes the property checks themselves use
    _tlc("C20.ema.eq.t", "MC_EmaClosed_eq", "as C20.ema.eq, beta = 1/2, batches of up to 3 values (L = 6)",
         dict(Vals0="{0,2,5}", Off="2", MaxLen="3", MaxB="3", BetaN="1", BetaD="2", Beta2N="0", Beta2D="1", NEp="3"),
         ["Hyp", "EqRec", "EqClosed", "ThmInst", "EmaExact"], [], ("InitE", "NextE"), "thorough"),
    _tlc("C12.eq.L.t", "MC_Layout_eq", "as C12.eq.L, B <= 4, depth <= 3", L_CONST_T,
         ["EqShape", "EqOwner", "RowOwner", "RoundTrip", "RowsStayOwned"], ["EqStepB", "EqStepU"], ("InitLL", "NextLL"), "thorough"),
    _tlc("C12.eq.S.t", "MC_Layout_eq", "as C12.eq.S, SB = 3, SK = 2", dict(L_CONST, SB="3", SK="2"),
         ["EqPicked", "BestIsOwnMax"], [], ("InitSS", "NextSS"), "thorough"),
    _tlc("C17.eq.shuffle", "MC_Loader_eq", "as C17.eq with every loader order (shuffle)", {"MaxN": "4", "Shuffle": "TRUE"},
         ["RefInit", "RefInv", "Exactly", "ExtraIsOwn", "Sizes"], ["RefStep"], None, "thorough"),
    _tlc("C20.run.eq.t", "MC_TrainingRun_eq", "as C20.run.eq, <= 4 epochs, warm-up 0..3, 3 policy values",
         dict(MaxEpochs="4", MinWarm="0", MaxWarm="3", PolVals="{0,1,2}", Pol0="1", NTrain="3", NEval="2", B="2", Shuffle="FALSE"),
         ["RefInit", "RefInv", "AlphaSchedule", "ExtraFromCurrentBaseline"], ["RefStep"], None, "thorough"),
    _tlc("C20.U.eq.t", "MC_Stats_eq", "as C20.U.eq, NEp = 2, batches of up to 2 values, 4 calls",
         dict(Vals0="{0,1,3}", Off="1", MaxLen="2", MaxB="4", BetaN="4", BetaD="5", Beta2N="1", Beta2D="2", NEp="2"),
         ["RefInit", "RefInv", "AlphaExact"], ["RefStep"], ("InitU", "NextU"), "thorough"),
]

TLAPM_JOBS = [
    dict(id="C12.tlaps", tool="tlapm", module="LayoutIdx_proofs", tier="thorough",
         claim="proved for all naturals: OwnerOfCopy, ModMod, BatchifyKeepsOwner (induction step of RowOwner at any depth), Stride, "
               "UnbatchifyKeepsOwner (induction step of RowsStayOwned), RoundTrip1, BestOfK (BestIsOwnMax for any B, K, any integer "
               "reward function)"),
    dict(id="C20.ema.tlaps", tool="tlapm", module="EmaClosed_proofs", tier="thorough",
         claim="proved by induction for any number of calls, any beta = p/d, any batch means: the EMA recurrence (EmaStep) has the "
               "closed form beta^t m_0 + sum_j (1-beta) beta^(t-j) m_j (EmaClosed / EmaExact), integer-scaled"),
]


# ------------------------------------------------------------------------------------------------------------------
def _prepare(job, tag, mutate):
    wd, root = tlc.prepare("unb_%s%s" % (job["id"].replace(".", "_"), tag), module=job["module"])
    for fname, old, new in mutate or ():
        p = os.path.join(wd, fname)
        if not os.path.exists(p):
            continue
        txt = open(p).read()
        if old == "@APPEND@":
            i = txt.rindex("\n=====")                        # before the closing line of the module
            txt = txt[:i] + "\n" + new + txt[i:]
        else:
            if old not in txt:
                raise RuntimeError("mutation site not found in %s: %s" % (fname, old))
            txt = txt.replace(old, new, 1)
        open(p, "w").write(txt)
    return wd, root


def _env(wd):
    e = dict(os.environ)
    tmp = os.path.join(wd, "_tmp")
    os.makedirs(tmp, exist_ok=True)
    e["TMPDIR"] = tmp                  # apalache-mc: mktemp for SANY's java.io.tmpdir; tlapm / Isabelle: ISABELLE_TMP_PREFIX
    e["JVM_ARGS"] = JVM_ARGS
    e["JVM_GC_ARGS"] = JVM_GC_ARGS
    e.setdefault("USER", "verif")
    return e


def _sub(cmd, cwd, env, timeout):
    """subprocess.run that kills the whole process group on timeout (tlapm leaves z3 / isabelle children otherwise)"""
    p = subprocess.Popen(cmd, cwd=cwd, env=env, stdout=subprocess.PIPE, stderr=subprocess.STDOUT, text=True, start_new_session=True)
    try:
        out, _ = p.communicate(timeout=timeout)
    except subprocess.TimeoutExpired:
        try:
            os.killpg(p.pid, signal.SIGKILL)
        except OSError:
            pass
        p.communicate()
        raise
    return p.returncode, out


def _result(job, ok, wall, detail):
    return {"id": job["id"], "module": job["module"], "tool": job["tool"], "claim": job["claim"], "ok": ok,
            "wall_s": round(wall, 1), "detail": detail}


def _run_apalache(job, tier, tag="", mutate=None):
    t0 = time.time()
    try:
        wd, root = _prepare(job, tag, mutate)
        out_dir = os.path.join(wd, "_apa")
        cmd = ["apalache-mc", "check", "--init=" + job["init"], "--next=" + job["next"], "--inv=" + job["inv"],
               "--length=%d" % job["length"], "--out-dir=" + out_dir, "--run-dir=" + os.path.join(out_dir, "run"), root + ".tla"]
        try:
            rc, out = _sub(cmd, wd, _env(wd), APA_TIMEOUT[tier])
        except subprocess.TimeoutExpired:
            return _result(job, None, time.time() - t0, "timeout after %d s (%s)" % (APA_TIMEOUT[tier], wd))
        finally:
            shutil.rmtree(os.path.join(wd, "_tmp"), ignore_errors=True)
        open(os.path.join(wd, "apalache.log"), "w").write(" ".join(cmd) + "\n" + out)
        wall = time.time() - t0
        if rc == 0 and "The outcome is: NoError" in out:
            n = len(re.findall(r"invariant \d+ holds", out))
            return _result(job, True, wall, "NoError; %d verification conditions hold" % n)
        if rc == 12 and "The outcome is: Error" in out:
            which = re.findall(r"State (\d+): (state|action) invariant (\d+) violated", out)
            cex = ""
            for f in sorted(glob.glob(os.path.join(out_dir, "run", "violation*.tla"))):
                txt = open(f).read()
                body = txt[txt.find("State0"):txt.find("=====", txt.find("State0"))]
                cex = " ".join(l.strip() for l in body.splitlines() if l.strip() and not l.startswith("(*"))
                break
            return _result(job, False, wall, "counterexample: invariant %s of --inv=%s violated in state %s; %s" % (
                ",".join(w[2] for w in which), job["inv"], ",".join(w[0] for w in which), cex[:1500]))
        err = re.findall(r"[^\n]*(?:rror|EXITCODE)[^\n]*", out)
        return _result(job, None, wall, "apalache failed rc=%d: %s (%s)" % (rc, " | ".join(err[:3])[:600], wd))
    except Exception as ex:                                   # never raise
        return _result(job, None, time.time() - t0, "harness error: %r" % (ex,))


def _run_tlc(job, tier, tag="", mutate=None):
    t0 = time.time()
    try:
        wd, root = _prepare(job, tag, mutate)
        tlc.write_cfg(wd, root, constants=job["constants"], invariants=job["invariants"], properties=job["properties"],
                      init_next=job["init_next"])
        tmp = os.path.join(wd, "_tmp")
        os.makedirs(tmp, exist_ok=True)
        try:                                                  # (TLC makes an empty tlc-* directory in java.io.tmpdir)
            r = tlc.run(wd, root, workers=1, heap="2g", timeout=600, env={"JAVA_TOOL_OPTIONS": "-Djava.io.tmpdir=" + tmp})
        except tlc.TLCError as ex:
            log = ""
            if os.path.exists(os.path.join(wd, "tlc.log")):
                log = open(os.path.join(wd, "tlc.log")).read()
            if re.search(r"Assumption .* is false", log):
                return _result(job, False, time.time() - t0, "ASSUME false: " + re.search(r"Assumption [^\n]*", log).group(0))
            return _result(job, None, time.time() - t0, "TLC failed: %s" % ex)
        finally:
            shutil.rmtree(tmp, ignore_errors=True)
        if r.violated:
            return _result(job, False, r.wall, "violated: %s (%s)" % (sorted(set(r.violated)), wd))
        if not r.finished:
            return _result(job, None, r.wall, "TLC did not finish (%s)" % wd)
        return _result(job, True, r.wall, "%d distinct states, no violation" % r.distinct)
    except Exception as ex:
        return _result(job, None, time.time() - t0, "harness error: %r" % (ex,))


def _run_tlapm(job, tier, tag="", mutate=None, threads=PAR, stretch=None):
    t0 = time.time()
    try:
        wd, root = _prepare(job, tag, mutate)
        cmd = ["tlapm", "--threads", str(threads), "--cache-dir", os.path.join(wd, "_cache"), "--cleanfp"]
        if stretch:
            cmd += ["--stretch", str(stretch)]
        cmd.append(root + ".tla")
        env = _env(wd)
        # the Isabelle back end hard-codes /tmp/isabelle-$USER; a user settings file (found through USER_HOME) overrides it
        home = os.path.join(wd, "_tmp", "home")
        for sub in (".isabelle", os.path.join(".isabelle", "Isabelle2025")):
            os.makedirs(os.path.join(home, sub, "etc"), exist_ok=True)
            open(os.path.join(home, sub, "etc", "settings"), "w").write(
                'ISABELLE_TMP_PREFIX="%s"\n' % os.path.join(wd, "_tmp", "isabelle"))
        env["USER_HOME"] = home
        try:
            rc, out = _sub(cmd, wd, env, TLAPM_TIMEOUT)
        except subprocess.TimeoutExpired:
            return _result(job, None, time.time() - t0, "timeout after %d s (%s)" % (TLAPM_TIMEOUT, wd))
        finally:
            shutil.rmtree(os.path.join(wd, "_tmp"), ignore_errors=True)
        open(os.path.join(wd, "tlapm.log"), "w").write(" ".join(cmd) + "\n" + out)
        wall = time.time() - t0
        m = re.search(r"All (\d+) obligations? proved", out)
        if rc == 0 and m:
            return _result(job, True, wall, "all %s proof obligations proved" % m.group(1))
        m = re.search(r"(\d+)/(\d+) obligations? failed", out)
        if m:
            lines = re.findall(r'File "[^"]*", line (\d+)[^\n]*\n\[ERROR\]: Could not prove', out)
            return _result(job, False, wall, "%s of %s proof obligations failed (lines %s of %s.tla)" % (
                m.group(1), m.group(2), ",".join(lines[:8]), root))
        err = [l for l in out.splitlines() if "rror" in l or "abnormally" in l]
        return _result(job, None, wall, "tlapm failed rc=%d: %s (%s)" % (rc, " | ".join(err[:3])[:600], wd))
    except Exception as ex:
        return _result(job, None, time.time() - t0, "harness error: %r" % (ex,))


RUNNERS = {"apalache": _run_apalache, "tlc": _run_tlc, "tlapm": _run_tlapm}


def _select(tier):
    jobs = [j for j in list(JOBS) + TLC_JOBS + TLAPM_JOBS if tier == "thorough" or j["tier"] == "quick"]
    return jobs


def _run_jobs(jobs, tier, tag="", mutate=None):
    """<= PAR single-threaded tool processes at a time; tlapm (its own --threads PAR) runs alone afterwards"""
    res = {}
    small = [j for j in jobs if j["tool"] != "tlapm"]
    with concurrent.futures.ThreadPoolExecutor(max_workers=PAR) as pool:
        futs = {pool.submit(RUNNERS[j["tool"]], j, tier, tag, mutate): j for j in small}
        for f in concurrent.futures.as_completed(futs):
            j = futs[f]
            try:
                res[j["id"]] = f.result()
            except Exception as ex:
                res[j["id"]] = _result(j, None, 0.0, "harness error: %r" % (ex,))
    for j in jobs:
        if j["tool"] == "tlapm":
            res[j["id"]] = _run_tlapm(j, tier, tag, mutate)
    return [res[j["id"]] for j in jobs]


def run_all(tier="quick"):
    """quick: the Apalache inductive checks and the TLC equivalence / refinement checks on the small scope (20-30 s wall);
    thorough: additionally the two TLAPS proofs and the TLC checks on the scopes the property checks use (1-2 min)."""
    try:
        return _run_jobs(_select("thorough" if tier == "thorough" else "quick"), "thorough" if tier == "thorough" else "quick")
    except Exception as ex:
        return [{"id": "unbounded", "module": "-", "tool": "-", "claim": "-", "ok": None, "wall_s": 0.0,
                 "detail": "harness error: %r" % (ex,)}]


# ------------------------------------------------------------------------------------------------------------------
# non-vacuity: single-site mutants of the restated operators / abstract machines.  (file, old, new); "@APPEND@" adds a definition.
IDX = "LayoutIdx.tla"
LAY = "MC_Layout_apa.tla"
LOA = "MC_Loader_apa.tla"
TRA = "MC_TrainingRun_apa.tla"
STA = "MC_Stats_apa.tla"
MUTANTS = [
    ("owner = r div B", [(IDX, "Owner(nB, i) == ((i - 1) % nB) + 1", "Owner(nB, i) == ((i - 1) \\div nB) + 1")],
     ["C12.LB.step", "C12.LU.base", "C12.lemmas", "C12.eq.L", "C12.eq.S"]),
    ("batchify source off by one", [(IDX, "BSrc(len, i) == ((i - 1) % len) + 1", "BSrc(len, i) == (i % len) + 1")],
     ["C12.LB.step", "C12.lemmas", "C12.eq.L"]),
    ("unbatchify reads the repeat_interleave layout", [(IDX, "(j - 1) * (len \\div r) + b", "(b - 1) * r + j")],
     ["C12.lemmas", "C12.eq.L"]),
    ("gather picks row (b-1)*B + p", [(IDX, "Picked(nB, b, p) == (p - 1) * nB + b", "Picked(nB, b, p) == (b - 1) * nB + p")],
     ["C12.lemmas", "C12.eq.S"]),
    ("abstract StepU uses the interleaved layout", [(LAY, "/\\ (jj - 1) * (B * q2) + bb = i", "/\\ (bb - 1) * rr + jj = i")],
     ["C12.LU.step"]),
    ("ghost quotient of LB not updated (shows StepB is enabled and the invariant is tight)",
     [(LAY, "/\\ c' = q * ((i2 - 1) \\div (B * q)) + c", "/\\ c' = c")], ["C12.LB.step"]),
    ("last batch drops an item", [(LOA, "ChunkLen(nn, size, start) == MinI(size, nn - start + 1)",
                                   "ChunkLen(nn, size, start) == MinI(size, nn - start)")], ["C17.P.step", "C17.E.step", "C17.eq"]),
    ("loader overshoots: pos advances by b", [(LOA, "/\\ pos' = pos + k /\\ nb' = nb + 1", "/\\ pos' = pos + b /\\ nb' = nb + 1")],
     ["C17.P.step", "C17.eq"]),
    ("extra of the neighbouring item", [(LOA, "/\\ tg' = pg' /\\ ex' = FX(pg')", "/\\ tg' = pg' /\\ ex' = FX(pg' + 1)")],
     ["C17.P.step", "C17.eq"]),
    ("rollout concatenation shifted by one", [(LOA, "hv' = FX(from + (h' - len) - 1)", "hv' = FX(from + (h' - len))")],
     ["C17.E.step"]),
    ("warm-up callback uses epoch instead of epoch + 1", [(TRA, "/\\ an' * nWarm = (ep + 1) * ad'", "/\\ an' * nWarm = ep * ad'")],
     ["C20.run.step", "C20.run.eq"]),
    ("re-wrap with the baseline of the previous wrap", [(TRA, "xe' = (IF an > 0 THEN R(dsVer + 1, xi, blPol) ELSE 0)",
                                                         "xe' = (IF an > 0 THEN R(dsVer + 1, xi, w3) ELSE 0)")],
     ["C20.run.step", "C20.run.eq"]),
    ("a new training set also after the last epoch", [(TRA, "/\\ IF ep < maxEp - 1", "/\\ IF ep < maxEp")],
     ["C20.run.step", "C20.run.eq"]),
    ("baseline replaced without a new evaluation set", [(TRA, "/\\ evVer' = evVer + 1 /\\ yv' = R(evVer + 1, yi, pol)",
                                                         "/\\ evVer' = evVer /\\ yv' = R(evVer, yi, pol)")],
     ["C20.run.step", "C20.run.eq"]),
    ("Stats: callback uses epoch instead of epoch + 1", [(STA, "/\\ an' * nEp = (epoch + 1) * ad'", "/\\ an' * nEp = epoch * ad'")],
     ["C20.U.step", "C20.U.eq"]),
    ("Stats: inner baseline advanced while alpha = 0", [(STA, "/\\ cB' = (IF an = 0 THEN cB ELSE cB + 1)", "/\\ cB' = cB + 1")],
     ["C20.U.step", "C20.U.eq"]),
    ("EMA: update forgets the d^t scaling (i.e. v' = beta v + (1 - beta) m / d^t)",
     [("MC_EmaClosed_eq.tla", "P * W[t - 1] + (D - P) * Dp[t - 1] * m[t]", "P * W[t - 1] + (D - P) * m[t]")], ["C20.ema.eq"]),
    ("EMA: closed-form sum weights p^(t-k+1)",
     [("MC_EmaClosed_eq.tla", "U[t, k - 1] + (D - P) * Pp[t - k] * Dp[k - 1] * m[k]", "U[t, k - 1] + (D - P) * Pp[t - k + 1] * Dp[k - 1] * m[k]")],
     ["C20.ema.eq"]),
    # the steps are ENABLED: "nothing ever happens" must be refuted from the real initial states
    ("sanity: a StepB / StepU / StepP / StepE / Next step exists (invariant `no step taken` must be violated)",
     [(LAY, "@APPEND@", "NoStepB == q = 1\nNoStepU == t = i"), (LOA, "@APPEND@", "NoStepP == pos = 0\nNoStepE == from = 1"),
      (TRA, "@APPEND@", "NoStep == pc = \"init\""), (STA, "@APPEND@", "NoStep == epoch = 0 /\\ cB = 0 /\\ cWB = 0")],
     "ENABLED"),
]
ENABLED_JOBS = [_apa("C12.LB.enabled", "MC_Layout_apa", "InitB", "StepB", "NoStepB", 1, "StepB enabled"),
                _apa("C12.LU.enabled", "MC_Layout_apa", "InitU", "StepU", "NoStepU", 1, "StepU enabled"),
                _apa("C17.P.enabled", "MC_Loader_apa", "InitP", "StepP", "NoStepP", 1, "StepP enabled"),
                _apa("C17.E.enabled", "MC_Loader_apa", "InitE", "StepE", "NoStepE", 1, "StepE enabled"),
                _apa("C20.run.enabled", "MC_TrainingRun_apa", "Init", "Next", "NoStep", 1, "Next enabled"),
                _apa("C20.U.enabled", "MC_Stats_apa", "Init", "Next", "NoStep", 1, "Next enabled")]
TLAPS_MUTANTS = [
    ("TLAPS: owner = r div B", 0, [(IDX, "Owner(nB, i) == ((i - 1) % nB) + 1", "Owner(nB, i) == ((i - 1) \\div nB) + 1")]),
    ("TLAPS: EMA recurrence without the d^t scaling", 1,
     [("EmaClosed_proofs.tla", "\\A t \\in Nat : V[t + 1] = p * V[t] + (d - p) * Dp[t] * m[t + 1],",
       "\\A t \\in Nat : V[t + 1] = p * V[t] + (d - p) * m[t + 1],")]),
]


def mutants(with_tlaps=True, only=None):
    """-> list of {"mutant", "expected", "caught_by", "not_caught", "wall_s"}; a mutant is caught when at least the expected jobs
    report ok = False (a counterexample / ASSUME false / failed obligation)."""
    rows = []
    base = {j["id"]: j for j in list(JOBS) + TLC_JOBS}
    for k, (name, mutate, expected) in enumerate(MUTANTS):
        if only and k not in only:
            continue
        t0 = time.time()
        if expected == "ENABLED":
            jobs, expected = ENABLED_JOBS, [j["id"] for j in ENABLED_JOBS]
        else:
            files = {m[0] for m in mutate}
            deps = {IDX: ("MC_Layout_apa", "MC_Layout_eq"), LAY: ("MC_Layout_apa",), LOA: ("MC_Loader_apa", "MC_Loader_eq"),
                    TRA: ("MC_TrainingRun_apa", "MC_TrainingRun_eq"), STA: ("MC_Stats_apa", "MC_Stats_eq"),
                    "MC_EmaClosed_eq.tla": ("MC_EmaClosed_eq",)}
            mods = {m for f in files for m in deps[f]}
            jobs = [j for j in base.values() if j["module"] in mods and j["tier"] == "quick"]
        res = _run_jobs(jobs, "quick", tag="_m%d" % k, mutate=mutate)
        caught = [r["id"] for r in res if r["ok"] is False]
        broken = [r["id"] + ": " + r["detail"] for r in res if r["ok"] is None]
        rows.append({"mutant": name, "expected": expected, "caught_by": caught,
                     "not_caught": [e for e in expected if e not in caught], "tool_failures": broken,
                     "wall_s": round(time.time() - t0, 1),
                     "sample": next((r["detail"][:300] for r in res if r["ok"] is False), "")})
    for name, which, mutate in (TLAPS_MUTANTS if with_tlaps else ()):
        t0 = time.time()
        job = TLAPM_JOBS[which]
        r = _run_tlapm(job, "thorough", tag="_mt", mutate=mutate, stretch=0.2)
        rows.append({"mutant": name, "expected": [job["id"]], "caught_by": [job["id"]] if r["ok"] is False else [],
                     "not_caught": [] if r["ok"] is False else [job["id"]], "tool_failures": [] if r["ok"] is not None else [r["detail"]],
                     "wall_s": round(time.time() - t0, 1), "sample": r["detail"][:300]})
    return rows


def for_property(pid, tier):
    """the unbounded checks that belong to one property (job ids start with the property id); never raises, never a verdict:
    a refuted check is printed as MODEL-DRIFT.  Returns the list of result rows (stored in the property's evidence)."""
    t = "thorough" if tier == "thorough" else "quick"
    try:
        res = _run_jobs([j for j in _select(t) if j["id"].startswith(pid + ".")], t)
    except Exception as ex:
        res = [{"id": pid + ".unbounded", "module": "-", "tool": "-", "claim": "-", "ok": None, "wall_s": 0.0,
                "detail": "harness error: %r" % (ex,)}]
    for r in res:
        if r["ok"] is False:
            print("MODEL-DRIFT unbounded %s (%s %s): %s" % (r["id"], r["tool"], r["module"], r["detail"]))
        elif r["ok"] is None:
            print("NOTE unbounded %s (%s %s) inconclusive: %s" % (r["id"], r["tool"], r["module"], r["detail"]))
    return res


def violations(tier, seed=0):
    """framework interface: a failed unbounded check is a defect of the SPECIFICATION (or of its abstraction), never a verdict about
    rl4co -> printed as MODEL-DRIFT, no violation records."""
    res = run_all(tier)
    for r in res:
        if r["ok"] is False:
            print("MODEL-DRIFT unbounded %s (%s %s): %s" % (r["id"], r["tool"], r["module"], r["detail"]))
        elif r["ok"] is None:
            print("NOTE unbounded %s (%s %s) inconclusive: %s" % (r["id"], r["tool"], r["module"], r["detail"]))
    cov = {"states": 0, "transitions": 0, "replayed": 0, "unbounded": res,
           "proved": sum(1 for r in res if r["ok"] is True), "refuted": sum(1 for r in res if r["ok"] is False),
           "inconclusive": sum(1 for r in res if r["ok"] is None)}
    return [], cov


def main(argv):
    what = argv[1] if len(argv) > 1 else "quick"
    t0 = time.time()
    if what == "mutants":
        only = [int(a) for a in argv[2:] if a.isdigit()]
        rows = mutants(with_tlaps="--no-tlaps" not in argv, only=only)
        for r in rows:
            print("%-4s %-90s caught by %s%s  [%.0f s]" % ("ok" if not r["not_caught"] else "MISS", r["mutant"][:90], r["caught_by"],
                                                           ("  NOT " + str(r["not_caught"])) if r["not_caught"] else "", r["wall_s"]))
            for b in r["tool_failures"]:
                print("       tool failure: " + b)
        print("mutants: %d, all expected detections: %s, wall %.0f s" % (len(rows), all(not r["not_caught"] for r in rows),
                                                                       time.time() - t0))
        return 0 if all(not r["not_caught"] for r in rows) else 1
    res = run_all(what)
    for r in res:
        print("%-5s %-8s %-20s %-16s %6.1f s  %s" % ({True: "OK", False: "FAIL", None: "??"}[r["ok"]], r["tool"], r["module"], r["id"],
                                                     r["wall_s"], r["detail"][:160]))
    print("unbounded %s: %d ok, %d refuted, %d inconclusive, wall %.0f s" % (
        what, sum(1 for r in res if r["ok"] is True), sum(1 for r in res if r["ok"] is False),
        sum(1 for r in res if r["ok"] is None), time.time() - t0))
    return 0 if all(r["ok"] is True for r in res) else 1


if __name__ == "__main__":
    sys.exit(main(sys.argv))
