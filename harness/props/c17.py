"""C17 -- datasets, collation and baseline wrapping preserve instance identity and order.
(1) TLC model-checks spec/data/Loader.tla for all (n, batch size, evaluation batch size, loader order);
(2) each terminal state of the unshuffled model is replayed through the REAL dataset classes and DataLoader
    (the batches must be exactly the specification's);
(3) passes over real loaders (all dataset classes, with/without extra key, shuffled or not, RolloutBaseline.wrap_dataset
    with a stub baseline policy, RL4COLitModule._dataloader_single) are recorded and validated by LoaderTrace.tla."""
import logging
import random
import time
import warnings

import torch
import torch.nn as nn
from tensordict import TensorDict
from torch.utils.data import DataLoader

from .. import tlc, verdict
from .common import validate_records

warnings.filterwarnings("ignore")


def F(tag):
    return 10 * tag + 1


def make_td(n):
    tag = torch.arange(1, n + 1)
    locs = torch.zeros(n, 4, 2)
    locs[:, :, 0] = (tag.float() / 64.0)[:, None]
    locs[:, :, 1] = torch.arange(4).float()[None, :] / 8.0
    return TensorDict({"locs": locs, "tag": tag.clone(), "flag": (tag % 2 == 0), "w": tag.double() * 0.5,
                       "m": tag.view(n, 1, 1).expand(n, 2, 3).to(torch.int32).clone()}, batch_size=[n])


def classes():
    from rl4co.data.dataset import FastTdDataset, TensorDictDataset, TensorDictDatasetFastGeneration

    return {"TensorDictDataset": TensorDictDataset, "FastTdDataset": FastTdDataset,
            "TensorDictDatasetFastGeneration": TensorDictDatasetFastGeneration}


def item_ok(batch, j, orig, tag):
    for k in orig.keys():
        a, o = batch[k][j], orig[k][tag - 1]
        if a.dtype != o.dtype or a.shape != o.shape or not torch.equal(a, o):
            return False
    return True


def record_pass(loader, orig, n, b, shuffle, has_extra, note):
    batches = []
    for batch in loader:
        tags = batch["tag"].tolist()
        # (a batch that lacks the promised extra key is recorded with the impossible value -1: M_Extra then fails)
        ex = (batch["extra"].tolist() if "extra" in batch.keys() else [-1] * len(tags)) if has_extra else [0] * len(tags)
        batches.append([[int(t), int(round(float(x))), bool(item_ok(batch, j, orig, int(t)))]
                        for j, (t, x) in enumerate(zip(tags, ex))])
    return {"n": n, "b": b, "shuffle": bool(shuffle), "has_extra": bool(has_extra), "batches": batches, "note": note}


class StubBaselinePolicy(nn.Module):
    """reward = F(tag), the tag being encoded in the instance's coordinates"""

    def forward(self, td, env=None, decode_type="greedy", **kw):
        tag = torch.round(td["locs"][:, 0, 0] * 64.0)
        return {"reward": 10.0 * tag + 1.0}


def run(tier, seed):
    t0 = time.time()
    logging.disable(logging.WARNING)
    from rl4co.envs import TSPEnv
    from rl4co.models.rl import REINFORCE
    from rl4co.models.rl.reinforce.baselines import NoBaseline, RolloutBaseline, WarmupBaseline

    quick = tier == "quick"
    maxn = 4 if quick else 5
    viol, samples = [], []
    states = trans = 0
    model_viol = []
    # ---- (1) the specification ----
    behaviours = {}
    for shuffle in ("FALSE", "TRUE"):
        wd, root = tlc.prepare("loader_" + shuffle, module="Loader")
        tlc.write_cfg(wd, root, constants={"MaxN": str(maxn), "Shuffle": shuffle},
                      invariants=["Exactly", "ExtraIsOwn", "Sizes", "Emit"])
        r = tlc.run(wd, root, coverage=True)
        states += r.distinct
        trans += r.generated
        model_viol += r.violated
        if shuffle == "FALSE":
            for (_, n, b, e, perm, batches) in r.tuples("D"):
                behaviours[(n, b, e)] = batches
            cov_actions = r.coverage()
    # ---- (2) replay the unshuffled behaviours into the real classes ----
    env = TSPEnv(generator_params={"num_loc": 4}, check_solution=False)
    nrep = 0
    recs = []
    for (n, b, e), batches in sorted(behaviours.items()):
        orig = make_td(n)
        for cname, cls in classes().items():
            bl = RolloutBaseline()
            bl.policy = StubBaselinePolicy()
            ds = bl.wrap_dataset(cls(make_td(n)), env, batch_size=e, device="cpu")
            loader = DataLoader(ds, batch_size=b, shuffle=False, collate_fn=ds.collate_fn)
            rec = record_pass(loader, orig, n, b, False, True, "%s wrapped by RolloutBaseline(eval batch %d)" % (cname, e))
            recs.append(rec)
            nrep += 1
            got = [[[t, x] for (t, x, ok) in bt] for bt in rec["batches"]]
            if got != [[list(p) for p in bt] for bt in batches]:
                viol.append({"property": "C17", "env": cname, "monitor": "replay-loader",
                             "inst": {"n": n, "batch_size": b, "eval_batch_size": e}, "actions": [],
                             "detail": "real batches (tag, extra) %s, specification %s" % (got, batches)})
    samples.append({"n": n, "b": b, "e": e, "spec_batches": behaviours[(n, b, e)]})
    # ---- (3) recorded passes, incl. shuffling and the Lightning module's loader ----
    rnd = random.Random(seed)
    torch.manual_seed(seed)
    mod = REINFORCE(env, nn.Linear(1, 1), baseline=WarmupBaseline(RolloutBaseline(), n_epochs=1))
    mod.baseline.baseline.policy = StubBaselinePolicy()
    mod.baseline.alpha = 1.0           # warm-up finished: the rollout baseline wraps the dataset
    for n in ([3, 7] if quick else [1, 2, 3, 7, 10, 16]):
        orig = make_td(n)
        for cname, cls in classes().items():
            for b in sorted({1, 2, 3, n, n + 1}):
                for shuffle in (False, True):
                    ds = cls(make_td(n))
                    recs.append(record_pass(DataLoader(ds, batch_size=b, shuffle=shuffle, collate_fn=ds.collate_fn),
                                            orig, n, b, shuffle, False, cname))
                    ds = cls(make_td(n)).add_key("extra", torch.tensor([float(F(t)) for t in range(1, n + 1)]))
                    recs.append(record_pass(DataLoader(ds, batch_size=b, shuffle=shuffle, collate_fn=ds.collate_fn),
                                            orig, n, b, shuffle, True, cname + ".add_key"))
                    # re-wrapping: the same underlying dataset is wrapped, READ, then wrapped again with new values
                    # (what happens every epoch / whenever the rollout baseline is updated): the second pass must
                    # deliver the second values
                    base = cls(make_td(n))
                    w1 = base.add_key("extra", torch.tensor([float(7 * t) for t in range(1, n + 1)]))
                    for _ in DataLoader(w1, batch_size=b, shuffle=False, collate_fn=w1.collate_fn):
                        pass
                    w2 = base.add_key("extra", torch.tensor([float(F(t)) for t in range(1, n + 1)]))
                    recs.append(record_pass(DataLoader(w2, batch_size=b, shuffle=shuffle, collate_fn=w2.collate_fn),
                                            orig, n, b, shuffle, True, cname + ".add_key after an earlier wrapping was read"))
                    # the route the trainer takes: module.wrap_dataset (baseline) + module._dataloader_single
                    mod.val_batch_size = rnd.choice([1, 2, 3, n + 2])
                    mod.dataloader_num_workers = 0
                    ds = mod.wrap_dataset(cls(make_td(n)))
                    recs.append(record_pass(mod._dataloader_single(ds, b, shuffle), orig, n, b, shuffle, True,
                                            cname + " via REINFORCE.wrap_dataset/_dataloader_single, eval batch %d" % mod.val_batch_size))
    # instances that reach the dataset classes through a FILE (save_tensordict_to_npz -> load_npz_to_tensordict, the loader
    # behind env.dataset for train / val / test files): same items, same order, same dtypes (float64, int32, bool keys included)
    import os
    from rl4co.data.utils import load_npz_to_tensordict, save_tensordict_to_npz
    fdir = os.path.join(tlc.OUT, "c17_files")
    os.makedirs(fdir, exist_ok=True)
    for n in (3, 7):
        orig = make_td(n)
        fn = os.path.join(fdir, "inst_%d.npz" % n)
        save_tensordict_to_npz(make_td(n), fn)
        for cname, cls in classes().items():
            ds = cls(load_npz_to_tensordict(fn))
            recs.append(record_pass(DataLoader(ds, batch_size=2, shuffle=False, collate_fn=ds.collate_fn), orig, n, 2, False, False,
                                    cname + " over instances read back from an npz file"))
    # explicit index orders (a custom / shuffling batch sampler): the batch must hold exactly the requested items in the
    # requested order -- including orders that LOOK like a contiguous range (first and last index span the batch) and repeats
    n = 7
    orig = make_td(n)
    orders = [[0, 2, 1, 3], [3, 1, 2, 0], [1, 3, 2, 4], [4, 6, 5], [6, 5, 4], [2, 2, 3], [5, 0], [0, 1, 2, 3, 4, 5, 6], [3]]
    for cname, cls in classes().items():
        for has_extra in (False, True):
            ds = cls(make_td(n))
            if has_extra:
                ds = ds.add_key("extra", torch.tensor([float(F(t)) for t in range(1, n + 1)]))
            got = [b for b in DataLoader(ds, batch_sampler=orders, collate_fn=ds.collate_fn)]
            for idxs, batch in zip(orders, got):
                tags = [int(t) for t in batch["tag"].tolist()]
                ok = tags == [i + 1 for i in idxs] and all(item_ok(batch, j, orig, t) for j, t in enumerate(tags)) and \
                    (not has_extra or ("extra" in batch.keys()
                                       and [int(round(float(x))) for x in batch["extra"].tolist()] == [F(t) for t in tags]))
                if not ok:
                    viol.append({"property": "C17", "env": cname + (".add_key" if has_extra else ""), "monitor": "requested-items-in-requested-order",
                                 "inst": {"n": n, "indices": idxs}, "actions": [],
                                 "detail": "batch sampler asked for items %s (tags %s), batch holds tags %s%s"
                                           % (idxs, [i + 1 for i in idxs], tags,
                                              " extra %s" % (batch["extra"].tolist() if "extra" in batch.keys() else "MISSING") if has_extra else "")})
    fails, _, st, _ = validate_records("LoaderTrace", recs, ["M_Size", "M_Order", "M_Same", "M_Extra", "M_Perm", "End"], "c17")
    for f in fails:
        rec = recs[f[0]]
        viol.append({"property": "C17", "env": rec["note"].split(" ")[0], "monitor": f[1],
                     "inst": {k: rec[k] for k in ("n", "b", "shuffle", "has_extra", "note")}, "actions": [],
                     "detail": "batch %d: %s" % (f[2], rec["batches"][: f[2] + 1])})
    if model_viol:
        print("MODEL-DRIFT C17: Loader.tla violates %s" % model_viol)
    # ---- (4) wrapping inside a whole training run (TrainingRun.tla; replay + real RL4COTrainer.fit)
    from . import c21_trainrun
    tr_viol, tr_cov = c21_trainrun.violations(tier, seed)
    viol += [v for v in tr_viol if v["property"] == "C17"]
    states += tr_cov["states"]
    trans += tr_cov["transitions"]
    # ---- (5) data routing: which instances feed which phase of a run (Routing.tla / RoutingTrace.tla)
    from . import c17b_routing
    rt_viol, rt_cov = c17b_routing.violations(tier, seed)
    viol += [v for v in rt_viol if v["property"] == "C17"]
    states += rt_cov["states"]
    trans += rt_cov["transitions"]
    n_new, n_known = verdict.report("C17", viol)
    from . import unbounded
    unb = unbounded.for_property("C17", tier)      # Apalache: the loader pass for ALL n, batch sizes, evaluation batch sizes
    samples.append({"real_pass": recs[-1]})
    cov = {"states": states + st, "transitions": trans, "traces_validated_against_impl": nrep + len(recs) + tr_cov["tlc_validated_traces"],
           "samples": samples, "exhaustive": True, "replayed_model_states": nrep, "recorded_passes": len(recs),
           "tlc_action_coverage": cov_actions, "known_finding_witnesses": n_known, "unbounded": unb,
           "data_routing": {k: v for k, v in rt_cov.items() if k not in ("samples",)},
           "training_run": {k: tr_cov[k] for k in ("replayed_runs", "replayed_actions", "tlc_validated_traces", "fit_runs", "models")},
           "explanation": "Loader.tla model-checked for all n<=%d x batch sizes x evaluation batch sizes x loader orders; unshuffled "
                          "behaviours replayed through the real dataset classes wrapped by RolloutBaseline; recorded passes of "
                          "real loaders validated by LoaderTrace.tla; TrainingRun.tla: which baseline values a batch carries along whole "
                          "training runs (wrap at set-up / every regeneration / after baseline updates), replayed into the real "
                          "REINFORCE module and validated on real RL4COTrainer.fit runs" % maxn}
    verdict.write_evidence("C17", tier, seed, "model_checking", cov,
                           ["stub baseline policy whose reward is an injective function of the instance tag",
                            "num_workers = 0"], time.time() - t0, n_new)
    return 1 if n_new else 0
