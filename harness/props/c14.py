"""C14 -- inference is per-instance: batch composition never changes the answer.
The network is an uninterpreted function; spec/infer/InferTrace.tla states the refinement a batched greedy decode must
satisfy w.r.t. the solo decode of each instance (with the float rule "rounding that does not flip a selection":
steps whose top-2 margin is below 2e-5 are ties after which the row is no longer constrained).
Bundled constructive policies (random weights, eval mode) are decoded solo, next to copies, next to unrelated
instances, at every position of shuffled batches of several sizes; TLC validates every record.

Policy kinds (see `policy_matrix`):
  std    ConstructivePolicy protocol: one action sequence / reward / summed log-likelihood per row; margins from the
         teacher-forced reference loop (encoder once, decoder module per step) when the policy has that split
  mdam   MDAM decodes P paths per instance and returns [B, P] rewards / log-likelihoods: one record per (instance, path);
         the per-path actions are observed through the environment handle (c11_nets._Tap)
  ffsp   MultiStageFFSPPolicy (own loop, one MatNet encoder/decoder per stage)
Best-of-K records (reward only): multi-start greedy + select_best, and for PolyNet `num_samples=K` greedy + select_best
(replica j of an instance decodes with strategy vector j).
Networks that draw random numbers inside the forward pass: MatNet's initial column embedding is a random one-hot
assignment; for this check the assignment is drawn from a generator keyed by the instance (KeyedOneHot), i.e. it is
treated as part of the instance, and everything downstream must then be per-instance.  The generator is re-seeded
before every decode so that the step-wise sampled gate of the light MVMoE decoder sees the same draws."""
import logging
import random
import time
import warnings

import torch

from .. import verdict
from .common import validate_records
from .c11_nets import (SCHED, _Heat, _Tap, _l2d_attn_composed, ffsp_step_logp, masked_logp, mdam_step_logp, moe_kwargs,
                       trained_like_gates)

warnings.filterwarnings("ignore")
INV = ["M_Action", "M_Pad", "M_Reward", "M_LL", "End"]
MULTISTART = ("tsp", "cvrp", "sdvrp", "op", "pctsp", "cvrptw")   # envs decoded with multi-start greedy + select_best as well
KSTART = 3
BIG = 1_000_000


class KeyedOneHot(torch.nn.Module):
    """MatNetInitEmbedding (mode RandomOneHot) with the random assignment of a row drawn from a generator keyed by the
    row's cost matrix: the same instance gets the same embedding wherever it sits in whatever batch"""

    def __init__(self, embed_dim):
        super().__init__()
        self.embed_dim = embed_dim

    def forward(self, td):
        dmat = td["cost_matrix"]
        b, r, c = dmat.shape
        row_emb = torch.zeros(b, r, self.embed_dim)
        col_emb = torch.zeros(b, c, self.embed_dim)
        for i in range(b):
            g = torch.Generator().manual_seed(int(float(dmat[i].double().sum()) * 1e6) % 2147483647)
            col_emb[i, torch.arange(c), torch.rand(c, generator=g).argsort()] = 1.0
        return row_emb, col_emb, dmat


def keyed_matnet(policy):
    encs = list(policy.encoders) if hasattr(policy, "encoders") else [policy.encoder]
    for e in encs:
        e.init_embedding = KeyedOneHot(e.init_embedding.embed_dim)
    return policy


def depot_keen(policy):
    with torch.no_grad():
        for p in policy.encoder.init_embedding.init_embed_depot.parameters():
            p.mul_(20.0)
    return policy


def pick_early_returns(policy, env, pool, n):
    """indices of n instances of the pool: up to n/2 whose solo greedy tour returns to the depot while another node is
    still feasible (shortest first), the rest the longest tours"""
    info = []
    for i in range(pool.batch_size[0]):
        td = env.reset(pool[i:i + 1].clone())
        with torch.no_grad():
            acts = policy(td.clone(), env, decode_type="greedy")["actions"][0].tolist()
        early = False
        for a in acts:
            if a == 0:
                early = int(td["action_mask"][0].sum()) > 1
                break
            td.set("action", torch.tensor([a]))
            td = env.step(td)["next"]
        info.append((early, len(acts), i))
    early = sorted([x for x in info if x[0]], key=lambda x: x[1])[: n // 2]
    rest = sorted([x for x in info if x not in early], key=lambda x: -x[1])[: n - len(early)]
    return [x[2] for x in early + rest], len(early)


def _e(name, env, mk, **kw):
    d = {"name": name, "env": env, "mk": mk, "gp": None, "gpx": {}, "kind": "std", "prep": None, "quick": False,
         "best_of": None,          # None | "multistart" | "multisample"
         "pad": 1,                 # the only action of a finished row, 1-based (depot / first node / scheduling no-op = action 0)
         "optional": False}        # known not to run on the pinned tree: covered as soon as it runs, listed in `skipped` while it raises
    d.update(kw)
    return d


def policy_matrix(tier):
    from rl4co.models.zoo import AttentionModelPolicy
    quick = tier == "quick"
    kw = dict(embed_dim=32, num_encoder_layers=2, num_heads=2)
    qenvs = ("tsp", "cvrp", "op", "pdp", "pctsp", "sdvrp", "cvrptw", "mtsp", "svrp", "mtvrp")
    # (the attention model has no initial embedding for ATSP's cost matrix: MatNet is the ATSP policy)
    out = [_e("AM", e, (lambda e=e: AttentionModelPolicy(env_name=e, **kw)), quick=e in qenvs,
              best_of="multistart" if e in MULTISTART else None)
           for e in ("tsp", "cvrp", "op", "pdp", "pctsp", "spctsp", "sdvrp", "cvrptw", "mtsp", "svrp", "mtvrp")]
    # OP with a generous budget: tours end at the depot while other nodes are still affordable, so a finished row that is
    # stepped on next to slower batch-mates has a real choice
    out.append(_e("AM", "op", lambda: AttentionModelPolicy(env_name="op", **kw), gpx={"max_length": 4.0}, quick=True, best_of="multistart"))
    # ... and weights under which the depot is an attractive choice (random weights give the depot the lowest logit at every
    # step, so the tour only ends when nothing else is affordable): the depot's initial embedding is scaled, and the instances
    # are picked from a pool so that rows that return EARLY (other nodes still affordable) sit next to rows that go on
    out.append(_e("AM(depot-keen)", "op", lambda: AttentionModelPolicy(env_name="op", **kw), gpx={"max_length": 4.0}, quick=True,
                  prep=depot_keen, pool=32))
    # non-default normalisation of the encoder layers ("batch" uses running statistics in eval mode, "instance" is POMO's):
    # "layer" normalises over nodes x features of ONE instance
    out.append(_e("AM(layer-norm)", "tsp", lambda: AttentionModelPolicy(env_name="tsp", normalization="layer", **kw), quick=True,
                  best_of="multistart"))
    out.append(_e("AM(layer-norm)", "cvrp", lambda: AttentionModelPolicy(env_name="cvrp", normalization="layer", **kw)))
    try:
        from rl4co.models.zoo import HeterogeneousAttentionModelPolicy
        out.append(_e("HAM(layer-norm)", "pdp", lambda: HeterogeneousAttentionModelPolicy(env_name="pdp", normalization="layer", **kw)))
        out.append(_e("HAM", "pdp", lambda: HeterogeneousAttentionModelPolicy(env_name="pdp", **kw), quick=True))
    except Exception:
        pass
    try:
        from rl4co.models.zoo import PointerNetworkPolicy
        out.append(_e("PtrNet", "tsp", lambda: PointerNetworkPolicy(env_name="tsp", embed_dim=32, hidden_dim=32), quick=True))
    except Exception:
        pass
    for e in ("tsp", "cvrp"):
        out.append(_e("POMO", e, (lambda e=e: AttentionModelPolicy(env_name=e, normalization="instance", use_graph_context=False, **kw)),
                      best_of="multistart", quick=e == "tsp"))
    try:
        from rl4co.models.zoo.symnco.policy import SymNCOPolicy
        out.append(_e("SymNCO", "tsp", lambda: SymNCOPolicy(env_name="tsp", **kw), quick=True))
        out.append(_e("SymNCO", "cvrp", lambda: SymNCOPolicy(env_name="cvrp", **kw)))
    except Exception:
        pass
    try:
        from rl4co.models.zoo.matnet.policy import MatNetPolicy, MultiStageFFSPPolicy
        out.append(_e("MatNet", "atsp", lambda: MatNetPolicy(env_name="atsp", **kw), prep=keyed_matnet, quick=True, best_of="multistart"))
        out.append(_e("MatNetFFSP", "ffsp", lambda: MultiStageFFSPPolicy(stage_cnt=2, embed_dim=32, num_heads=2, num_encoder_layers=1,
                                                                          feedforward_hidden=64),
                      kind="ffsp", prep=keyed_matnet, gp={"num_stage": 2, "num_machine": 2, "num_job": 5, "flatten_stages": False},
                      pad=6, quick=True))      # the flow shop's no-op is action num_job
    except Exception:
        pass
    try:
        from rl4co.models.zoo.polynet.policy import PolyNetPolicy
        out.append(_e("PolyNet", "tsp", lambda: PolyNetPolicy(env_name="tsp", k=KSTART, **kw), quick=True, best_of="multisample"))
        out.append(_e("PolyNet", "cvrp", lambda: PolyNetPolicy(env_name="cvrp", k=KSTART, **kw), best_of="multisample"))
        out.append(_e("PolyNet(MatNet)", "atsp", lambda: PolyNetPolicy(env_name="atsp", k=KSTART, encoder_type="MatNet", **kw),
                      prep=keyed_matnet, best_of="multisample"))
    except Exception:
        pass
    try:
        from rl4co.models.zoo.mdam.policy import MDAMPolicy
        mk_ = dict(embed_dim=32, num_encoder_layers=2, num_heads=2, num_paths=3)
        out.append(_e("MDAM", "tsp", lambda: MDAMPolicy(env_name="tsp", **mk_), kind="mdam", quick=True))
        out.append(_e("MDAM", "cvrp", lambda: MDAMPolicy(env_name="cvrp", **mk_), kind="mdam"))
    except Exception:
        pass
    try:
        from rl4co.models.zoo.l2d.policy import L2DAttnPolicy, L2DPolicy, L2DPolicy4PPO
        lk = dict(embed_dim=32, num_encoder_layers=2)
        sched = {"num_jobs": 5, "num_machines": 3}
        out.append(_e("L2D", "fjsp", lambda: L2DPolicy(env_name="fjsp", **lk), gp=sched, quick=True))
        out.append(_e("L2D", "jssp", lambda: L2DPolicy(env_name="jssp", **lk), gp=sched, quick=True))
        out.append(_e("L2D(stepwise)", "fjsp", lambda: L2DPolicy(env_name="fjsp", stepwise_encoding=True, **lk), gp=sched))
        out.append(_e("L2D4PPO", "jssp", lambda: L2DPolicy4PPO(env_name="jssp", **lk), gp=sched))
        for e in ("fjsp", "jssp"):
            # the public L2DAttnPolicy raises in its first decoding step on the pinned tree (see c11_nets.policies); its
            # encoder and actor are covered through the composition L2DDecoder drives
            out.append(_e("L2DAttn", e, (lambda e=e: L2DAttnPolicy(env_name=e, embed_dim=32, num_heads=2, num_encoder_layers=2)), gp=sched,
                          optional=True))
            out.append(_e("L2DAttn(actor in L2DDecoder)", e, (lambda e=e: _l2d_attn_composed(e)), gp=sched))
    except Exception:
        pass
    mt = {"variant_preset": "all"}
    out.append(_e("MVMoE", "mtvrp", lambda: AttentionModelPolicy(env_name="mtvrp", moe_kwargs=moe_kwargs(False), normalization="instance",
                                                                 use_graph_context=False, **kw), gpx=mt, prep=trained_like_gates, quick=True))
    # light decoder: the dense-or-MoE gate is computed from the MEAN over all rows of the batch (problem-level gating)
    out.append(_e("MVMoE(light)", "mtvrp", lambda: AttentionModelPolicy(env_name="mtvrp", moe_kwargs=moe_kwargs(True), normalization="instance",
                                                                        use_graph_context=False, **kw), gpx=mt, prep=trained_like_gates))
    try:
        from rl4co.models.zoo.nargnn.policy import NARGNNPolicy
        out.append(_e("NARGNN(stub encoder)", "tsp", lambda: NARGNNPolicy(encoder=_Heat(), env_name="tsp"), best_of="multistart", quick=True))
    except Exception:
        pass
    return [e for e in out if e["quick"] or not quick]


def _margin(lp):
    top = torch.topk(lp, min(2, lp.numel())).values
    return BIG if top.numel() < 2 or not torch.isfinite(top[1]) else int(round(float(top[0] - top[1]) * 1e6))


def margins(policy, env, td1, actions):
    """top-2 margin of every step of the solo decode (teacher-forced reference loop); None if the policy has no
    encoder/decoder split the loop can drive"""
    try:
        td = td1.clone()
        hidden, _ = policy.encoder(td)
        td, env, hidden = policy.decoder.pre_decoder_hook(td, env, hidden, 0)
        out = []
        for t in range(actions.shape[1]):
            logits, mask = policy.decoder(td, hidden, 0)
            out.append(_margin(masked_logp(logits, mask, policy.tanh_clipping, policy.temperature)[0]))
            td.set("action", actions[:, t])
            td = env.step(td)["next"]
        return out
    except Exception:
        return None


def margins_mdam(policy, env, td1, actions, p):
    dec = policy.decoder
    enc = policy.encoder(policy.init_embedding(td1.clone()))[0]
    fixed = dec._precompute(enc.clone(), path_index=p)
    td = td1.clone()
    out = []
    for t in range(actions.shape[1]):
        lp, _ = mdam_step_logp(dec, fixed, td, p)
        out.append(_margin(lp[0]))
        td.set("action", actions[:, t])
        td = env.step(td)["next"]
    return out


def margins_ffsp(policy, env, td1, actions):
    torch.manual_seed(SEED)
    td = policy.pre_forward(td1.clone(), env, 1)
    out = []
    for t in range(actions.shape[1]):
        out.append(_margin(ffsp_step_logp(policy, td)[0]))
        td.set("action", actions[:, t])
        td = env.step(td)["next"]
    return out


SEED = 0


def decode(policy, env, td, mode="greedy", kind="std"):
    """list of streams {actions [B, T], reward [B], ll [B]} (one stream, P for MDAM)"""
    with torch.no_grad():
        torch.manual_seed(SEED)
        if kind == "mdam":
            tap = _Tap(env)
            o = policy(td.clone(), tap, phase="test", decode_type="greedy")
            return [{"actions": tap.paths[p], "reward": o["reward"][:, p], "log_likelihood": o["log_likelihood"][:, p]}
                    for p in range(policy.decoder.num_paths)]
        if kind == "ffsp":
            policy.test_decode_type = "greedy"
            return [policy(td.clone(), env, phase="test", num_starts=1)]
        if mode == "greedy":
            return [policy(td.clone(), env, decode_type="greedy")]
        if mode == "multisample":
            return [policy(td.clone(), env, decode_type="greedy", num_samples=KSTART, select_best=True)]
        return [policy(td.clone(), env, decode_type="multistart_greedy", num_starts=KSTART, select_best=True)]


def margins_best_of(policy, env, td1, mode):
    """smallest top-2 margin over the KSTART replicas of ONE instance at every step of its best-of-K greedy decode"""
    from rl4co.utils.ops import batchify
    try:
        with torch.no_grad():
            torch.manual_seed(SEED)
            if mode == "multistart":
                allr = policy(td1.clone(), env, decode_type="multistart_greedy", num_starts=KSTART, select_best=False)
            else:
                allr = policy(td1.clone(), env, decode_type="greedy", num_samples=KSTART, select_best=False)
            actions = allr["actions"]
            td = td1.clone()
            hidden, _ = policy.encoder(td)
            td = batchify(td, KSTART)
            out, t0 = [], 0
            if mode == "multistart":
                td.set("action", actions[:, 0])
                td = env.step(td)["next"]
                out, t0 = [BIG], 1
            td, env, hidden = policy.decoder.pre_decoder_hook(td, env, hidden, KSTART)
            for t in range(t0, actions.shape[1]):
                logits, mask = policy.decoder(td, hidden, KSTART)
                lp = masked_logp(logits, mask, policy.tanh_clipping, policy.temperature)
                out.append(min(_margin(lp[r]) for r in range(lp.shape[0])))
                td.set("action", actions[:, t])
                td = env.step(td)["next"]
        return out
    except Exception:
        return None


def run(tier, seed):
    from rl4co.envs import get_env

    t0 = time.time()
    logging.disable(logging.WARNING)
    rnd = random.Random(seed)
    torch.manual_seed(seed)
    recs, skipped, early_rows = [], [], {}
    n_inst = 4 if tier == "quick" else 12
    for entry in policy_matrix(tier):
        pname, ename, gpx, kind = entry["name"], entry["env"], entry["gpx"], entry["kind"]
        try:
            n_loc = 10 if tier == "quick" else rnd.choice([10, 20])
            gp = dict(entry["gp"]) if entry["gp"] is not None else {"num_loc": n_loc}
            gp.update(gpx)                         # (AM/mtvrp: variant_preset "all" = mixed variants in one batch)
            if ename == "mtvrp":
                gp["variant_preset"] = "all"
            env = get_env(ename, generator_params=gp)
            policy = entry["mk"]().eval()
            if entry["prep"] is not None:
                policy = entry["prep"](policy)
            tdg = env.generator(batch_size=[n_inst])
            if entry.get("pool"):
                pool = env.generator(batch_size=[entry["pool"]])
                idx, n_early = pick_early_returns(policy, env, pool, n_inst)
                tdg = pool[torch.tensor(idx)].clone()
                early_rows["%s/%s" % (pname, ename)] = n_early
            if entry["optional"]:
                decode(policy, env, env.reset(tdg[0:2].clone()), "greedy", kind)
        except Exception as e:
            skipped.append("%s/%s: %s: %s" % (pname, ename, type(e).__name__, str(e)[:80]))
            continue
        comps = [[i, i, i] for i in range(n_inst)]
        comps += [[i, (i + 1) % n_inst] for i in range(n_inst)] + [[(i + 1) % n_inst, i] for i in range(n_inst)]
        for size in ((n_inst, 8) if tier == "quick" else (3, n_inst, 8, 32)):
            for _ in range(1 if tier == "quick" else 2):
                comps.append([rnd.randrange(n_inst) for _ in range(size)])
        perm = list(range(n_inst))
        rnd.shuffle(perm)
        comps.append(perm)
        modes = ["greedy"] + ([entry["best_of"]] if entry["best_of"] else [])
        for mode in modes:
            solos = []
            for i in range(n_inst):
                td1 = env.reset(tdg[i:i + 1].clone())
                streams = []
                for s, o in enumerate(decode(policy, env, td1, mode, kind)):
                    T = o["actions"].shape[1]
                    with torch.no_grad():
                        if kind == "mdam":
                            m = margins_mdam(policy, env, td1, o["actions"], s)
                        elif kind == "ffsp":
                            m = margins_ffsp(policy, env, td1, o["actions"])
                        elif mode == "greedy":
                            m = margins(policy, env, td1, o["actions"])
                        else:
                            m = margins_best_of(policy, env, td1, mode)
                    if m is None:
                        m = [BIG] * T                         # no margin information: every step is constrained
                    m = (list(m) + [BIG] * T)[:T]
                    streams.append({"actions": [int(a) + 1 for a in o["actions"][0].tolist()],
                                    "reward": int(round(float(o["reward"][0]) * 1e6)),
                                    "ll": int(round(float(o["log_likelihood"][0]) * 1e6)), "margin": m})
                solos.append(streams)
            n_streams = len(solos[0])
            rows = [[[] for _ in range(n_streams)] for _ in range(n_inst)]
            # best-of-K modes: also batch sizes that are multiples of K (a start-node layout that is tiled the wrong way round
            # gives every instance the full set of starts whenever gcd(batch size, K) = 1)
            kcomps = [[i % n_inst for i in range(KSTART)], [(3 * i + 1) % n_inst for i in range(2 * KSTART)]]
            for comp in (comps if mode == "greedy" else comps[n_inst:] + kcomps):
                td = env.reset(tdg[torch.tensor(comp)].clone())
                for s, o in enumerate(decode(policy, env, td, mode, kind)):
                    for pos, i in enumerate(comp):
                        a = [int(x) + 1 for x in o["actions"][pos].tolist()]
                        T = len(solos[i][s]["actions"])
                        if len(a) < T:
                            a = a + [0] * (T - len(a))    # shorter than the solo decode: mismatch shows at the first missing step
                        rows[i][s].append({"actions": a, "reward": int(round(float(o["reward"][pos]) * 1e6)),
                                           "ll": int(round(float(o["log_likelihood"][pos]) * 1e6)), "size": len(comp), "pos": pos})
            for i in range(n_inst):
                for s in range(n_streams):
                    recs.append({"policy": pname, "env": ename + ("" if not gpx or ename == "mtvrp" else "(%s)" % ",".join("%s=%s" % kv for kv in gpx.items()))
                                 + ("" if n_streams == 1 else "/path%d" % s)
                                 + ("" if mode == "greedy" else "/%s-best" % mode), "inst": i,
                                 "solo": solos[i][s], "rows": rows[i][s], "pad": entry["pad"], "cmp_actions": mode == "greedy"})
    fails, _, st, ended = validate_records("InferTrace", recs, INV, "c14")
    viol = []
    for f in fails:
        rec = recs[f[0]]
        bad = [r for r in rec["rows"] if r["actions"][: len(rec["solo"]["actions"])] != rec["solo"]["actions"]
               or abs(r["reward"] - rec["solo"]["reward"]) > 100 or abs(r["ll"] - rec["solo"]["ll"]) > 100][:3]
        viol.append({"property": "C14", "env": rec["policy"] + "/" + rec["env"], "monitor": f[1], "inst": {"instance": rec["inst"]},
                     "actions": rec["solo"]["actions"],
                     "detail": "step %s; solo reward %s ll %s; differing rows (size,pos,actions,reward,ll): %s"
                               % (f[2], rec["solo"]["reward"], rec["solo"]["ll"],
                                  [(r["size"], r["pos"], r["actions"], r["reward"], r["ll"]) for r in bad])})
    n_new, n_known = verdict.report("C14", viol)
    ties = sum(1 for r in recs if min(r["solo"]["margin"]) <= 20)
    cov = {"evaluations": sum(len(r["rows"]) for r in recs), "distinct_nontrivial": len(recs),
           "rule": "one record per (policy, env, generated instance[, path]): solo greedy decode vs the same instance at every position of batches of "
                   "copies / unrelated instances / sizes 2..32; non-trivial = every record (>= 10 nodes or 5 jobs x 3 machines, >= 9 decoding steps)",
           "states": st, "transitions": st, "traces_validated_against_impl": len(recs),
           "samples": [{k: recs[0][k] for k in ("policy", "env", "solo")}, {"row": recs[0]["rows"][0]}] if recs else [{}],
           "matrix": sorted({r["policy"] + "/" + r["env"] for r in recs}), "skipped": skipped, "rows_returning_early(OP, depot-keen)": early_rows, "records_with_a_tie_step": ties,
           "known_finding_witnesses": n_known,
           "explanation": "trace validation of an opaque function against the per-row refinement specification InferTrace.tla"}
    verdict.write_evidence("C14", tier, seed, "exploration", cov,
                           ["the network is uninterpreted: no model-level exhaustiveness is claimed",
                            "ties (top-2 margin <= 2e-5) release the row from the comparison, as the property allows",
                            "MatNet's random one-hot column embedding is drawn per instance (keyed generator), i.e. taken as part of the instance"],
                           time.time() - t0, n_new)
    return 1 if n_new else 0
