"""C14 -- inference is per-instance: batch composition never changes the answer.
The network is an uninterpreted function; spec/infer/InferTrace.tla states the refinement a batched greedy decode must
satisfy w.r.t. the solo decode of each instance (with the float rule "rounding that does not flip a selection":
steps whose top-2 margin is below 2e-5 are ties after which the row is no longer constrained).
Bundled constructive policies (random weights, eval mode) are decoded solo, next to copies, next to unrelated
instances, at every position of shuffled batches of several sizes; TLC validates every record."""
import logging
import random
import time
import warnings

import torch

from .. import verdict
from .common import validate_records
from .c11_nets import masked_logp

warnings.filterwarnings("ignore")
INV = ["M_Action", "M_Pad", "M_Reward", "M_LL", "End"]
MULTISTART = ("tsp", "cvrp", "sdvrp", "op", "pctsp", "cvrptw")   # envs decoded with multi-start greedy + select_best as well


def policy_matrix(tier):
    from rl4co.models.zoo import AttentionModelPolicy
    kw = dict(embed_dim=32, num_encoder_layers=2, num_heads=2)
    out = [("AM", e, (lambda e=e: AttentionModelPolicy(env_name=e, **kw))) for e in
           (("tsp", "cvrp", "op", "pdp", "pctsp", "sdvrp", "cvrptw", "mtsp", "svrp", "mtvrp") if tier == "quick" else
            ("tsp", "cvrp", "op", "pdp", "pctsp", "spctsp", "sdvrp", "cvrptw", "atsp", "mtsp", "svrp", "mtvrp"))]
    try:
        from rl4co.models.zoo import HeterogeneousAttentionModelPolicy
        out.append(("HAM", "pdp", lambda: HeterogeneousAttentionModelPolicy(env_name="pdp", **kw)))
    except Exception:
        pass
    if tier != "quick":
        try:
            from rl4co.models.zoo import PointerNetworkPolicy
            out.append(("PtrNet", "tsp", lambda: PointerNetworkPolicy(env_name="tsp", embed_dim=32, hidden_dim=32)))
        except Exception:
            pass
        try:
            from rl4co.models.zoo import MatNetPolicy
            out.append(("MatNet", "atsp", lambda: MatNetPolicy(env_name="atsp", embed_dim=32, num_encoder_layers=1, num_heads=2)))
        except Exception:
            pass
        try:
            from rl4co.models.zoo import PolyNetPolicy
            out.append(("PolyNet", "tsp", lambda: PolyNetPolicy(env_name="tsp", k=2, embed_dim=32, num_encoder_layers=1, num_heads=2)))
        except Exception:
            pass
        try:
            from rl4co.models.zoo import MDAMPolicy
            out.append(("MDAM", "tsp", lambda: MDAMPolicy(env_name="tsp", embed_dim=32, num_encoder_layers=1, num_heads=2)))
        except Exception:
            pass
    return out


def margins(policy, env, td1, actions):
    """top-2 margin of every step of the solo decode (teacher-forced reference loop); None if the policy has no
    encoder/decoder split the loop can drive"""
    try:
        td = td1.clone()
        hidden, _ = policy.encoder(td)
        td, env, hidden = policy.decoder.pre_decoder_hook(td, env, hidden, 0)
        out = []
        for t in range(actions.shape[1]):
            logits, mask = policy.decoder(td, hidden, 0)
            lp = masked_logp(logits, mask, policy.tanh_clipping, policy.temperature)[0]
            top = torch.topk(lp, min(2, lp.numel())).values
            out.append(1_000_000 if top.numel() < 2 or not torch.isfinite(top[1]) else int(round(float(top[0] - top[1]) * 1e6)))
            td.set("action", actions[:, t])
            td = env.step(td)["next"]
        return out
    except Exception:
        return None


def decode(policy, env, td, mode="greedy"):
    with torch.no_grad():
        if mode == "greedy":
            return policy(td.clone(), env, decode_type="greedy")
        return policy(td.clone(), env, decode_type="multistart_greedy", num_starts=KSTART, select_best=True)


KSTART = 3


def margins_multistart(policy, env, td1):
    """smallest top-2 margin over the KSTART replicas of ONE instance at every step of its multi-start greedy decode"""
    from rl4co.utils.ops import batchify
    try:
        with torch.no_grad():
            allr = policy(td1.clone(), env, decode_type="multistart_greedy", num_starts=KSTART, select_best=False)
            actions = allr["actions"]
            td = td1.clone()
            hidden, _ = policy.encoder(td)
            td = batchify(td, KSTART)
            td.set("action", actions[:, 0])
            td = env.step(td)["next"]
            td, env, hidden = policy.decoder.pre_decoder_hook(td, env, hidden, KSTART)
            out = [1_000_000]
            for t in range(1, actions.shape[1]):
                logits, mask = policy.decoder(td, hidden, KSTART)
                lp = masked_logp(logits, mask, policy.tanh_clipping, policy.temperature)
                worst = 1_000_000
                for r in range(lp.shape[0]):
                    top = torch.topk(lp[r], min(2, lp.shape[1])).values
                    if top.numel() == 2 and torch.isfinite(top[1]):
                        worst = min(worst, int(round(float(top[0] - top[1]) * 1e6)))
                out.append(worst)
                td.set("action", actions[:, t])
                td = env.step(td)["next"]
        return out
    except Exception:
        return None


def run(tier, seed):
    from rl4co.envs import get_env

    t0 = time.time()
    logging.disable(logging.WARNING)
    rnd = random.Random(seed)
    torch.manual_seed(seed)
    recs, skipped = [], []
    n_inst = 4 if tier == "quick" else 12
    matrix = [(a, b, c, {}) for (a, b, c) in policy_matrix(tier)]
    # OP with a generous budget: tours end at the depot while other nodes are still affordable, so a finished row that is
    # stepped on next to slower batch-mates has a real choice
    from rl4co.models.zoo import AttentionModelPolicy
    matrix.append(("AM", "op", lambda: AttentionModelPolicy(env_name="op", embed_dim=32, num_encoder_layers=2, num_heads=2),
                   {"max_length": 4.0}))
    for (pname, ename, mk, gpx) in matrix:
        try:
            gp = {"num_loc": 10 if tier == "quick" else rnd.choice([10, 20])}
            gp.update(gpx)
            if ename == "mtvrp":
                gp["variant_preset"] = "all"          # mixed variants in one batch
            env = get_env(ename, generator_params=gp)
            policy = mk().eval()
            tdg = env.generator(batch_size=[n_inst])
        except Exception as e:
            skipped.append("%s/%s: %s" % (pname, ename, str(e)[:80]))
            continue
        comps = [[i, i, i] for i in range(n_inst)]
        comps += [[i, (i + 1) % n_inst] for i in range(n_inst)] + [[(i + 1) % n_inst, i] for i in range(n_inst)]
        for size in ((n_inst, 8) if tier == "quick" else (3, n_inst, 8, 32)):
            for _ in range(1 if tier == "quick" else 2):
                comps.append([rnd.randrange(n_inst) for _ in range(size)])
        perm = list(range(n_inst))
        rnd.shuffle(perm)
        comps.append(perm)
        modes = ["greedy"] + (["multistart"] if (ename in MULTISTART and pname == "AM") else [])
        for mode in modes:
            solos = []
            for i in range(n_inst):
                td1 = env.reset(tdg[i:i + 1].clone())
                o = decode(policy, env, td1, mode)
                T = o["actions"].shape[1]
                m = margins(policy, env, td1, o["actions"]) if mode == "greedy" else margins_multistart(policy, env, td1)
                if m is None:
                    m = [1_000_000] * T                   # no margin information: every step is constrained
                m = (list(m) + [1_000_000] * T)[:T]
                solos.append({"actions": [int(a) + 1 for a in o["actions"][0].tolist()],
                              "reward": int(round(float(o["reward"][0]) * 1e6)),
                              "ll": int(round(float(o["log_likelihood"][0]) * 1e6)), "margin": m})
            rows = [[] for _ in range(n_inst)]
            for comp in (comps if mode == "greedy" else comps[n_inst:]):
                td = env.reset(tdg[torch.tensor(comp)].clone())
                o = decode(policy, env, td, mode)
                for pos, i in enumerate(comp):
                    a = [int(x) + 1 for x in o["actions"][pos].tolist()]
                    T = len(solos[i]["actions"])
                    if len(a) < T:
                        a = a + [0] * (T - len(a))    # shorter than the solo decode: mismatch shows at the first missing step
                    rows[i].append({"actions": a, "reward": int(round(float(o["reward"][pos]) * 1e6)),
                                    "ll": int(round(float(o["log_likelihood"][pos]) * 1e6)), "size": len(comp), "pos": pos})
            for i in range(n_inst):
                recs.append({"policy": pname, "env": ename + ("" if not gpx else "(%s)" % ",".join("%s=%s" % kv for kv in gpx.items()))
                             + ("" if mode == "greedy" else "/multistart-best"), "inst": i,
                             "solo": solos[i], "rows": rows[i], "pad": 1, "cmp_actions": mode == "greedy"})
    fails, _, st, ended = validate_records("InferTrace", recs, INV, "c14")
    viol = []
    for f in fails:
        rec = recs[f[0]]
        bad = [r for r in rec["rows"] if r["actions"][: len(rec["solo"]["actions"])] != rec["solo"]["actions"]
               or abs(r["reward"] - rec["solo"]["reward"]) > 100][:3]
        viol.append({"property": "C14", "env": rec["policy"] + "/" + rec["env"], "monitor": f[1], "inst": {"instance": rec["inst"]},
                     "actions": rec["solo"]["actions"],
                     "detail": "step %s; solo reward %s ll %s; differing rows (size,pos,actions,reward): %s"
                               % (f[2], rec["solo"]["reward"], rec["solo"]["ll"], [(r["size"], r["pos"], r["actions"], r["reward"]) for r in bad])})
    n_new, n_known = verdict.report("C14", viol)
    ties = sum(1 for r in recs if min(r["solo"]["margin"]) <= 20)
    cov = {"evaluations": sum(len(r["rows"]) for r in recs), "distinct_nontrivial": len(recs),
           "rule": "one record per (policy, env, generated instance): solo greedy decode vs the same instance at every position of batches of "
                   "copies / unrelated instances / sizes 2..32; non-trivial = every record (>= 10 nodes, >= 9 decoding steps)",
           "states": st, "transitions": st, "traces_validated_against_impl": len(recs),
           "samples": [{k: recs[0][k] for k in ("policy", "env", "solo")}, {"row": recs[0]["rows"][0]}] if recs else [{}],
           "matrix": sorted({r["policy"] + "/" + r["env"] for r in recs}), "skipped": skipped, "records_with_a_tie_step": ties,
           "known_finding_witnesses": n_known,
           "explanation": "trace validation of an opaque function against the per-row refinement specification InferTrace.tla"}
    verdict.write_evidence("C14", tier, seed, "exploration", cov,
                           ["the network is uninterpreted: no model-level exhaustiveness is claimed",
                            "ties (top-2 margin <= 2e-5) release the row from the comparison, as the property allows"],
                           time.time() - t0, n_new)
    return 1 if n_new else 0
