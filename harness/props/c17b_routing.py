"""C17b (growth of C17 / C19) -- DATA ROUTING of a training / evaluation run: which instances feed which phase.

spec/data/Routing.tla models RL4COEnvBase.__init__/dataset/load_data + RL4COLitModule.setup / *_dataloader / _dataloader /
log_metrics / on_train_epoch_end as one machine over a configuration (files per phase: none / single / list of 1-2, loader
names given or default, data sizes, batch sizes incl. None, shuffle) with the invariants PhaseOwnSource ListOrder NamesAligned
KeysDistinct BatchSizeFallback SizesHonoured NoCrossPhase SameFileSame EpochsRight.
(1) TLC explores ALL configurations of the scope and prints, per configuration, the loaders (source, instance ids, batch
    boundaries, names) of every phase / training epoch and the metric keys;
(2) every configuration (quick: every val x test FILE configuration, training file / batch sizes / shuffle rotating) is built for REAL: real
    TSPEnv / CVRPEnv over data files written with the real save_tensordict_to_npz into the per-run scratch directory (instances
    carry recognisable tags in their coordinates) and a tagging generator, real REINFORCE module with a stub policy;
    setup(), val_dataloader(), train_dataloader(), on_train_epoch_end(), train_dataloader(), test_dataloader() and
    log_metrics(.., dataloader_idx) are called in the model's order and what each phase delivered is compared with the
    specification (generator data sets up to a bijection);
(3) the same executions, and real RL4COTrainer.fit + trainer.test runs observed by a Lightning callback, are validated by TLC
    against spec/data/RoutingTrace.tla.
violations(tier, seed) -> (violations, coverage); property "C17" for routing / order / names / batch sizes, "C19" when what a
phase read from a file is not what was saved."""
import logging
import os
import sys
import time
import warnings

os.environ.setdefault("VERIF_RUN_ID", "%d" % os.getpid())      # private TLC scratch (set by harness/check.py otherwise)
_REPO = os.environ.get("VERIF_REPO", "/repo")
if _REPO not in sys.path:
    sys.path.insert(0, _REPO)

import torch  # noqa: E402
import torch.nn as nn  # noqa: E402
from tensordict import TensorDict  # noqa: E402

from .. import tlc  # noqa: E402
from .common import validate_records  # noqa: E402

warnings.filterwarnings("ignore")

INVARIANTS = ["TypeOK", "PhaseOwnSource", "ListOrder", "NamesAligned", "KeysDistinct", "BatchSizeFallback", "SizesHonoured",
              "NoCrossPhase", "SameFileSame", "EpochsRight", "Emit"]
TRACE_INV = ["M_Source", "M_ListOrder", "M_Names", "M_Batch", "M_Sizes", "M_NoCross", "M_Content", "End"]
CONSTANTS = {"Files": "{1,2}", "NTrain": "3", "NVal": "2", "NTest": "4", "BTrain": "2", "BVals": "{0,3}", "BTests": "{0,1}",
             "MaxEpochs": "2"}
MAX_EPOCHS = 2
CLAUSE = {"phase-own-source": "C17", "list-order": "C17", "names-aligned": "C17", "batch-size-fallback": "C17",
          "sizes-honoured": "C17", "no-cross-phase": "C17", "file-content": "C19"}
GEN0 = 16            # tag of the g-th generated data set is GEN0 + g; files are tagged with their id
NODES = 4
CAP = 8.0            # capacity written to CVRP files (power of two: demand / capacity is exact)
GIVEN = {"val": ["va", "vb"], "test": ["ta", "tb"]}


def fsize(f):
    return f + 1


# ----------------------------------------------------------------------------------------------------------------
# the world: tagged instances, data files written by the real save function, tagging generators
# ----------------------------------------------------------------------------------------------------------------
def tagged(kind, sid, n, fmt):
    """n instances tagged (sid, 1..n).  fmt "file": what a data file holds; "gen": what a generator returns"""
    idx = torch.arange(1, n + 1).float()
    locs = torch.zeros(n, NODES, 2)
    locs[:, :, 0] = (idx / 64.0)[:, None] + torch.arange(NODES).float()[None, :] / 512.0
    locs[:, :, 1] = sid / 64.0
    d = {"locs": locs}
    if kind == "cvrp":
        d["depot"] = torch.stack([idx / 128.0, torch.full((n,), sid / 128.0)], -1)
        raw = (1.0 + torch.remainder(idx[:, None] + torch.arange(NODES).float()[None, :] + sid, 7.0))
        if fmt == "file":          # raw integer demands + per-instance capacity [n] (rl4co.data.generate_data.generate_vrp_data)
            d["demand"] = raw
            d["capacity"] = torch.full((n,), CAP)
        else:                      # CVRPGenerator._generate: normalised demands, capacity [n, 1]
            d["demand"] = raw / CAP
            d["capacity"] = torch.full((n, 1), CAP)
    return TensorDict(d, batch_size=[n])


def expected_of_file(kind, sid):
    """what a phase must see of file sid (CVRPEnv.load_data normalises the demand by the capacity)"""
    td = tagged(kind, sid, fsize(sid), "file")
    if kind == "cvrp":
        td.set("demand", td["demand"] / td["capacity"][:, None])
    return td


def make_generator(kind):
    from rl4co.envs.routing.cvrp.generator import CVRPGenerator
    from rl4co.envs.routing.tsp.generator import TSPGenerator

    base = TSPGenerator if kind == "tsp" else CVRPGenerator

    class TagGenerator(base):
        def __init__(self):
            super().__init__(num_loc=NODES)
            self.count = 0
            self.made = {}

        def _generate(self, batch_size):
            n = int(batch_size[0]) if len(batch_size) else 1
            self.count += 1
            td = tagged(kind, GEN0 + self.count, n, "gen")
            self.made[self.count] = td.clone()
            return td

    return TagGenerator()


class World:
    """data directory of one run: files f<id>.npz per environment kind, written with the real save function"""

    def __init__(self, files):
        from rl4co.data.utils import save_tensordict_to_npz

        self.files = sorted(files)
        self.dir = {}
        self.expect = {}
        for kind in ("tsp", "cvrp"):
            d = os.path.join(tlc.OUT, "routing_data", kind)
            os.makedirs(d, exist_ok=True)
            self.dir[kind] = d
            for f in self.files:
                save_tensordict_to_npz(tagged(kind, f, fsize(f), "file"), os.path.join(d, "f%d.npz" % f))
                self.expect[(kind, f)] = expected_of_file(kind, f)


class StubPolicy(nn.Module):
    """reward = 100 * source tag + instance index (readable in the logged metrics)"""

    def __init__(self):
        super().__init__()
        self.p = nn.Parameter(torch.zeros(()))

    def forward(self, td, env=None, phase="train", **kw):
        i = torch.round(td["locs"][:, -1, 0] * 64.0)       # last customer (CVRP puts the depot first)
        s = torch.round(td["locs"][:, -1, 1] * 64.0)
        return {"reward": 100.0 * s + i, "log_likelihood": -(i / 8.0) + 0.0 * self.p}


class FakeTrainer:
    def __init__(self, current_epoch, max_epochs):
        self.current_epoch = current_epoch
        self.max_epochs = max_epochs
        self.loggers = []


def file_arg(spec):
    if spec["kind"] == "none":
        return None
    if spec["kind"] == "single":
        return "f%d.npz" % spec["fs"][0]
    return ["f%d.npz" % f for f in spec["fs"]]


def build(kind, c, world, **modkw):
    """the REAL environment and module for configuration c"""
    from rl4co.envs import CVRPEnv, TSPEnv
    from rl4co.models.rl import REINFORCE

    gen = make_generator(kind)
    cls = TSPEnv if kind == "tsp" else CVRPEnv
    kw = {}
    for p in ("val", "test"):
        if c["given"][p]:
            kw[p + "_dataloader_names"] = list(GIVEN[p][: len(c["file"][p]["fs"])])
    env = cls(generator=gen, data_dir=world.dir[kind], train_file=file_arg(c["file"]["train"]),
              val_file=file_arg(c["file"]["val"]), test_file=file_arg(c["file"]["test"]), check_solution=False, **kw)
    mod = REINFORCE(env, StubPolicy(), baseline="no", batch_size=c["bs"]["train"],
                    val_batch_size=c["bs"]["val"] or None, test_batch_size=c["bs"]["test"] or None,
                    train_data_size=c["size"]["train"], val_data_size=c["size"]["val"], test_data_size=c["size"]["test"],
                    shuffle_train_dataloader=c["shuffle"], **modkw)
    return gen, env, mod


# ----------------------------------------------------------------------------------------------------------------
# observation: what a loader delivered, in the vocabulary of the specification
# ----------------------------------------------------------------------------------------------------------------
def decode_batch(kind, batch, world, gen):
    """[[source kind, source id, index, same]] for the instances of one delivered batch"""
    out = []
    n = batch.batch_size[0]
    for j in range(n):
        x, y = float(batch["locs"][j, 0, 0]) * 64.0, float(batch["locs"][j, 0, 1]) * 64.0
        idx, sid = int(round(x)), int(round(y))
        exact = abs(x - idx) < 1e-3 and abs(y - sid) < 1e-3
        if sid in world.files and 1 <= idx <= fsize(sid):
            src, ref = ["file", sid], world.expect[(kind, sid)]
        elif sid > GEN0 and (sid - GEN0) in gen.made and 1 <= idx <= gen.made[sid - GEN0].batch_size[0]:
            src, ref = ["gen", sid - GEN0], gen.made[sid - GEN0]
        else:
            out.append(["other", sid, idx, False])
            continue
        same = exact
        for k in ref.keys():
            if k not in batch.keys():
                same = False
                continue
            a, o = batch[k][j], ref[k][idx - 1]
            if a.dtype != o.dtype or a.shape != o.shape or not torch.equal(a, o):
                same = False
        out.append(src + [idx, bool(same)])
    return out


def observe_loaders(kind, mod, phase, dls, world, gen):
    """one pass over what <phase>_dataloader() returned"""
    ds = getattr(mod, phase + "_dataset")
    if isinstance(dls, (list, tuple)):
        names = mod.dataloader_names if isinstance(ds, dict) and mod.dataloader_names is not None else []
        names = [str(names[k]) if k < len(names) else "?" for k in range(len(dls))]
    else:
        dls, names = [dls], [""]
    out = []
    for dl, nm in zip(dls, names):
        out.append({"name": nm, "bs": int(dl.batch_size) if dl.batch_size is not None else 0,
                    "batches": [decode_batch(kind, b, world, gen) for b in dl]})
    return out


def direct_keys(mod, phase, n_loaders, named):
    """the keys log_metrics produces for each loader index (the Lightning logging call itself is not under test)"""
    mod.log_dict = lambda *a, **k: None
    out = []
    for k in range(n_loaders):
        m = mod.log_metrics({"reward": torch.tensor([1.0, 2.0]), "loss": torch.tensor(0.0)}, phase, k if named else None)
        ks = [x for x in m.keys() if x.startswith(phase + "/reward")]
        out.append(ks[0] if len(ks) == 1 else "?%s" % sorted(m.keys()))
    return out


def compare_loaders(real, spec, genmap, where):
    """differences between one phase's real loaders and the specification's, as (clause, detail); generated data sets are
    compared up to the bijection genmap (real id -> specification id)"""
    out = []
    if len(real) != len(spec):
        return [("list-order", "%s: %d loaders, specification %d" % (where, len(real), len(spec)))]
    for k, (r, s) in enumerate(zip(real, spec)):
        w = "%s loader %d" % (where, k)
        items = [it for b in r["batches"] for it in b]
        srcs = sorted({(it[0], it[1]) for it in items})
        want_n = sum(len(b) for b in s["batches"])
        if s["src"][0] == "file":
            if srcs != [("file", s["src"][1])]:
                out.append(("phase-own-source" if not any(x == ("file", s["src"][1]) for x in srcs) else "no-cross-phase",
                            "%s delivers instances of %s, specification: file %d" % (w, srcs, s["src"][1])))
                continue
        else:
            if len(srcs) != 1 or srcs[0][0] != "gen":
                out.append(("phase-own-source", "%s delivers instances of %s, specification: a fresh generated data set" % (w, srcs)))
                continue
            g = srcs[0][1]
            if genmap.setdefault(g, s["src"][1]) != s["src"][1] or [a for a, b in genmap.items() if b == s["src"][1]] != [g]:
                out.append(("no-cross-phase", "%s delivers generated data set #%d which the run already used as the specification's "
                            "#%s; specification: #%d (mapping %s)" % (w, g, genmap.get(g), s["src"][1], genmap)))
        if r["name"] != s["name"]:
            out.append(("names-aligned", "%s is named %r, specification %r" % (w, r["name"], s["name"])))
        idx = [it[2] for it in items]
        flat = [i for b in s["batches"] for i in b]
        if sorted(idx) != sorted(flat):
            out.append(("sizes-honoured", "%s delivers instances %s, specification %s (%d instances)" % (w, idx, flat, want_n)))
        elif s["ordered"] and idx != flat:
            out.append(("list-order", "%s delivers instances in the order %s, specification %s" % (w, idx, flat)))
        if r["bs"] != s["bs"] or [len(b) for b in r["batches"]] != [len(b) for b in s["batches"]]:
            out.append(("batch-size-fallback", "%s has batch size %s and batches of %s, specification %d and %s"
                        % (w, r["bs"], [len(b) for b in r["batches"]], s["bs"], [len(b) for b in s["batches"]])))
        if not all(it[3] for it in items):
            out.append(("file-content", "%s: instances %s differ from what was saved / generated"
                        % (w, [it[:3] for it in items if not it[3]])))
    return out


def replay(kind, c, spec, world):
    """drive the real objects through the model's call order; returns (trace record, [(action, clause, detail)])"""
    hist, sval, stest, kval, ktest = spec
    gen, env, mod = build(kind, c, world)
    ev, bad, genmap = [], [], {}
    mod.setup("fit")

    def load(phase, ep, want):
        dls = getattr(mod, phase + "_dataloader")()
        obs = observe_loaders(kind, mod, phase, dls, world, gen)
        ev.append({"a": "load", "p": phase, "run": 1, "ep": ep, "loaders": obs})
        bad.extend((phase + "_dataloader", cl, d) for cl, d in compare_loaders(obs, want, genmap, "%s (epoch %d)" % (phase, ep)))
        return obs

    def keys(phase, obs, want):
        named = isinstance(getattr(mod, phase + "_dataset"), dict)
        ks = direct_keys(mod, phase, len(obs), named)
        ev.append({"a": "keys", "p": phase, "mode": "direct", "keys": ks})
        if ks != want["direct"]:
            bad.append(("log_metrics", "names-aligned", "%s metric keys per loader index %s, specification %s" % (phase, ks, want["direct"])))

    keys("val", load("val", 0, sval), kval)
    for ep in range(MAX_EPOCHS):
        load("train", ep, hist[ep])
        mod._trainer = FakeTrainer(ep, MAX_EPOCHS)
        mod.on_train_epoch_end()
    keys("test", load("test", MAX_EPOCHS - 1, stest), ktest)
    return {"c": c, "env": kind, "ev": ev, "note": "harness-driven"}, bad


# ----------------------------------------------------------------------------------------------------------------
# a real RL4COTrainer.fit + trainer.test observed by a callback
# ----------------------------------------------------------------------------------------------------------------
def fit_trace(kind, c, world, seed):
    import lightning.pytorch as pl

    from rl4co.utils.trainer import RL4COTrainer

    torch.manual_seed(seed)
    gen, env, mod = build(kind, c, world, optimizer_kwargs={"lr": 1e-3})
    ev = []
    st = {"run": 0, "acc": {}}

    def put(phase, k, batch):
        if isinstance(batch, (list, tuple)):       # several loaders combined where the specification has one: recorded as such
            for j, b in enumerate(batch):
                if b is not None:
                    put(phase, j, b)
            return
        st["acc"].setdefault(phase, {}).setdefault(k, []).append(decode_batch(kind, batch, world, gen))

    def flush(phase, trainer, dls):
        acc = st["acc"].pop(phase, {})
        if not acc:
            return
        ds = getattr(mod, phase + "_dataset")
        single = not isinstance(dls, (list, tuple))
        dls = [dls] if single else list(dls)
        loaders = []
        for k in range(max(len(dls), max(acc) + 1)):
            named = isinstance(ds, dict) and mod.dataloader_names is not None and k < len(mod.dataloader_names)
            loaders.append({"name": str(mod.dataloader_names[k]) if named else ("" if single else "?"),
                            "bs": int(dls[k].batch_size) if k < len(dls) else 0, "batches": acc.get(k, [])})
        ev.append({"a": "load", "p": phase, "run": st["run"], "ep": int(trainer.current_epoch), "loaders": loaders})

    class Recorder(pl.Callback):
        def setup(self, trainer, m, stage):
            st["run"] += 1

        def on_train_batch_start(self, trainer, m, batch, batch_idx):
            put("train", 0, batch)

        def on_validation_batch_start(self, trainer, m, batch, batch_idx, dataloader_idx=0):
            put("val", dataloader_idx, batch)

        def on_test_batch_start(self, trainer, m, batch, batch_idx, dataloader_idx=0):
            put("test", dataloader_idx, batch)

        def on_validation_epoch_end(self, trainer, m):
            flush("val", trainer, trainer.val_dataloaders)

        def on_train_epoch_end(self, trainer, m):
            flush("train", trainer, trainer.train_dataloader)

        def on_test_epoch_end(self, trainer, m):
            flush("test", trainer, trainer.test_dataloaders)

    trainer = RL4COTrainer(max_epochs=MAX_EPOCHS, accelerator="cpu", devices=1, precision="32-true", logger=False,
                           enable_checkpointing=False, enable_progress_bar=False, enable_model_summary=False,
                           num_sanity_val_steps=0, callbacks=[Recorder()])
    trainer.fit(mod)
    logged = {k: float(v) for k, v in trainer.callback_metrics.items()}
    trainer.test(mod, verbose=False)
    logged.update({k: float(v) for k, v in trainer.callback_metrics.items()})
    # metric keys per loader index: the key whose logged value is the mean reward of the instances THAT loader delivered
    for phase in ("val", "test"):
        last = [e for e in ev if e["a"] == "load" and e["p"] == phase][-1]
        cand = {k: v for k, v in logged.items() if k.startswith(phase + "/reward")}
        ks = []
        for ld in last["loaders"]:
            items = [it for b in ld["batches"] for it in b]
            tagv = [(100.0 * (it[1] + (GEN0 if it[0] == "gen" else 0)) + it[2]) for it in items]
            mean = sum(tagv) / max(1, len(tagv))
            hit = sorted(k for k, v in cand.items() if abs(v - mean) < 1e-2)
            ks.append(hit[0] if len(hit) == 1 else "?%s" % hit)
        if len(cand) != len(last["loaders"]):
            ks.append("?logged:%s" % sorted(cand))
        ev.append({"a": "keys", "p": phase, "mode": "trainer", "keys": ks})
    return {"c": c, "env": kind, "ev": ev,
            "note": "RL4COTrainer.fit + test, reload_dataloaders_every_n_epochs=%s, logged %s"
                    % (trainer.reload_dataloaders_every_n_epochs, sorted(logged))}


def cfg(train=None, val=None, test=None, gval=False, gtest=False, bv=0, bt=0, shuffle=False):
    def fs(x):
        return {"kind": "none", "fs": []} if x is None else {"kind": "single", "fs": [x]} if isinstance(x, int) \
            else {"kind": "list", "fs": list(x)}
    return {"file": {"train": fs(train), "val": fs(val), "test": fs(test)}, "given": {"train": False, "val": gval, "test": gtest},
            "size": {"train": int(CONSTANTS["NTrain"]), "val": int(CONSTANTS["NVal"]), "test": int(CONSTANTS["NTest"])},
            "bs": {"train": int(CONSTANTS["BTrain"]), "val": bv, "test": bt}, "shuffle": shuffle}


FIT_CONFIGS = {
    "quick": [("tsp", cfg(val=[1, 2], test=[2, 1], gval=True)),
              ("cvrp", cfg(train=2, val=1, test=[2], gtest=True, bv=3, shuffle=True))],
    "thorough": [("tsp", cfg(val=[1, 2], test=[2, 1], gval=True)),
                 ("cvrp", cfg(train=2, val=1, test=[2], gtest=True, bv=3, shuffle=True)),
                 ("cvrp", cfg(val=[2, 1], test=[1, 2], gval=True, gtest=True, bv=3, bt=1)),
                 ("tsp", cfg(bv=3, bt=1, shuffle=True)),
                 ("tsp", cfg(train=1, val=[2], test=2, bt=1)),
                 ("cvrp", cfg(val=2, test=[1, 2]))],
}


# ----------------------------------------------------------------------------------------------------------------
def crash_site(exc):
    """file:line of the innermost frame inside rl4co, provided no harness frame is deeper"""
    repo = os.path.realpath(_REPO)
    tb = exc.__traceback__
    frames = []
    while tb is not None:
        frames.append((os.path.realpath(tb.tb_frame.f_code.co_filename), tb.tb_lineno))
        tb = tb.tb_next
    for fn, ln in reversed(frames):
        if "site-packages" in fn or fn.startswith("<"):
            continue
        if fn.startswith(os.path.join(repo, "rl4co")):
            return "%s:%d" % (os.path.relpath(fn, repo), ln)
        return None
    return None


def raised(exc, kind, c, what):
    site = crash_site(exc)
    if site is None or isinstance(exc, tlc.TLCError):
        raise exc
    return {"property": "C17", "env": ENVNAME[kind], "monitor": "library-raised", "inst": dict(c, where=site), "actions": what,
            "detail": "%s: %s" % (type(exc).__name__, str(exc)[:300])}


ENVNAME = {"tsp": "TSPEnv+REINFORCE", "cvrp": "CVRPEnv+REINFORCE"}
ORDER = ["setup", "val_dataloader", "log_metrics(val)", "train_dataloader", "on_train_epoch_end", "train_dataloader",
         "on_train_epoch_end", "test_dataloader", "log_metrics(test)"]


def ckey(c):
    return (c["file"]["train"]["kind"], tuple(c["file"]["train"]["fs"]), c["file"]["val"]["kind"], tuple(c["file"]["val"]["fs"]),
            c["file"]["test"]["kind"], tuple(c["file"]["test"]["fs"]), c["given"]["val"], c["given"]["test"])


def bkey(c):
    return (c["bs"]["val"], c["bs"]["test"], c["shuffle"])


def violations(tier, seed):
    logging.disable(logging.WARNING)
    import rl4co

    t0 = time.time()
    quick = tier == "quick"
    viol, samples = [], []
    # ---- (1) the specification, all configurations
    wd, root = tlc.prepare("routing", module="Routing")
    tlc.write_cfg(wd, root, constants=CONSTANTS, invariants=INVARIANTS)
    r = tlc.run(wd, root, workers=4, coverage=True, heap="4g")
    tup = r.tuples("R")
    if len(tup) * 10 != r.distinct or r.violated:
        if r.violated:
            print("MODEL-DRIFT C17b: Routing.tla violates %s" % sorted(set(r.violated)))
        else:
            raise tlc.TLCError("Routing: parsed %d terminal states of %d states" % (len(tup), r.distinct))
    states, transitions = r.distinct, r.generated
    table = {}
    for t in tup:
        table.setdefault(ckey(t[1]), {})[bkey(t[1])] = (t[1], t[2:])
    groups = sorted(table)
    combos = sorted({b for g in table.values() for b in g})
    # ---- (2) replay into the real objects
    world = World({1, 2})
    torch.manual_seed(seed)          # shuffled training loaders draw their order from the global generator
    plan = []
    if quick:
        # every (val, test) file configuration with both environments; the training file, the batch sizes and the shuffle
        # flag rotate (seeded), so that all their values meet every val / test configuration over a few runs
        pairs = sorted({g[2:] for g in groups})
        trains = sorted({g[:2] for g in groups})
        for i, vt in enumerate(pairs):
            plan.append(("tsp", trains[(i + seed) % len(trains)] + vt, combos[(i + seed) % len(combos)]))
            plan.append(("cvrp", trains[(i + seed + 1) % len(trains)] + vt, combos[(5 * i + seed + 3) % len(combos)]))
    else:
        # every configuration of the model, environments alternating (each file configuration meets both 4 times)
        for i, g in enumerate(groups):
            plan += [(("tsp", "cvrp")[(i + j + seed) % 2], g, b) for j, b in enumerate(combos)]
    recs, n_bad_cfg, n_raised = [], 0, 0
    t1 = time.time()
    for kind, g, b in plan:
        c, spec = table[g][b]
        try:
            rec, bad = replay(kind, c, spec, world)
        except Exception as ex:  # noqa: BLE001
            viol.append(raised(ex, kind, c, ORDER))
            n_raised += 1
            if n_raised >= 5:
                break
            continue
        recs.append(rec)
        if bad and n_bad_cfg < 40:
            n_bad_cfg += 1
            seen = set()
            for (act, clause, detail) in bad:
                if clause in seen:
                    continue
                seen.add(clause)
                viol.append({"property": CLAUSE[clause], "env": ENVNAME[kind], "monitor": "replay-" + clause, "inst": c,
                             "actions": ORDER[: ORDER.index(act) + 1] if act in ORDER else ORDER, "detail": detail})
    replay_wall = time.time() - t1
    # ---- (3) real trainer runs
    t1 = time.time()
    fit_recs = []
    for kind, c in FIT_CONFIGS[tier]:
        try:
            fit_recs.append(fit_trace(kind, c, world, seed))
        except Exception as ex:  # noqa: BLE001
            viol.append(raised(ex, kind, c, ["RL4COTrainer.fit", "RL4COTrainer.test"]))
    fit_wall = time.time() - t1
    # ---- the recorded executions judged by TLC
    allrecs = recs + fit_recs
    slim = [{"c": x["c"], "ev": x["ev"]} for x in allrecs]
    fails, _, st, _ = validate_records("RoutingTrace", slim, TRACE_INV, "c17b", shards=4, per_shard=400)
    states += st
    seen = set()
    for f in fails:
        rec = allrecs[f[0]]
        k = (f[0], f[1])
        if k in seen or len(viol) > 200:
            continue
        seen.add(k)
        e = rec["ev"][f[2] - 1]
        viol.append({"property": CLAUSE[f[1]], "env": ENVNAME[rec["env"]], "monitor": ("fit-" if rec in fit_recs else "") + f[1],
                     "inst": dict(rec["c"], note=rec["note"]), "actions": [[x["a"], x["p"]] for x in rec["ev"][: f[2]]],
                     "detail": "event %d (%s %s): %s" % (f[2], e["a"], e["p"], {k2: v for k2, v in e.items() if k2 not in ("a", "p")})})
    if recs:
        samples.append({"replayed": {"c": recs[-1]["c"], "events": recs[-1]["ev"]}})
    if fit_recs:
        samples.append({"fit": {"c": fit_recs[0]["c"], "note": fit_recs[0]["note"],
                                "events": [[e["a"], e["p"], e.get("ep"), e.get("keys", [[ld["name"], ld["bs"], ld["batches"]] for ld in e.get("loaders", [])])]
                                           for e in fit_recs[0]["ev"]]}})
    cov = {"states": states, "transitions": transitions, "replayed": len(recs), "configurations_in_model": len(tup),
           "file_configurations": len(groups), "batch_shuffle_combinations": [list(b) for b in combos],
           "replayed_actions": len(recs) * len(ORDER), "tlc_validated_traces": len(allrecs), "fit_runs": len(fit_recs),
           "tlc_action_coverage": r.coverage(), "tlc_wall_s": round(r.wall, 1), "replay_wall_s": round(replay_wall, 1),
           "fit_wall_s": round(fit_wall, 1), "constants": CONSTANTS, "samples": samples, "rl4co": os.path.dirname(rl4co.__file__),
           "wall_s": round(time.time() - t0, 1),
           "explanation": "Routing.tla model-checked for all configurations of the scope; configurations replayed into real "
                          "TSPEnv / CVRPEnv + REINFORCE (files written by save_tensordict_to_npz, tagging generator) with comparison "
                          "per loader; the same executions and real RL4COTrainer.fit/test runs validated by RoutingTrace.tla"}
    return viol, cov


ASSUMPTIONS = ["instances carry their identity (source tag, index) in their coordinates; generator = tagging subclass of the real "
               "TSPGenerator / CVRPGenerator passed through the public `generator` argument",
               "stub policy (reward = 100 * source tag + index), baseline 'no'; num_workers = 0, single device, cpu",
               "metric keys of a trainer run are attributed to loader indices through the logged mean reward"]


def run(tier, seed):
    from .. import verdict

    t0 = time.time()
    viol, cov = violations(tier, seed)
    n_new = 0
    for pid in ("C17", "C19"):
        a, _ = verdict.report(pid, viol)
        n_new += a
    d = os.path.join(tlc.ROOT, "out", "agents", "grow_dataflow")
    os.makedirs(d, exist_ok=True)
    import json

    scratch = os.path.realpath(os.environ.get("VERIF_REPO", "/repo")) != "/repo"
    with open(os.path.join(d, "evidence_C17b_%s%s.json" % (tier, "_scratch" if scratch else "")), "w") as f:
        json.dump({"property_id": "C17B_ROUTING", "tier": tier, "seed": seed, "level": "model_checking", "coverage": cov,
                   "assumptions": ASSUMPTIONS, "wall_s": round(time.time() - t0, 2), "violations": n_new,
                   "violation_list": viol[:20]}, f, indent=1, default=str)
    print("[C17b] states=%d configs=%d replayed=%d traces=%d fit_runs=%d violations=%d wall=%.1fs (tlc %.1f replay %.1f fit %.1f)"
          % (cov["states"], cov["configurations_in_model"], cov["replayed"], cov["tlc_validated_traces"], cov["fit_runs"],
             len(viol), time.time() - t0, cov["tlc_wall_s"], cov["replay_wall_s"], cov["fit_wall_s"]))
    return 1 if n_new else 0


if __name__ == "__main__":
    tier = sys.argv[1] if len(sys.argv) > 1 and not sys.argv[1].startswith("-") else "quick"
    seed = int(sys.argv[2]) if len(sys.argv) > 2 else 0
    torch.set_num_threads(4)
    sys.exit(run(tier, seed))
