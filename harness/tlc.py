"""Run TLC on generated wrapper modules and parse what it prints.

Everything TLC needs is copied into a private work directory under /verif/out
(never /tmp); wrapper modules are produced from the templates in spec/common by
substituting the environment module name.
"""
import json
import os
import re
import shutil
import subprocess
import time

ROOT = os.path.dirname(os.path.dirname(os.path.abspath(__file__)))
SPEC = os.path.join(ROOT, "spec")
# scratch of THIS run (several checks may run at the same time: work directories must not collide); VERIF_RUN_ID is
# set by harness/check.py and inherited by its worker processes
OUT = os.path.join(ROOT, "out", "run_" + os.environ.get("VERIF_RUN_ID", "dev"))
JAR = "/opt/veriftools/tla/tla2tools.jar:/opt/veriftools/tla/CommunityModules-deps.jar"


class TLCError(RuntimeError):
    """machinery failure (exit code 2 of a check), never a property verdict"""


def _find_module(name):
    for sub in sorted(os.listdir(SPEC)):
        p = os.path.join(SPEC, sub, name + ".tla")
        if os.path.exists(p):
            return p
    raise TLCError("no module " + name)


def _deps(path, seen):
    """copy a module and (transitively) the local modules it EXTENDS / INSTANCEs"""
    txt = open(path).read()
    names = set()
    for m in re.finditer(r"EXTENDS\s+([^\n]+(?:\n\s+[^\n]+)*?)\n", txt):
        for n in re.split(r"[,\s]+", m.group(1).strip()):
            names.add(n)
    for m in re.finditer(r"INSTANCE\s+(\w+)", txt):
        names.add(m.group(1))
    for n in names:
        if n in seen or not n:
            continue
        try:
            p = _find_module(n)
        except TLCError:
            continue  # standard / community module
        seen[n] = p
        _deps(p, seen)


def prepare(workname, module=None, template=None, env_module=None, subst=None):
    """create out/tlc/<workname>/ holding the root module and its local deps.
    Either `module` (a module in spec/) or `template` + `env_module`."""
    wd = os.path.join(OUT, "tlc", workname)
    shutil.rmtree(wd, ignore_errors=True)
    os.makedirs(wd)
    seen = {}
    if template is not None:
        txt = open(os.path.join(SPEC, "common", template + ".tla.tmpl")).read()
        txt = txt.replace("@ENV@", env_module)
        for k, v in (subst or {}).items():
            txt = txt.replace("@" + k + "@", v)
        root = template + "_" + env_module
        rp = os.path.join(wd, root + ".tla")
        open(rp, "w").write(txt)
        _deps(rp, seen)
    else:
        root = module
        seen[module] = _find_module(module)
        _deps(seen[module], seen)
    for n, p in seen.items():
        shutil.copy(p, os.path.join(wd, n + ".tla"))
    return wd, root


def write_cfg(wd, root, spec="Spec", invariants=(), properties=(), constants=None,
              postcondition=None, constraint=None, view=None, init_next=None):
    lines = []
    if init_next:
        lines += ["INIT " + init_next[0], "NEXT " + init_next[1]]
    else:
        lines.append("SPECIFICATION " + spec)
    for k, v in (constants or {}).items():
        lines.append("CONSTANT %s = %s" % (k, v))
    for i in invariants:
        lines.append("INVARIANT " + i)
    for p in properties:
        lines.append("PROPERTY " + p)
    if postcondition:
        lines.append("POSTCONDITION " + postcondition)
    if constraint:
        lines.append("CONSTRAINT " + constraint)
    if view:
        lines.append("VIEW " + view)
    lines.append("CHECK_DEADLOCK FALSE")
    open(os.path.join(wd, root + ".cfg"), "w").write("\n".join(lines) + "\n")


_STATS = re.compile(r"(\d+) states generated, (\d+) distinct states found")
_DEPTH = re.compile(r"The depth of the complete state graph search is (\d+)")


class TLCResult:
    def __init__(self, out, rc, wall):
        self.out = out
        self.rc = rc
        self.wall = wall
        m = None
        for m in _STATS.finditer(out):
            pass
        self.generated = int(m.group(1)) if m else 0
        self.distinct = int(m.group(2)) if m else 0
        d = _DEPTH.search(out)
        self.depth = int(d.group(1)) if d else 0
        self.violated = re.findall(r"Invariant (\w+) is violated", out)
        self.violated += re.findall(r"Action property (\w+) is violated", out)
        self.finished = "Model checking completed" in out or "Finished in" in out
        self.error = None
        if "Temporal properties were violated" in out or re.search(r"Temporal property \w+ was violated", out):
            self.violated.append("Termination")
        if rc != 0 and not self.violated:
            em = re.search(r"Error: (.*)", out)
            self.error = em.group(1) if em else "rc=%d" % rc

    def tuples(self, tag):
        """all PrintT'ed tuples whose first element is the string `tag`"""
        return parse_tuples(self.out, tag)

    def coverage(self):
        """action name -> (distinct, total) from `-coverage` output"""
        cov = {}
        for m in re.finditer(r"<(\w+) line [^>]*>: (\d+):(\d+)", self.out):
            cov[m.group(1)] = (int(m.group(2)), int(m.group(3)))
        return cov


def run(wd, root, workers=16, env=None, timeout=3600, coverage=False, simulate=None,
        depth=None, seed=None, extra=(), heap="8g"):
    if workers == 16 and os.environ.get("VERIF_TLC_WORKERS"):
        workers = int(os.environ["VERIF_TLC_WORKERS"])
        heap = "4g"
    jtmp = os.path.join(wd, "_tmp")      # TLC creates a tlc-* directory under java.io.tmpdir on every start: keep it in the scratch dir
    os.makedirs(jtmp, exist_ok=True)
    # (-Xss: recursive operators over recorded traces of a few hundred steps overflow the default thread stack)
    cmd = ["java", "-XX:+UseParallelGC", "-Xmx" + heap, "-Xss256m", "-Djava.io.tmpdir=" + jtmp, "-cp", JAR, "tlc2.TLC",
           "-workers", str(workers), "-metadir", os.path.join(wd, "states"),
           "-noGenerateSpecTE", "-nowarning", "-config", root + ".cfg"]
    if coverage:
        cmd += ["-coverage", "1"]
    if simulate:
        cmd += ["-simulate", simulate]
    if depth:
        cmd += ["-depth", str(depth)]
    if seed is not None:
        cmd += ["-seed", str(seed)]
    cmd += list(extra) + [root + ".tla"]
    e = dict(os.environ)
    e.update(env or {})
    shutil.rmtree(os.path.join(wd, "states"), ignore_errors=True)
    t0 = time.time()
    try:
        p = subprocess.run(cmd, cwd=wd, env=e, capture_output=True, text=True, timeout=timeout)
    except subprocess.TimeoutExpired as ex:
        raise TLCError("TLC timeout in %s after %ss" % (wd, timeout)) from ex
    res = TLCResult(p.stdout + p.stderr, p.returncode, time.time() - t0)
    open(os.path.join(wd, "tlc.log"), "w").write(res.out)
    shutil.rmtree(os.path.join(wd, "states"), ignore_errors=True)
    if res.error and not res.violated:
        raise TLCError("TLC failed in %s: %s" % (wd, res.error))
    return res


# ---------------------------------------------------------------------------
# parsing TLA+ values printed by PrintT (tuples, sets, records, strings, ints)
# ---------------------------------------------------------------------------
def parse_value(s, i=0):
    n = len(s)
    while i < n and s[i].isspace():
        i += 1
    c = s[i]
    if c == "<" and s[i + 1] == "<":
        i += 2
        items = []
        while True:
            while s[i].isspace():
                i += 1
            if s.startswith(">>", i):
                return items, i + 2
            v, i = parse_value(s, i)
            items.append(v)
            while s[i].isspace():
                i += 1
            if s[i] == ",":
                i += 1
    if c == "{":
        i += 1
        items = []
        while True:
            while s[i].isspace():
                i += 1
            if s[i] == "}":
                return set_or_list(items), i + 1
            v, i = parse_value(s, i)
            items.append(v)
            while s[i].isspace():
                i += 1
            if s[i] == ",":
                i += 1
    if c == "[":
        i += 1
        rec = {}
        while True:
            while s[i].isspace():
                i += 1
            if s[i] == "]":
                return rec, i + 1
            m = re.compile(r"(\w+)\s*\|->").match(s, i)
            k = m.group(1)
            i = m.end()
            v, i = parse_value(s, i)
            rec[k] = v
            while s[i].isspace():
                i += 1
            if s[i] == ",":
                i += 1
    if c == '"':
        j = s.index('"', i + 1)
        return s[i + 1:j], j + 1
    m = re.compile(r"-?\d+").match(s, i)
    if m:
        return int(m.group(0)), m.end()
    m = re.compile(r"TRUE|FALSE").match(s, i)
    if m:
        return m.group(0) == "TRUE", m.end()
    m = re.compile(r"\w+").match(s, i)
    return m.group(0), m.end()


def set_or_list(items):
    try:
        return sorted(items)
    except TypeError:
        return items


def parse_tuples(out, tag):
    """PrintT output may interleave between workers; match on balanced << >>"""
    res = []
    key = re.compile(r'<<\s*"%s"' % re.escape(tag))   # long tuples are pretty-printed as `<< "tag",`
    pos = 0
    while True:
        mm = key.search(out, pos)
        if mm is None:
            break
        i = mm.start()
        depth = 0
        j = i
        n = len(out)
        ok = False
        while j < n - 1:
            if out.startswith("<<", j):
                depth += 1
                j += 2
                continue
            if out.startswith(">>", j):
                depth -= 1
                j += 2
                if depth == 0:
                    ok = True
                    break
                continue
            j += 1
        if not ok:
            break
        try:
            v, _ = parse_value(out[i:j])
            res.append(v)
        except Exception:
            pass
        pos = j
    return res


def dump_json(path, obj):
    os.makedirs(os.path.dirname(path), exist_ok=True)
    with open(path, "w") as f:
        json.dump(obj, f)


def dump_ndjson(path, rows):
    os.makedirs(os.path.dirname(path), exist_ok=True)
    with open(path, "w") as f:
        for r in rows:
            f.write(json.dumps(r, separators=(",", ":")) + "\n")
