"""C02, code -> spec on generator instances: the real decoding loop with a uniform-random stub decoder."""
import math
import random

import torch
import torch.nn as nn


def bound_of(name, td, env):
    """the step bound the property names, from the instance data (max over the rows of the batch)"""
    n = td["action_mask"].shape[-1]
    if name in ("tsp", "atsp", "smtwtp"):
        return n
    if name == "pdp":
        return n
    if name in ("cvrp", "cvrptw", "mtvrp"):
        return 2 * (n - 1) + 1
    if name == "sdvrp":
        tot = td["demand_with_depot"][..., 1:].sum(-1) if "demand_with_depot" in td.keys() else td["demand"].sum(-1)
        loads = torch.ceil(tot / td["vehicle_capacity"].view(-1) - 1e-6).max()
        return int(2 * (n - 1) + 1 + 2 * int(loads))
    if name == "svrp":
        return (n - 1) + max(td["techs"].shape[-2] - 1, 1)
    if name in ("op", "pctsp", "spctsp"):
        return (n - 1) + 1
    if name == "mtsp":
        return (n - 1) + int(td["num_agents"].max()) - 1
    if name in ("flp",):
        return int(td["to_choose"].max())
    if name in ("mcp",):
        return int(td["n_sets_to_choose"].max())
    if name in ("fjsp", "jssp"):
        return 2 * int((~td["pad_mask"]).sum(-1).max())
    return None


def make_uniform_policy(env_name, log):
    from rl4co.models.common.constructive.autoregressive.decoder import AutoregressiveDecoder
    from rl4co.models.common.constructive.base import ConstructivePolicy

    class Dec(AutoregressiveDecoder):
        def __init__(self):
            nn.Module.__init__(self)

        def forward(self, td, hidden=None, num_starts=0):
            mask = td["action_mask"]
            d = td["done"].reshape(mask.shape[0], -1).all(-1)
            prev = log.get("prev_done")
            log["minmask"].append(int(mask.sum(-1).min()))
            log["ndone"].append(int(d.sum()))
            log["undone"].append(int((prev & ~d).sum()) if prev is not None and prev.shape == d.shape else 0)
            log["prev_done"] = d.clone()
            return torch.zeros(mask.shape, dtype=torch.float32), mask

        def pre_decoder_hook(self, td, env, hidden=None, num_starts=0):
            return td, env, hidden

    class Enc(nn.Module):
        def forward(self, td):
            return None, None

    return ConstructivePolicy(encoder=Enc(), decoder=Dec(), env_name=env_name)


ENVS = ["tsp", "atsp", "pdp", "cvrp", "cvrptw", "sdvrp", "svrp", "op", "pctsp", "spctsp", "mtsp", "mtvrp", "smtwtp", "flp", "mcp",
        "fjsp", "jssp"]


def records(tier, seed):
    from rl4co.envs import get_env

    rnd = random.Random(seed)
    torch.manual_seed(seed)
    recs = []
    for name in ENVS:
        for rep in range(2 if tier == "quick" else 8):
            n = rnd.choice([5, 10, 20]) if name not in ("fjsp", "jssp", "flp", "mcp") else None
            try:
                gp = {"num_loc": n} if n else {}
                if name == "pdp" and n:
                    gp = {"num_loc": n if n % 2 == 0 else n + 1}
                if name == "mtvrp":
                    gp = {"num_loc": n, "variant_preset": rnd.choice(["all", "vrptw", "ovrpbltw", "vrpb", "ovrp", "vrpl"])}
                if name == "smtwtp":
                    gp = {"num_job": n}
                env = get_env(name, generator_params=gp)
                td = env.reset(batch_size=[rnd.choice([1, 3, 16, 64])])
            except Exception as e:
                recs.append({"env": name, "B": 1, "steps": 0, "bound": 0, "finished": True, "minmask": [], "ndone": [], "undone": [],
                             "note": "not constructible offline: %s" % str(e)[:60], "skipped": True})
                continue
            bound = bound_of(name, td, env)
            if bound is None:
                continue
            log = {"minmask": [], "ndone": [], "undone": [], "prev_done": None}
            policy = make_uniform_policy(name, log)
            with torch.no_grad():
                out = policy(td.clone(), env, decode_type="sampling", max_steps=4 * bound + 10, calc_reward=False)
            steps = out["actions"].shape[1]
            recs.append({"env": name, "B": int(td.shape[0]), "steps": int(steps), "bound": int(bound),
                         "finished": steps <= 4 * bound + 10, "minmask": log["minmask"][:steps], "ndone": log["ndone"][:steps],
                         "undone": log["undone"][:steps], "note": "num_loc=%s" % n, "skipped": False})
    # instances that enter through a LOADER instead of the generator: a Solomon-format instance (raw coordinates, raw demands
    # and the instance's own capacity) handed to CVRPTWEnv.extract_from_solomon, and a single-technician SVRP
    import numpy as np
    from rl4co.envs import CVRPTWEnv, SVRPEnv

    def roll(name, env, td, note):
        bound = bound_of(name, td, env)
        log = {"minmask": [], "ndone": [], "undone": [], "prev_done": None}
        policy = make_uniform_policy(name, log)
        with torch.no_grad():
            out = policy(td.clone(), env, decode_type="sampling", max_steps=4 * bound + 10, calc_reward=False)
        steps = out["actions"].shape[1]
        recs.append({"env": name, "B": int(td.shape[0]), "steps": int(steps), "bound": int(bound),
                     "finished": steps <= 4 * bound + 10, "minmask": log["minmask"][:steps], "ndone": log["ndone"][:steps],
                     "undone": log["undone"][:steps], "note": note, "skipped": False})

    # NON-DEFAULT sampling options (nucleus / top-k / temperature): the filters act on the masked logits just before the
    # softmax, so they too must never leave a row without an action -- in particular on a step with ONE feasible action
    # (probability 1 > top_p), e.g. the last node of a TSP tour or a finished row of a mixed batch
    _roll = roll

    def roll_opts(name, env, td, note, **opts):
        bound = bound_of(name, td, env)
        log = {"minmask": [], "ndone": [], "undone": [], "prev_done": None}
        policy = make_uniform_policy(name, log)
        try:
            with torch.no_grad():
                out = policy(td.clone(), env, decode_type="sampling", max_steps=4 * bound + 10, calc_reward=False, **opts)
        except Exception as e:      # noqa: BLE001
            import traceback
            site = [f for f in traceback.extract_tb(e.__traceback__) if "/rl4co/" in f.filename]
            if not site:
                raise
            recs.append({"env": name, "B": int(td.shape[0]), "steps": len(log["minmask"]), "bound": int(bound), "finished": False,
                         "minmask": [], "ndone": [], "undone": [], "note": note, "skipped": True,
                         "crash": "%s at %s:%d after %d decoding steps: %s" % (type(e).__name__, site[-1].filename.split("/rl4co/")[-1],
                                                                               site[-1].lineno, len(log["minmask"]), str(e)[:120])})
            return
        steps = out["actions"].shape[1]
        recs.append({"env": name, "B": int(td.shape[0]), "steps": int(steps), "bound": int(bound),
                     "finished": steps <= 4 * bound + 10, "minmask": log["minmask"][:steps], "ndone": log["ndone"][:steps],
                     "undone": log["undone"][:steps], "note": note, "skipped": False})

    rnd_o = random.Random(977 + seed)       # own stream: the draws of the other blocks stay what they were
    for name in ("tsp", "cvrp", "op", "pctsp", "fjsp"):
        for opts in ({"top_p": 0.5}, {"top_p": 0.9, "temperature": 0.5}, {"top_k": 2}, {"top_k": 3, "top_p": 0.3}):
            try:
                env = get_env(name, generator_params={} if name == "fjsp" else {"num_loc": 6})
                td = env.reset(batch_size=[rnd_o.choice([1, 5, 16])])
            except Exception:       # noqa: BLE001
                continue
            if bound_of(name, td, env) is None:
                continue
            roll_opts(name, env, td, "sampling options %s" % opts, **opts)

    for rep in range(2 if tier == "quick" else 6):
        k = rnd.choice([4, 6, 9])
        coord = np.array([[40, 50]] + [[rnd.randint(0, 100), rnd.randint(0, 100)] for _ in range(k)], dtype=float)
        start = [rnd.randint(0, 800) for _ in range(k)]
        inst = {"node_coord": coord, "demand": np.array([0] + [rnd.choice([10, 20, 30]) for _ in range(k)]), "capacity": 200,
                "time_window": np.array([[0, 1236]] + [[s0, s0 + rnd.randint(40, 120)] for s0 in start]),
                "service_time": np.array([0] + [90] * k)}
        env = CVRPTWEnv(generator_params={"num_loc": k})
        roll("cvrptw", env, env.extract_from_solomon(inst), "Solomon-format instance through extract_from_solomon, %d customers" % k)
        env = SVRPEnv(generator_params={"num_loc": k, "tech_costs": [rnd.choice([1, 2])]})
        roll("svrp", env, env.reset(batch_size=[rnd.choice([1, 3])]), "single technician, num_loc=%d" % k)
    return recs
