"""Verdicts, known findings, replay files, evidence."""
import hashlib
import json
import os
import time

ROOT = os.path.dirname(os.path.dirname(os.path.abspath(__file__)))
KNOWN = os.path.join(ROOT, "known_findings.json")


def load_known():
    if not os.path.exists(KNOWN):
        return []
    return json.load(open(KNOWN)).get("findings", [])


def vclass(v):
    """the class a violation belongs to: (property, env, monitor, cls)"""
    return (v["property"], v["env"], v["monitor"], v.get("cls", ""))


def matches(entry, v):
    if entry.get("status") != "open":
        return False   # fixed entries suppress nothing
    for k in ("property", "env", "monitor"):
        if entry.get(k) != v.get(k):
            return False
    if "cls" in entry and entry["cls"] != v.get("cls", ""):
        return False
    return True


def write_replay(v):
    d = os.path.join(ROOT, "out", "replay")
    os.makedirs(d, exist_ok=True)
    body = json.dumps(v, sort_keys=True, default=str)
    h = hashlib.sha1(body.encode()).hexdigest()[:10]
    p = os.path.join(d, "%s-%s-%s.json" % (v["property"], "".join(c if c.isalnum() or c in "_-" else "_" for c in str(v["env"])), h))
    open(p, "w").write(body)
    return p


def report(pid, violations, max_lines=15):
    """prints VIOLATION / KNOWN-FINDING lines; returns (n_new, n_known)"""
    known = load_known()
    new, old = {}, {}
    for v in violations:
        if v["property"] != pid:
            continue
        e = next((k for k in known if matches(k, v)), None)
        (old if e else new).setdefault(vclass(v), []).append((v, e))
    for cls, vs in old.items():
        v, e = vs[0]
        print("KNOWN-FINDING: property=%s %s [%s/%s%s] (%d witnesses this run)"
              % (pid, e.get("what", ""), v["env"], v["monitor"],
                 "/" + v["cls"] if v.get("cls") else "", len(vs)))
    n = 0
    for cls, vs in new.items():
        for v, _ in vs[:3]:
            if n < max_lines:
                p = write_replay(v)
                print("VIOLATION property=%s replay=%s" % (pid, p))
                print("  env=%s monitor=%s%s inst=%s actions=%s %s"
                      % (v["env"], v["monitor"], " cls=" + v["cls"] if v.get("cls") else "",
                         json.dumps({k: x for k, x in v["inst"].items() if k not in ("D", "pts", "mask")},
                                    default=str)[:300],
                         str(v["actions"])[:200], str(v.get("detail", ""))[:300]))
            n += 1
    return sum(len(x) for x in new.values()), sum(len(x) for x in old.values())


def write_evidence(pid, tier, seed, level, coverage, assumptions, wall, n_viol, extra=None):
    d = os.path.join(ROOT, "evidence")
    if os.path.realpath(os.environ.get("VERIF_REPO", "/repo")) != "/repo":
        # a scratch checkout (seeded change / mutant) is being examined: do not overwrite the evidence of /repo
        d = os.path.join(ROOT, "out", "evidence_scratch")
    os.makedirs(d, exist_ok=True)
    ev = {"property_id": pid, "tier": tier, "seed": int(seed), "level": level,
          "coverage": coverage, "assumptions": assumptions, "wall_s": round(wall, 2),
          "violations": int(n_viol)}
    if extra:
        ev.update(extra)
    with open(os.path.join(d, pid + ".json"), "w") as f:
        json.dump(ev, f, indent=1, default=str)
    return ev
