"""bin/check <PROPERTY> [--tier quick|thorough] [--replay FILE] [--env NAME]

exit 0  property held on everything explored (KNOWN-FINDING lines allowed)
exit 1  VIOLATION property=<id> replay=<path>
exit 2  machinery failure (TLC crash, parse error ...) -- never a verdict
"""
import argparse
import json
import os
import sys
import time
import traceback
import warnings

warnings.filterwarnings("ignore")
os.environ.setdefault("PYTHONHASHSEED", "0")
ROOT = os.path.dirname(os.path.dirname(os.path.abspath(__file__)))
os.environ.setdefault("VERIF_RUN_ID", "%d" % os.getpid())       # private scratch directory out/run_<id> (see tlc.OUT)
sys.path.insert(0, ROOT)
sys.path.insert(0, os.environ.get("VERIF_REPO", "/repo"))

import logging  # noqa: E402

import torch  # noqa: E402

torch.set_num_threads(int(os.environ.get("VERIF_TORCH_THREADS", "4")))

logging.disable(logging.WARNING)

from harness import pipeline, tlc, verdict  # noqa: E402
from harness.envs import registry  # noqa: E402

ENV_STAGES = {
    "C01": ("model", "bfs"),
    "C02": ("model", "bfs"),
    "C03": ("model", "bfs", "replay"),
    "C04": ("bfs", "batch"),
    "C05": ("model", "replay"),
    "C06": ("model", "bfs", "replay", "checker"),
    "C07": ("model", "bfs"),
    "C08": ("model", "bfs"),
}


def _run_one(args):
    """worker process: the whole pipeline of one environment adapter"""
    pid, tag, tier, seed = args
    import torch

    torch.set_num_threads(2)
    os.environ["VERIF_TLC_WORKERS"] = "4"
    from harness.envs import registry as reg

    ad = next(a for a in reg.ALL if a.tag == tag)
    t1 = time.time()
    try:
        r = pipeline.run_env(ad, tier, seed, stages=ENV_STAGES[pid])
    except tlc.TLCError as e:
        return {"tag": tag, "error": "TLC: %s" % e}
    except Exception as e:
        where = crash_site(e)
        if where is None:
            return {"tag": tag, "error": traceback.format_exc()[-2000:]}
        r = pipeline.EnvResult(ad.name)
        r.violations.append({"property": pid, "env": ad.name, "monitor": "library-raised", "inst": {"where": where},
                             "actions": [], "detail": "%s: %s" % (type(e).__name__, str(e)[:300])})
    # escalation: the real code disagrees with the implementation model (trace / behaviour-set drift) but no monitor of
    # this property failed in the small quick family -> explore the thorough family of THIS environment right away
    # (never happens on a tree the model follows, so the quick tier stays quick)
    try:
        drifted = any(d.get("kind") in ("trace", "behaviour-sets") for d in r.drift)
        if tier == "quick" and drifted and not any(v["property"] == pid for v in r.violations) \
                and os.environ.get("VERIF_NO_ESCALATE") != "1":
            r2 = pipeline.run_env(ad, "thorough", seed, stages=ENV_STAGES[pid])
            r2.notes.append("escalated from quick to thorough because of model drift")
            r2.stats["escalated"] = 1
            r2.drift = r.drift + r2.drift
            r = r2
    except tlc.TLCError as e:
        return {"tag": tag, "error": "TLC (escalation): %s" % e}
    except Exception as e:
        where = crash_site(e)
        if where is None:
            return {"tag": tag, "error": traceback.format_exc()[-2000:]}
        r.violations.append({"property": pid, "env": ad.name, "monitor": "library-raised", "inst": {"where": where},
                             "actions": [], "detail": "%s: %s" % (type(e).__name__, str(e)[:300])})
    r.stats["wall_s"] = round(time.time() - t1, 1)
    return {"tag": tag, "env": r.env, "violations": r.violations, "drift": r.drift, "notes": r.notes, "stats": r.stats,
            "samples": r.samples, "coverage": r.coverage}


class _Res:
    def __init__(self, d):
        self.__dict__.update(d)


def env_property(pid, tier, seed, only=None):
    import multiprocessing as mp
    from concurrent.futures import ProcessPoolExecutor

    t0 = time.time()
    tags = [ad.tag for ad in registry.adapters_for(pid) if not only or ad.tag == only]
    results = []
    nproc = int(os.environ.get("VERIF_PAR", "6"))
    with ProcessPoolExecutor(max_workers=min(nproc, max(1, len(tags))), mp_context=mp.get_context("spawn")) as ex:
        for d in ex.map(_run_one, [(pid, t, tier, seed) for t in tags]):
            if "error" in d:
                raise tlc.TLCError("environment %s: %s" % (d["tag"], d["error"]))
            r = _Res(d)
            results.append(r)
            print("[%s] %-12s %s viol=%d drift=%d" % (pid, r.tag, json.dumps(r.stats), len(
                [v for v in r.violations if v["property"] == pid]), len(r.drift)), flush=True)
    extra_states = extra_trans = 0
    extra_note = {}
    if pid == "C04" and not only:
        # model-level exploration of the one batch-GLOBAL read in the environments (TSPEnv: td["i"].all() == 0)
        wd, root = tlc.prepare("tspbatch", module="TSPBatch")
        tlc.write_cfg(wd, root, constants={"R": "2" if tier == "quick" else "3", "NN": "4"},
                      invariants=["RowIsSolo", "AllFinishTogether"])
        rb = tlc.run(wd, root, coverage=True)
        extra_states, extra_trans = rb.distinct, rb.generated
        extra_note = {"TSPBatch": {"states": rb.distinct, "violated": rb.violated, "coverage": rb.coverage()}}
        if rb.violated:
            print("MODEL-DRIFT C04: TSPBatch model violates %s (batch-global read not harmless in the MODEL)" % rb.violated)
    roll_viol = []
    if pid == "C02" and not only:
        # code -> spec on generator instances: the real decoding loop with a uniform-random stub decoder
        from harness import rollouts
        from harness.props.common import validate_records
        recs = [r for r in rollouts.records(tier, seed)]
        live = [r for r in recs if not r["skipped"]]
        fails, _, st_r, _ = validate_records("RolloutTrace", live, ["M_Mask", "M_Mono", "M_Bound", "End"], "c02roll")
        extra_states += st_r
        extra_note["rollouts"] = {"batches": len(live), "skipped": [r["env"] + ": " + r["note"] for r in recs if r["skipped"]][:6],
                                  "sample": {k: live[0][k] for k in ("env", "B", "steps", "bound")} if live else {}}
        for rec in recs:
            if rec.get("crash"):
                roll_viol.append({"property": "C02", "env": rec["env"], "monitor": "rollout-decoding-loop-raised",
                                  "inst": {k: rec[k] for k in ("env", "B", "steps", "bound", "note")}, "actions": [],
                                  "detail": rec["crash"]})
        for f in fails:
            rec = live[f[0]]
            roll_viol.append({"property": "C02", "env": rec["env"], "monitor": "rollout-" + f[1],
                              "inst": {k: rec[k] for k in ("env", "B", "steps", "bound", "note")}, "actions": [],
                              "detail": "iteration %s: minmask %s ndone %s" % (f[2], rec["minmask"][:40], rec["ndone"][:40])})
    if pid == "C06" and not only:
        # the checkers of the improvement environments (k-opt TSP, PDP ruin-repair) read td["rec_best"]
        from harness.props import c09
        v6, n6 = c09.c06_violations(tier, seed)
        roll_viol += v6
        extra_note["improvement_env_checkers"] = {"cases": n6, "violations": len(v6)}
    if pid in ("C03", "C07", "C04") and not only:
        # the step-wise (dense) reward interfaces: DenseRewardTSPEnv, FJSP/JSSP stepwise_reward (DenseTSP.tla, FJSPStepwise.tla)
        from harness.props import c03b_dense
        # C03 also owns the REWARD clauses of the scheduling environments (step reward, telescoping sum, terminal reward)
        vb, cb = c03b_dense.violations(tier, seed, props=("C03", "C07") if pid == "C03" else (pid,))
        if pid == "C03":
            for v in vb:
                if v["property"] == "C07" and any(w in v["monitor"] for w in ("step", "telescopes", "terminal", "reward")):
                    v["property"] = "C03"
        roll_viol += [v for v in vb if v["property"] == pid]
        extra_states += cb["states"]
        extra_trans += cb["transitions"]
        extra_note["stepwise_rewards"] = {k: cb.get(k) for k in ("states", "transitions", "replayed", "per_env", "observations")}
    viol = [v for r in results for v in r.violations] + roll_viol
    for r in results:
        for d in r.drift[:5]:
            print("MODEL-DRIFT env=%s %s" % (r.env, json.dumps(d, default=str)[:300]))
    n_new, n_known = verdict.report(pid, viol)
    st = lambda k: sum(r.stats.get(k, 0) for r in results)  # noqa: E731
    cov = {
        "states": max(1, st("model_states") + st("trace_states") + extra_states),
        "transitions": max(1, st("model_transitions") + extra_trans),
        "batch_models": extra_note,
        "traces_validated_against_impl": st("traces_validated") + st("replayed") + st("classified"),
        "samples": [s for r in results for s in r.samples[:2]] or [{"note": "no bfs stage"}],
        "exhaustive": True,
        "per_env": {r.env: r.stats for r in results},
        "tlc_action_coverage": {r.env: r.coverage for r in results},
        "model_drift": {r.env: r.drift[:5] for r in results if r.drift},
        "known_finding_witnesses": n_known,
        "explanation": "TLC exhaustively checks the TLA+ model of each environment against the problem "
                       "definition for a small-scope family; the REAL environment is expanded breadth-first over "
                       "its own mask for the same family and every recorded episode is validated by TLC "
                       "(property monitors + model conformance); feasible solutions generated by TLC from the "
                       "problem definition are replayed into the real environment and its checker.",
    }
    verdict.write_evidence(pid, tier, seed, "model_checking", cov,
                           ["small-scope families (see per_env.instances)",
                            "exact float32 embedding of integer instances (harness/embed.py)",
                            "TLC 1.8.0, the TLA+ problem definitions in spec/env/*.tla PART 1"],
                           time.time() - t0, n_new)
    return 1 if n_new else 0


def main():
    ap = argparse.ArgumentParser()
    ap.add_argument("pid")
    ap.add_argument("--tier", default=os.environ.get("VERIF_TIER", "quick"))
    ap.add_argument("--replay")
    ap.add_argument("--env")
    a = ap.parse_args()
    seed = int(os.environ.get("VERIF_SEED", "0"))
    # global watchdog: a check that does not finish (e.g. the code under test loops forever) ends as a machinery failure
    # instead of hanging whoever called it
    import signal

    def _expired(signum, frame):
        print("MACHINERY-FAILURE: check %s (%s) did not finish within its time limit" % (a.pid, a.tier), flush=True)
        os._exit(2)

    signal.signal(signal.SIGALRM, _expired)
    signal.alarm(int(os.environ.get("VERIF_TIME_LIMIT", "3600" if a.tier == "quick" else "28800")))
    try:
        if a.pid == "selftest":
            from harness import selftest
            return selftest.main()
        if a.replay:
            from harness import replay
            return replay.main(a.pid, a.replay)
        if a.pid in ENV_STAGES:
            return env_property(a.pid, a.tier, seed, a.env)
        from harness import protocols
        return protocols.run(a.pid, a.tier, seed)
    except tlc.TLCError as e:
        print("MACHINERY-FAILURE: %s" % e)
        return 2
    except Exception as e:
        traceback.print_exc()
        where = crash_site(e)
        if where is not None:
            # the library itself raised on an input the unchanged tree handles: a verdict, not a machinery failure
            v = {"property": a.pid, "env": "rl4co", "monitor": "library-raised", "inst": {"where": where}, "actions": [],
                 "detail": "%s: %s" % (type(e).__name__, str(e)[:300]), "traceback": traceback.format_exc()[-3000:]}
            n_new, _ = verdict.report(a.pid, [v])
            try:
                verdict.write_evidence(a.pid, a.tier, seed, "model_checking",
                                       {"states": 1, "transitions": 1, "traces_validated_against_impl": 0,
                                        "samples": [{"library_raised": v["detail"], "where": where}]},
                                       ["run aborted: the code under test raised"], 0.0, 1)
            except Exception:
                pass
            return 1 if n_new else 0
        print("MACHINERY-FAILURE: exception")
        return 2


def crash_site(exc):
    """file:line of the innermost frame inside the code under test (rl4co), provided no harness frame is deeper"""
    repo = os.path.realpath(os.environ.get("VERIF_REPO", "/repo"))
    tb = exc.__traceback__
    frames = []
    while tb is not None:
        frames.append((os.path.realpath(tb.tb_frame.f_code.co_filename), tb.tb_lineno))
        tb = tb.tb_next
    for fn, ln in reversed(frames):
        if "site-packages" in fn or fn.startswith("<"):
            continue
        if fn.startswith(os.path.join(repo, "rl4co")):
            return "%s:%d" % (os.path.relpath(fn, repo), ln)
        return None
    return None


def _cleanup(rc):
    """scratch of a clean run is removed; it is kept (TLC logs, traces) when something was reported"""
    import shutil
    d = tlc.OUT
    if rc == 0 and os.path.basename(d).startswith("run_") and os.environ.get("VERIF_KEEP") != "1":
        shutil.rmtree(d, ignore_errors=True)
    # stale scratch of killed runs (older than a day)
    base = os.path.dirname(d)
    try:
        for n in os.listdir(base):
            q = os.path.join(base, n)
            if n.startswith("run_") and q != d and time.time() - os.path.getmtime(q) > 86400:
                shutil.rmtree(q, ignore_errors=True)
    except OSError:
        pass


if __name__ == "__main__":
    rc = main()
    _cleanup(rc)
    sys.exit(rc)
