"""Dispatcher for the protocol-level properties (C09 ... C20)."""
import importlib


def run(pid, tier, seed):
    mod = importlib.import_module("harness.props." + pid.lower())
    return mod.run(tier, seed)
