"""Integer instances -> exact float32 tensors.

Point templates are integer lattice points whose pairwise Euclidean distances
are all integers; divided by a power of two they (and every partial sum of legs
the environments compute) are exact in float32, so the integer specification
and the real code must agree bit for bit.
"""
import itertools
import math

import torch

# (points, grid) : coordinates = point / grid ; all pairwise distances integral
TEMPLATES = {
    5: [
        ([(0, 0), (6, 0), (0, 8), (6, 8), (3, 4)], 16),
        ([(4, 3), (0, 0), (0, 6), (8, 0), (8, 6)], 16),
        ([(0, 5), (0, 0), (0, 10), (0, 14), (12, 5)], 16),
        ([(12, 16), (0, 0), (0, 7), (0, 25), (24, 7)], 32),
    ],
    6: [
        ([(5, 12), (0, 0), (0, 12), (0, 24), (9, 12), (16, 12)], 32),
        ([(12, 5), (0, 0), (12, 0), (12, 9), (12, 16), (24, 0)], 32),
    ],
}


def collinear(k, grid=16, seed=0):
    import random

    r = random.Random(seed)
    xs = r.sample(range(grid + 1), k)
    return [(x, 3) for x in xs], grid


def template(k, which=0, rot=0):
    """k points (index 0 = depot).  `rot` rotates which point is the depot."""
    if k in TEMPLATES:
        pts, g = TEMPLATES[k][which % len(TEMPLATES[k])]
    elif k < 5:
        pts, g = TEMPLATES[5][which % len(TEMPLATES[5])]
        pts = pts[:k]
    else:
        pts, g = collinear(k, 16, which)
    rot %= len(pts)
    pts = pts[rot:] + pts[:rot]
    return pts, g


def dist_matrix(pts):
    """integer distance matrix of a template (asserts exactness)"""
    n = len(pts)
    D = [[0] * n for _ in range(n)]
    for i in range(n):
        for j in range(n):
            d2 = (pts[i][0] - pts[j][0]) ** 2 + (pts[i][1] - pts[j][1]) ** 2
            r = math.isqrt(d2)
            assert r * r == d2, (pts[i], pts[j])
            D[i][j] = r
    return D


def scaled_dist_matrix(locs, S):
    """free-float instances: round(dist * S) computed in float64 from float32 data"""
    x = torch.as_tensor(locs, dtype=torch.float64)
    d = (x[:, None, :] - x[None, :, :]).pow(2).sum(-1).sqrt()
    return [[int(round(v * S)) for v in row] for row in d.tolist()]


def locs_tensor(pts, grid):
    return torch.tensor(pts, dtype=torch.float32) / float(grid)
