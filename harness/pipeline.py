"""Per-environment pipeline: TLC model checking of the specification, exhaustive
expansion of the REAL environment, TLC validation of the recorded traces, replay of
TLC-generated solutions into the real environment, checker classification."""
import concurrent.futures as cf
import itertools
import os
import time

from . import driver, tlc

TRACE_INV = ["M_Driver", "M_C01", "M_C02a", "M_C02b", "M_C02c", "M_C03", "M_C06",
             "M_PadC02", "M_PadC04", "M_PadC06", "M_PadState", "M_Step", "M_Final", "Conf", "End"]
MON2PROP = {"C01": "C01", "C02a": "C02", "C02b": "C02", "C02c": "C02", "PadC02": "C02",
            "C03": "C03", "PadC04": "C04", "C06": "C06", "PadC06": "C06"}


class EnvResult:
    def __init__(self, name):
        self.env = name
        self.violations = []   # dicts: property, env, monitor, inst, actions, detail
        self.drift = []        # model/code disagreements (never a verdict)
        self.notes = []
        self.stats = {"model_states": 0, "model_transitions": 0, "trace_states": 0,
                      "traces_validated": 0, "episodes": 0, "replayed": 0, "classified": 0,
                      "real_states": 0, "instances": 0}
        self.samples = []
        self.coverage = {}

    classify = None   # adapter.violation_class(inst, monitor) -> class string for known-finding matching

    def add(self, prop, monitor, inst, actions, detail=""):
        v = {"property": prop, "env": self.env, "monitor": monitor,
             "inst": {k: v for k, v in inst.items()},
             "actions": list(actions), "detail": detail}
        if self.classify is not None:
            v["cls"] = self.classify(inst, monitor)
        self.violations.append(v)


def _norm_pad(e, eps):
    e = dict(e)
    e["eps"] = eps
    p = dict(e["pad"])
    p.setdefault("stuck", False)
    p.setdefault("reward", 0)
    p.setdefault("checker", "none")
    p.setdefault("st", [])
    if isinstance(p["reward"], dict) or p["reward"] is None:
        p["reward"] = 0
    e["pad"] = p
    if e["reward"] is None or isinstance(e["reward"], dict):
        e["reward"] = 0
        if e["end"] == "done":
            e["end"] = "inexact"
    return e


def validate_traces(ad, episodes, tag, invariants=TRACE_INV, shards=16, template="Trace"):
    """TLC trace validation, sharded over parallel single-worker JVMs.
    returns (fails [(episode_index, monitor, step)], drifts [(episode_index, step)], ended set, states)"""
    n = len(episodes)
    if n == 0:
        return [], [], set(), 0
    k = max(1, min(shards, (n + 499) // 500))
    bounds = [(i * n) // k for i in range(k + 1)]

    def one(j):
        lo, hi = bounds[j], bounds[j + 1]
        wname = "%s_%s_%d" % (template.lower(), tag, j)
        modtxt = open(tlc._find_module(ad.module)).read()
        padstate = "PadStateOK(I, Hist(T), Tr.pad.st[k])" if "PadStateOK(" in modtxt else "TRUE"
        wd, root = tlc.prepare(wname, template=template, env_module=ad.module, subst={"PADSTATE": padstate})
        f = os.path.join(wd, "traces.ndjson")
        tlc.dump_ndjson(f, episodes[lo:hi])
        tlc.write_cfg(wd, root, invariants=invariants)
        r = tlc.run(wd, root, workers=1, env={"TRACE_FILE": f}, heap="3g")
        if r.violated:
            raise tlc.TLCError("trace spec invariant violated (should only print): %s" % r.violated)
        fails = [(lo + t[1] - 1, t[2], t[3]) for t in r.tuples("FAIL")]
        drifts = [(lo + t[1] - 1, t[2]) for t in r.tuples("DRIFT")]
        ended = {lo + t[1] - 1 for t in r.tuples("END")}
        os.remove(f)
        return fails, drifts, ended, r.distinct

    fails, drifts, ended, states = [], [], set(), 0
    with cf.ThreadPoolExecutor(max_workers=min(k, 16)) as ex:
        for a, b, c, d in ex.map(one, range(k)):
            fails += a
            drifts += b
            ended |= c
            states += d
    return fails, drifts, ended, states


def model_check(ad, fam_file, res, tag):
    wd, root = tlc.prepare("solo_" + tag, template="Solo", env_module=ad.module)
    # safety invariants (print-only) + the liveness property "every behaviour reaches a finished state" under weak fairness
    tlc.write_cfg(wd, root, spec="FairSpec", invariants=list(ad.solo_invariants), properties=["Termination"])
    r = tlc.run(wd, root, env={"FAMILY_FILE": fam_file}, coverage=True)
    if "Termination" in r.violated:
        res.drift.append({"kind": "model-liveness", "which": ["Termination"],
                          "note": "the Solo MODEL has a behaviour that never finishes (see out/tlc/solo_%s/tlc.log)" % tag})
        r.violated = [v for v in r.violated if v != "Termination"]
    res.stats["model_states"] += r.distinct
    res.stats["model_transitions"] += r.generated
    res.coverage["Solo"] = r.coverage()
    res.stats["model_depth"] = r.depth
    mf = r.tuples("MODELFAIL")
    if r.violated or mf:
        res.drift.append({"kind": "model-invariant", "which": sorted({t[1] for t in mf}) + r.violated,
                          "count": len(mf), "example": mf[:2],
                          "note": "the Solo MODEL violates an invariant; the verdict comes from the real-code monitors"})
    behaviours = {}
    for t in r.tuples("T"):
        behaviours.setdefault(t[1], set()).add(tuple(t[2]))
    if not ad.has_truth:
        return behaviours, []
    wd, root = tlc.prepare("truth_" + tag, template="Truth", env_module=ad.module)
    tlc.write_cfg(wd, root, invariants=["C05", "Emit"])
    r2 = tlc.run(wd, root, env={"FAMILY_FILE": fam_file}, coverage=True)
    res.stats["model_states"] += r2.distinct
    res.stats["model_transitions"] += r2.generated
    res.coverage["Truth"] = r2.coverage()
    mf2 = r2.tuples("MODELFAIL")
    if r2.violated or mf2:
        res.drift.append({"kind": "model-invariant", "which": ["C05"] + r2.violated, "count": len(mf2),
                          "example": mf2[:2],
                          "note": "Truth x model product: the MODEL's mask hides a feasible solution"})
    sols = sorted((t[1], list(t[2]), t[3]) for t in r2.tuples("S"))
    return behaviours, sols


def classify(ad, fam_file, cands, tag):
    """cands: list of {"inst": family index (1-based), "seq": [...]} -> list of (feasible, objective)"""
    if not cands:
        return []
    n = len(cands)
    k = max(1, min(16, (n + 1999) // 2000))
    bounds = [(i * n) // k for i in range(k + 1)]

    def one(j):
        lo, hi = bounds[j], bounds[j + 1]
        wd, root = tlc.prepare("classify_%s_%d" % (tag, j), template="Classify", env_module=ad.module)
        f = os.path.join(wd, "cands.ndjson")
        tlc.dump_ndjson(f, cands[lo:hi])
        tlc.write_cfg(wd, root, invariants=["Emit"])
        r = tlc.run(wd, root, workers=1, env={"TRACE_FILE": f, "FAMILY_FILE": fam_file}, heap="3g")
        out = {lo + t[1] - 1: (t[2], t[3]) for t in r.tuples("K")}
        os.remove(f)
        return out

    out = {}
    with cf.ThreadPoolExecutor(max_workers=min(k, 16)) as ex:
        for d in ex.map(one, range(k)):
            out.update(d)
    if len(out) != n:
        raise tlc.TLCError("classification incomplete: %d of %d" % (len(out), n))
    return [out[i] for i in range(n)]


def batch_stage(ad, eps, tier, seed, res, tag):
    """C04: sampled real episodes re-run solo (batch of one) and as rows of mixed batches"""
    import random

    rnd = random.Random(seed)
    # an episode that DEAD-ENDS inside the batches of the breadth-first expansion but not when its instance is stepped alone
    # along the same actions: the (empty) mask depended on the batch-mates
    dead = [e for e in eps if e["end"] == "deadend"]
    for e in rnd.sample(dead, min(len(dead), 12 if tier == "quick" else 60)):
        try:
            solo = driver.run_rows(ad, [(e["inst"], e["a"])], extra_pad=0)[0]
        except Exception:  # noqa: BLE001 - the batched run is what C02 judges; nothing to compare here
            continue
        if solo["mask"][-1] and not solo["done"][-1]:
            res.add("C04", "batch-deadend-not-solo", e["inst"], e["a"],
                    "after these actions the mask is empty inside a batch, but offers %s when the instance is stepped alone"
                    % solo["mask"][-1])
    done = [e for e in eps if e["end"] == "done"]
    if not done:
        return
    m = 40 if tier == "quick" else 400
    recs = []
    for key, group in driver.group_by(done, lambda e: ad.group_key(e["inst"])).items():
        share = max(4, (m * len(group)) // len(done))
        sample = rnd.sample(group, min(share, len(group)))
        # always include the shortest and the longest episodes (they induce padding)
        sample += [min(group, key=lambda e: len(e["a"])), max(group, key=lambda e: len(e["a"]))]
        rows_of = {id(e): [] for e in sample}
        batches = []
        for e in sample:
            batches.append([e, e])                                   # next to a copy of itself
            batches.append([rnd.choice(group), e])                   # second position
            batches.append([e] + [rnd.choice(group) for _ in range(2)])
            batches.append([rnd.choice(group) for _ in range(rnd.randint(3, 6))] + [e])
        for b in batches:
            out = driver.run_rows(ad, [(e["inst"], e["a"]) for e in b],
                                  extra_pad=1 if ad.pad_steps > 0 else 0)
            for e, o in zip(b, out):
                if id(e) in rows_of:
                    rows_of[id(e)].append(o)
        for e in sample:
            solo = driver.run_rows(ad, [(e["inst"], e["a"])], extra_pad=0)[0]
            recs.append({"inst_id": e["inst"]["id"], "a": e["a"], "solo": solo,
                         "rows": rows_of[id(e)], "pad_needed": ad.pad_steps > 0, "_inst": e["inst"]})
    for r in recs:
        for o in [r["solo"]] + r["rows"]:
            if isinstance(o["reward"], dict):
                o["reward"] = int(round(o["reward"]["inexact"] * 1000))
    wd, root = tlc.prepare("batcheq_" + tag, module="BatchEq")
    f = os.path.join(wd, "recs.ndjson")
    tlc.dump_ndjson(f, [{k: v for k, v in r.items() if k != "_inst"} for r in recs])
    tlc.write_cfg(wd, root, invariants=["M_Mask", "M_Done", "M_PadDone", "M_PadMask", "M_Reward", "End"])
    r = tlc.run(wd, root, workers=1, env={"TRACE_FILE": f})
    os.remove(f)
    ended = {t[1] for t in r.tuples("END")}
    if len(ended) != len(recs):
        raise tlc.TLCError("BatchEq: %d of %d records not consumed" % (len(recs) - len(ended), len(recs)))
    res.stats["batch_records"] = len(recs)
    res.stats["batch_rows"] = sum(len(x["rows"]) for x in recs)
    res.stats["trace_states"] += r.distinct
    res.stats["traces_validated"] += len(recs)
    for t in r.tuples("FAIL"):
        rec = recs[t[1] - 1]
        rows = [(o["size"], o["pos"], o["reward"]) for o in rec["rows"]]
        res.add("C04", "batch-" + t[2], rec["_inst"], rec["a"],
                "step %d solo reward %s; rows (size,pos,reward) %s" % (t[3], rec["solo"]["reward"], rows))


def run_env(ad, tier, seed=0, stages=("model", "bfs", "replay", "checker")):
    res = EnvResult(ad.name)
    res.classify = getattr(ad, "violation_class", None)
    tag = ad.tag if hasattr(ad, "tag") else ad.name
    fam = ad.family(tier, seed)
    by_id = {i["id"]: i for i in fam}
    res.stats["instances"] = len(fam)
    fam_file = os.path.join(tlc.OUT, "fam_%s.json" % tag)
    tlc.dump_json(fam_file, fam)
    behaviours, sols = {}, []
    if "model" in stages:
        behaviours, sols = model_check(ad, fam_file, res, tag)
        res.samples += [{"inst_id": i, "feasible_solution_from_TLC": seq, "objective": obj}
                        for (i, seq, obj) in sols[:: max(1, len(sols) // 2)][:2]]
    # ---- real environment, exhaustive expansion, trace validation ----
    if "bfs" in stages:
        eps = driver.bfs_real(ad, fam, pad_steps=ad.pad_steps)
        res.stats["episodes"] = len(eps)
        res.stats["real_states"] = len({(e["inst"]["id"], tuple(e["a"][:k])) for e in eps
                                        for k in range(len(e["a"]) + 1)})
        traces = [_norm_pad(e, ad.eps(e["inst"])) for e in eps]
        fails, drifts, ended, states = validate_traces(ad, traces, tag)
        res.stats["trace_states"] += states
        res.stats["traces_validated"] += len(ended)
        if len(ended) != len(eps):
            raise tlc.TLCError("%s: %d of %d traces not consumed" % (tag, len(eps) - len(ended), len(eps)))
        for (k, mon, step) in fails:
            e = eps[k]
            if mon == "driver":
                raise tlc.TLCError("driver produced a non mask-confined episode")
            res.add(MON2PROP.get(mon) or ad.monitor_props.get(mon, "C08"), mon, e["inst"], e["a"],
                    "step %d end=%s reward=%s checker=%s pad=%s" % (step, e["end"], e["reward"], e["checker"], e["pad"]))
        for e in eps:
            if e["end"] == "inexact" or isinstance(e["reward"], dict):
                res.notes.append("inexact reward under exact embedding: inst %s %s" % (e["inst"]["id"], e["a"]))
        for (k, step) in drifts[:20]:
            res.drift.append({"kind": "trace", "inst": eps[k]["inst"]["id"], "actions": eps[k]["a"], "step": step})
        if len(drifts) > 20:
            res.drift.append({"kind": "trace", "more": len(drifts) - 20})
        if behaviours:
            real = {}
            for e in eps:
                if e["end"] == "done":
                    real.setdefault(e["inst"]["id"], set()).add(tuple(e["a"]))
            only_model = sum(len(behaviours.get(i, set()) - real.get(i, set())) for i in by_id)
            only_real = sum(len(real.get(i, set()) - behaviours.get(i, set())) for i in by_id)
            res.stats["behaviours_model"] = sum(len(v) for v in behaviours.values())
            res.stats["behaviours_real"] = sum(len(v) for v in real.values())
            if only_model or only_real:
                res.drift.append({"kind": "behaviour-sets", "only_model": only_model, "only_real": only_real})
        res.samples += [{"inst": {k: v for k, v in e["inst"].items() if k not in ("pts",)},
                         "actions": e["a"], "reward": e["reward"], "checker": e["checker"]}
                        for e in eps[:: max(1, len(eps) // 3)][:3]]
    if "batch" in stages and "bfs" in stages:
        batch_stage(ad, eps, tier, seed, res, tag)
    # ---- spec -> code: replay every feasible solution of the PROBLEM into the real env ----
    if "replay" in stages and sols:
        items = [(by_id[i], seq) for (i, seq, obj) in sols]
        rr = driver.replay_real(ad, items)
        res.stats["replayed"] += len(items)
        for (iid, seq, obj), r in zip(sols, rr):
            inst = by_id[iid]
            if r["bad_step"] is not None:
                res.add("C05", "hidden", inst, seq,
                        "feasible solution not reachable: step %d action %d not offered (mask %s)"
                        % (r["bad_step"], seq[r["bad_step"]], r["offered"]))
                continue
            if not r["done"]:
                res.add("C05", "not-finishable", inst, r["played"], "feasible solution played but episode not done")
                continue
            if isinstance(r["reward"], dict) or abs(r["reward"] - obj) > ad.eps(inst):
                res.add("C03", "replay-reward", inst, r["played"], "reward %s objective %s" % (r["reward"], obj))
            r0 = r.get("reward_on_reset_instance")
            if r0 is not None and (isinstance(r0, dict) or abs(r0 - obj) > ad.eps(inst)):
                res.add("C03", "reward-of-actions-on-the-reset-instance", inst, r["played"],
                        "get_reward(reset instance, actions) = %s, objective %s (get_reward(final state, actions) = %s)"
                        % (r0, obj, r["reward"]))
            if r["checker"].startswith("reject"):
                res.add("C06", "replay-checker", inst, r["played"], r["checker"])
    if "checker" in stages and ad.has_checker:
        cands = ad.checker_candidates(fam, sols, tier, seed)
        cl = classify(ad, fam_file, cands, tag)
        items = [(fam[c["inst"] - 1], c["seq"]) for c in cands]
        verdicts = driver.check_real(ad, items)
        res.stats["classified"] += len(cands)
        nf = 0
        for c, (feas, obj), v in zip(cands, cl, verdicts):
            nf += bool(feas)
            if feas and v.startswith("reject"):
                res.add("C06", "checker-rejects-feasible", fam[c["inst"] - 1], c["seq"], v)
            if not feas and v == "accept":
                res.add("C06", "checker-accepts-infeasible", fam[c["inst"] - 1], c["seq"], c.get("why", ""))
        res.stats["classified_feasible"] = nf
    return res
