"""Development helper:  /venv/bin/python -m harness.try_env harness.envs.cvrp:CVRP quick [stages]
Runs the whole per-environment pipeline for one adapter and prints everything."""
import importlib
import json
import os
import sys
import time
import warnings

warnings.filterwarnings("ignore")
ROOT = os.path.dirname(os.path.dirname(os.path.abspath(__file__)))
sys.path.insert(0, ROOT)
sys.path.insert(0, os.environ.get("VERIF_REPO", "/repo"))
import logging  # noqa: E402

logging.disable(logging.WARNING)
from harness import pipeline  # noqa: E402


def main():
    mod, cls = sys.argv[1].split(":")
    tier = sys.argv[2] if len(sys.argv) > 2 else "quick"
    stages = tuple(sys.argv[3].split(",")) if len(sys.argv) > 3 else ("model", "bfs", "batch", "replay", "checker")
    ad = getattr(importlib.import_module(mod), cls)()
    if not hasattr(ad, "tag"):
        ad.tag = ad.name
    import rl4co
    print("rl4co from", rl4co.__file__)
    t = time.time()
    r = pipeline.run_env(ad, tier, int(os.environ.get("VERIF_SEED", "0")), stages=stages)
    print("wall %.1fs" % (time.time() - t))
    print("stats", json.dumps(r.stats))
    print("coverage", json.dumps(r.coverage))
    print("notes", r.notes[:5])
    print("drift (%d)" % len(r.drift), json.dumps(r.drift[:5], default=str)[:1500])
    byc = {}
    for v in r.violations:
        byc.setdefault((v["property"], v["monitor"]), []).append(v)
    print("violations: %d in %d classes" % (len(r.violations), len(byc)))
    for k, vs in byc.items():
        print(" ", k, len(vs))
        for v in vs[:2]:
            print("    inst", json.dumps({a: b for a, b in v["inst"].items() if a not in ("pts",)}, default=str)[:400])
            print("    actions", v["actions"], "|", str(v["detail"])[:300])


if __name__ == "__main__":
    main()
