"""Evaluate seeded changes:  /venv/bin/python -m harness.seeded_eval <dir-with-seed-dirs> [name ...]

Each seed directory holds patch.diff, demo.py, meta.json (written by an independent sub-agent that saw only the
property text).  For each one, in a scratch worktree of /repo (never /repo itself):
  1. demo.py must pass on the unchanged checkout and fail with the patch (otherwise the seed is rejected);
  2. the quick (and, if that misses, the thorough) check of the property is run with VERIF_REPO pointing at the
     patched worktree; caught = exit 1 with a VIOLATION line;
the outcome is written to <seed>/result.json; kept seeds are copied to /verif/seeded/<name>/.
"""
import json
import os
import shutil
import subprocess
import sys
import time

ROOT = os.path.dirname(os.path.dirname(os.path.abspath(__file__)))
WT = os.environ.get("VERIF_SEED_WT", "/tmp/wt_seed_eval")


def sh(cmd, **kw):
    return subprocess.run(cmd, shell=True, capture_output=True, text=True, **kw)


def fresh_worktree():
    sh("git -C /repo worktree remove --force %s" % WT)
    shutil.rmtree(WT, ignore_errors=True)
    r = sh("git -C /repo worktree add --detach %s HEAD" % WT)
    if r.returncode != 0:
        raise RuntimeError(r.stderr)


def run_demo(seed_dir):
    env = dict(os.environ, PYTHONPATH=WT)
    r = sh("cd %s && timeout 900 /venv/bin/python %s %s" % (WT, os.path.join(seed_dir, "demo.py"), WT), env=env)
    return r.returncode, (r.stdout + r.stderr)[-600:]


TESTS = {"env": "tests/test_envs.py", "other": "tests/test_policy.py tests/test_utils.py tests/test_tasks.py"}
BASELINE_FAIL = ("test_eda", "[dpp]", "[mdpp]", "DPPEnv", "MDPPEnv")


def run_tests(pid, files=None):
    """the repository's own tests on the patched worktree: only the network-dependent ones may fail"""
    which = TESTS["env"] if pid in ("C01", "C02", "C03", "C04", "C05", "C06", "C07", "C08", "C18") else TESTS["other"]
    which = " ".join(f for f in which.split() if os.path.exists(os.path.join(WT, f)))
    r = sh("cd %s && OMP_NUM_THREADS=1 timeout 3000 /venv/bin/python -m pytest -q -p no:cacheprovider --timeout=900 %s 2>&1 | tail -40" % (WT, which))
    failed = [l for l in r.stdout.splitlines() if l.startswith("FAILED ") or l.startswith("ERROR tests")]
    new_fail = [l for l in failed if not any(b in l for b in BASELINE_FAIL)]
    return new_fail, r.stdout.splitlines()[-1:] 


def run_check(pid, tier, extra_env=None):
    env = dict(os.environ, VERIF_REPO=WT)
    env.update(extra_env or {})
    t = time.time()
    r = sh("cd %s && timeout 5400 bin/check %s --tier %s" % (ROOT, pid, tier), env=env)
    out = r.stdout + r.stderr
    lines = [l for l in out.splitlines() if l.startswith("VIOLATION") or l.startswith("  env=") or "MACHINERY" in l]
    return r.returncode, lines[:6], round(time.time() - t, 1)


def main():
    base = sys.argv[1]
    names = sys.argv[2:] or sorted(d for d in os.listdir(base) if os.path.exists(os.path.join(base, d, "patch.diff")))
    for name in names:
        sd = os.path.join(base, name)
        meta = json.load(open(os.path.join(sd, "meta.json")))
        pid = meta["property"]
        res = {"seed": name, "property": pid}
        fresh_worktree()
        rc0, out0 = run_demo(sd)
        ap = sh("git -C %s apply %s" % (WT, os.path.join(sd, "patch.diff")))
        if ap.returncode != 0:
            res["status"] = "patch does not apply: " + ap.stderr[-300:]
        else:
            rc1, out1 = run_demo(sd)
            res["demo_unchanged_rc"], res["demo_patched_rc"] = rc0, rc1
            res["demo_patched_output"] = out1
            if rc0 != 0 or rc1 == 0:
                res["status"] = "rejected: demo does not separate unchanged (rc %s) from patched (rc %s)" % (rc0, rc1)
            else:
                new_fail, tail = run_tests(pid)
                res["repo_tests"] = {"new_failures": new_fail, "summary": tail}
                if new_fail:
                    res["status"] = "rejected: the repository's tests fail with the change: %s" % new_fail[:3]
                    json.dump(res, open(os.path.join(sd, "result.json"), "w"), indent=1)
                    print(name, res["status"], flush=True)
                    continue
                checks = [pid] + [p for p in meta.get("also_check", [])]
                res["runs"] = []
                caught = False
                for tier in ("quick", "thorough"):
                    for p in checks:
                        rc, lines, wall = run_check(p, tier)
                        res["runs"].append({"check": p, "tier": tier, "rc": rc, "wall_s": wall, "lines": lines})
                        if rc == 1:
                            caught = True
                    if caught:
                        break
                res["status"] = "caught" if caught else "MISSED"
        json.dump(res, open(os.path.join(sd, "result.json"), "w"), indent=1)
        print(name, res["status"], [(r["check"], r["tier"], r["rc"], r["wall_s"]) for r in res.get("runs", [])], flush=True)
        if res["status"] in ("caught", "MISSED"):
            dst = os.path.join(ROOT, "seeded", name)
            shutil.rmtree(dst, ignore_errors=True)
            shutil.copytree(sd, dst)
    sh("git -C /repo worktree remove --force %s" % WT)
    shutil.rmtree(WT, ignore_errors=True)


if __name__ == "__main__":
    main()
