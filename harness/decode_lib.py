"""Shared machinery for C11 / C12 / C13: the table policy of spec/common/Decode.tla.tmpl as a stub
decoder plugged into the REAL ConstructivePolicy (public extension point: encoder/decoder arguments),
TLC runs of the Decode wrapper, and runners for every decode type."""
import math
import os
from fractions import Fraction

import torch
import torch.nn as nn

from . import tlc


def weight(iid, cur, a):
    return 1 + ((7 * iid + 3 * cur + 5 * a * a + a) % 6)


def make_policy(env_name):
    from rl4co.models.common.constructive.base import ConstructivePolicy, NoEncoder
    from rl4co.models.common.constructive.autoregressive.decoder import AutoregressiveDecoder

    class StubDecoder(AutoregressiveDecoder):
        """logit(a) = ln weight(instance id, current node, a) -- the policy table of Decode.tla"""

        def __init__(self):
            nn.Module.__init__(self)

        def forward(self, td, hidden=None, num_starts=0):
            mask = td["action_mask"]
            B, n = mask.shape
            iid = td["iid"].view(B, 1)
            cur = td["current_node"].view(B, 1)
            a = torch.arange(n).view(1, n)
            w = 1 + ((7 * iid + 3 * cur + 5 * a * a + a) % 6)
            return torch.log(w.float()), mask

        def pre_decoder_hook(self, td, env, hidden=None, num_starts=0):
            return td, env, hidden

    class StubEncoder(nn.Module):
        def forward(self, td):
            return None, None

    return ConstructivePolicy(encoder=StubEncoder(), decoder=StubDecoder(), env_name=env_name)


def reset_with_ids(ad, insts):
    env = ad.make_env(insts[0])
    td = env.reset(ad.to_td(insts))
    td["iid"] = torch.tensor([i["id"] for i in insts], dtype=torch.long)
    return env, td


def model_behaviours(ad, fam, mode, K, maxlen, tag):
    fam_file = os.path.join(tlc.OUT, "fam_decode_%s.json" % tag)
    tlc.dump_json(fam_file, fam)
    wd, root = tlc.prepare("decode_%s_%s" % (tag, mode), template="Decode", env_module=ad.module)
    tlc.write_cfg(wd, root, constants={"Mode": '"%s"' % mode, "K": str(K), "MaxLen": str(maxlen)},
                  invariants=["Aligned", "Positive", "ForcedIsOne", "ForcedFeasible", "EmitD"], init_next=("InitDD", "NextDD"))
    r = tlc.run(wd, root, env={"FAMILY_FILE": fam_file})
    table = {}
    for (_, iid, j, hist, probs, prod, rew) in r.tuples("D"):
        table[(iid, j, tuple(hist))] = ([Fraction(p[0], p[1]) for p in probs], rew)
    return table, r


def model_beams(ad, fam, K, maxlen, tag):
    fam_file = os.path.join(tlc.OUT, "fam_decode_%s.json" % tag)
    tlc.dump_json(fam_file, fam)
    wd, root = tlc.prepare("beam_%s" % tag, template="Decode", env_module=ad.module)
    tlc.write_cfg(wd, root, constants={"Mode": '"greedy"', "K": str(K), "MaxLen": str(maxlen)},
                  invariants=["BeamsComplete", "BeamsDistinct", "BeamCount", "EmitB"], init_next=("InitBB", "NextBB"))
    r = tlc.run(wd, root, env={"FAMILY_FILE": fam_file})
    out = {}
    for (_, iid, beams) in r.tuples("M"):
        bs = {tuple(b[0]): ([Fraction(p[0], p[1]) for p in b[1]], b[2]) for b in beams}
        out.setdefault(iid, []).append(bs)
    return out, r


def run_policy(policy, env, td, **kw):
    policy.eval()
    with torch.no_grad():
        return policy(td.clone(), env, return_actions=True, return_sum_log_likelihood=False, **kw)


def strip_pad(seq, lps, done_len):
    return seq[:done_len], lps[:done_len]


def logp_close(lp, frac, tol=2e-5):
    return abs(float(lp) - math.log(float(frac))) <= tol
