"""Regenerates the seeded-changes table of DESIGN.md from seeded/*/meta.json + result.json + NOTES.json."""
import json
import os
import re

ROOT = os.path.dirname(os.path.dirname(os.path.abspath(__file__)))
MARK = "### Seeded changes by independent sub-agents"


def main():
    sd = os.path.join(ROOT, "seeded")
    notes = {}
    if os.path.exists(os.path.join(sd, "NOTES.json")):
        notes = json.load(open(os.path.join(sd, "NOTES.json")))
    rows = []
    for name in sorted(os.listdir(sd)):
        d = os.path.join(sd, name)
        if not os.path.exists(os.path.join(d, "meta.json")):
            continue
        meta = json.load(open(os.path.join(d, "meta.json")))
        res = json.load(open(os.path.join(d, "result.json"))) if os.path.exists(os.path.join(d, "result.json")) else {}
        runs = res.get("runs", [])
        hit = next((r for r in runs if r["rc"] == 1), None)
        if hit:
            mon = ""
            for l in hit["lines"]:
                m = re.search(r"env=(\S+) monitor=(\S+)", l)
                if m:
                    mon = "`%s / %s`" % (m.group(1), m.group(2))
                    break
            caught = "%s %s: %s" % (hit["check"], hit["tier"], mon)
        else:
            caught = res.get("status", "not evaluated")
        if name in notes:
            caught += " — " + notes[name]
        summ = " ".join(meta.get("summary", "").split())
        summ = summ[:230] + ("…" if len(summ) > 230 else "")
        rows.append("| %s | %s | %s |" % (name, summ.replace("|", "/"), caught.replace("|", "/")))
    table = ["| seed | change (as described by its author) | caught by |", "|---|---|---|"] + rows
    p = os.path.join(ROOT, "DESIGN.md")
    s = open(p).read()
    i = s.index(MARK)
    head = s[:i]
    intro = ("%s (property text + own worktree only)\n\nEach seed lives in `seeded/<id>/` (patch.diff, demo.py, meta.json, result.json written by "
             "`harness/seeded_eval.py`, which applies the patch in a scratch worktree, confirms that demo.py separates patched from unchanged code and that the "
             "repository's own tests still pass, then runs the registered quick check — and the thorough one if quick misses — with `VERIF_REPO` pointing at the "
             "patched checkout). Notes after a dash say what was strengthened when a seed was first missed (`seeded/NOTES.json`).\n\n" % MARK)
    open(p, "w").write(head + intro + "\n".join(table) + "\n")
    print(len(rows), "seeds")


if __name__ == "__main__":
    main()
