"""DPP / MDPP (decap placement, rl4co.envs.eda).

The environments need measured PDN data (.npy) that cannot be downloaded here, so this module
writes a small deterministic SYNTHETIC data set under /verif/out/dpp_data/ in the format
DPPGenerator._load_dpp_data expects:
    chip  complex64 [num_freq, size^2, size^2]   (symmetric, diagonally dominant -> invertible)
    decap complex64 [num_freq, 1, 1]             freq float32 [num_freq]
for size 3 and 4, and instantiates the generators with data_dir pointing there.

CLAIMED: quota / distinctness / keep-out / probe / done flag / step counter (C08), episode
termination and step bound (C02), batch independence of masks and done flags (C04).
NOT CLAIMED: the reward.  The impedance computation has no independent oracle, so get_reward
is overridden to return zeros and the specification's Objective is 0 (C03 is not in `properties`).

Adapters
  DPP    DPPEnv, quota through generator_params["max_decaps"].
  MDPP   MDPPEnv constructed the public way, quota through generator_params["max_decaps"].
         MDPPEnv.__init__ first lets DPPEnv.__init__ build a default DPPGenerator() (default
         data_dir "data/dpp/", relative to the cwd; it would try to DOWNLOAD), so make_env
         temporarily chdir()s into /verif/out/dpp_data/mdpp_cwd where synthetic files with the
         default names exist.  Since the fix "MDPP environment uses the quota and chip data of
         its own generator" the environment then takes max_decaps / size / raw_pdn / decap / freq
         from its own MDPPGenerator.  (FORMER behaviour: it kept the default generator's values,
         max_decaps = 20 whatever generator_params said: episodes did not finish at the quota and
         ran into dead ends.  A former adapter MDPPQ emulated the fix; it is gone.)
The quota the environment object really works with (inst["envK"], used by PART 2 of DPP.tla only)
is READ from the constructed object, so the model follows the code; the monitors (PART 1) always
use the requested quota K, so a regression of that fix is reported as C08 / C02 violations.
"""
import os

import numpy as np
import torch
from tensordict import TensorDict

from .. import driver
from .base import Adapter, with_ids

DATA = "/verif/out/dpp_data"
MDPP_CWD = os.path.join(DATA, "mdpp_cwd")
DECAP, FREQ = "syn_decap.npy", "syn_freq.npy"
NFREQ = 3


def _save(path, arr):
    if os.path.isfile(path):
        return
    os.makedirs(os.path.dirname(path), exist_ok=True)
    tmp = "%s.%d.tmp" % (path, os.getpid())
    with open(tmp, "wb") as f:
        np.save(f, arr)
    os.replace(tmp, path)        # atomic: several checks may start at the same time


def _pdn(size, nf):
    """deterministic symmetric, diagonally dominant complex impedance matrices"""
    n = size * size
    k = np.arange(n)
    base = 1.0 / (1.0 + np.abs(k[:, None] - k[None, :]))           # decays with index distance
    z = np.stack([(f + 1) * base * (1.0 + 0.25j * (f + 1)) for f in range(nf)])
    z = z + n * np.eye(n)[None]
    return z.astype(np.complex64)


def ensure_data():
    for size in (3, 4):
        _save(os.path.join(DATA, "syn%d_chip.npy" % size), _pdn(size, NFREQ))
    dec = (np.arange(1, NFREQ + 1) * (0.5 - 0.25j)).reshape(NFREQ, 1, 1).astype(np.complex64)
    frq = np.linspace(1e8, 2e9, NFREQ).astype(np.float32)
    _save(os.path.join(DATA, DECAP), dec)
    _save(os.path.join(DATA, FREQ), frq)
    # default file names of DPPGenerator, for the throw-away generator MDPPEnv.__init__ builds
    d = os.path.join(MDPP_CWD, "data", "dpp")
    _save(os.path.join(d, "10x10_pkg_chip.npy"), _pdn(10, 2))
    _save(os.path.join(d, "01nF_decap.npy"), dec[:2])
    _save(os.path.join(d, "freq_201.npy"), frq[:2])


# (size, probes, keepout, quotas, probes_in_given_mask)
QUICK = [
    (3, [4], [], (2,), False),
    (3, [0], [1, 2, 3], (1, 3), False),
    (3, [8], [0, 1, 2, 3, 4], (3,), False),       # exactly K cells are allowed
    (3, [4], [0, 8], (1,), False),
]
MORE = [
    (3, [2], [4], (2, 3), False),
    (3, [7], [0, 1, 3, 4, 6, 8], (2,), False),     # 2 allowed cells, K = 2
    (4, [5], [0, 3, 7, 10, 12, 15], (3, 4), False),
    (4, [15], [0, 1, 2, 3, 4, 5, 6, 7, 8, 9], (5,), False),   # 5 allowed cells, K = 5
    (4, [0], [], (3,), False),
]
MQUICK = [
    (3, [4, 0], [], (2,), False),
    (3, [0, 8], [1, 2, 3], (1, 3), True),          # given mask still has the probe bits set
    (3, [8], [0, 1, 2, 3, 4], (3,), True),
    (3, [1, 4, 7], [0, 8], (2,), False),
]
MMORE = [
    (3, [2, 6], [4], (2, 3), True),
    (3, [7, 5], [0, 1, 3, 4], (3,), False),        # 3 allowed cells, K = 3
    (4, [5, 6], [0, 3, 7, 10, 12, 15], (3, 4), True),
    (4, [15, 14, 13], [0, 1, 2, 3, 4, 5, 6, 7], (5,), False),  # 5 allowed cells, K = 5
    (4, [0, 15], [], (3,), True),
]


class DPP(Adapter):
    name = "dpp"
    module = "DPP"
    variant = "dpp"
    has_checker = False
    pad_steps = 0
    properties = ("C02", "C04", "C08")
    monitor_props = {"Step": "C08", "Final": "C08"}
    layouts = {"quick": QUICK, "thorough": QUICK + MORE}

    def family(self, tier, seed=0):
        insts = []
        seen = {}
        for (size, probes, keepout, quotas, probes_in_mask) in self.layouts[tier]:
            n = size * size
            avail0 = [c for c in range(n) if c not in keepout and (probes_in_mask or c not in probes)]
            for k in quotas:
                inst = {"N": n, "size": size, "K": k, "variant": self.variant, "probes": list(probes),
                        "keepout": list(keepout), "avail0": avail0, "grid": 1}
                # envK (PART 2 only): the quota the environment OBJECT built for generator quota K
                # works with, read from that object (DPP.tla QuotaOfEnv); PART 1 / monitors use K
                if (size, k) not in seen:
                    seen[(size, k)] = int(self.make_env(inst).max_decaps)
                inst["envK"] = seen[(size, k)]
                insts.append(inst)
        return with_ids(insts)

    def group_key(self, inst):
        return (inst["N"], inst["K"])       # max_decaps is a property of the environment object

    def actions(self, inst):
        return list(range(inst["N"]))

    def step_cap(self, inst):
        return inst["K"] + 2

    def close_steps(self, inst):
        return 0

    def gen_params(self, inst):
        return {"data_dir": DATA, "chip_file": "syn%d_chip.npy" % inst["size"],
                "decap_file": DECAP, "freq_file": FREQ, "max_decaps": inst["K"],
                "num_keepout_min": 1, "num_keepout_max": inst["N"]}

    def make_env(self, inst):
        from rl4co.envs.eda.dpp.env import DPPEnv

        ensure_data()
        torch.set_num_threads(1)
        return DPPEnv(generator_params=self.gen_params(inst))

    def locs(self, size):
        # as DPPGenerator._generate
        g = torch.stack(torch.meshgrid(torch.arange(size), torch.arange(size), indexing="ij"), dim=-1)
        return g.reshape(-1, 2) / torch.tensor([size, size], dtype=torch.float)

    def probe_tensor(self, insts):
        return torch.tensor([[i["probes"][0]] for i in insts], dtype=torch.long)      # [B, 1]

    def to_td(self, insts):
        n = insts[0]["N"]
        am = torch.zeros(len(insts), n, dtype=torch.bool)
        for r, i in enumerate(insts):
            am[r, i["avail0"]] = True
        return TensorDict({"locs": self.locs(insts[0]["size"])[None].expand(len(insts), -1, -1).clone(),
                           "probe": self.probe_tensor(insts), "action_mask": am},
                          batch_size=[len(insts)])

    def project(self, td, r, inst):
        return {"i": int(td["i"].reshape(td.shape[0], -1)[r, 0]),
                "done": bool(driver.done_of(td)[r]),
                "keepout": [int(x) for x in td["keepout"][r].nonzero().flatten().tolist()]}

    def get_reward(self, env, td, actions):
        # reward NOT claimed (no independent oracle for the impedance model): see module docstring
        return torch.zeros(td.shape[0])


class MDPP(DPP):
    name = "mdpp"
    variant = "mdpp"
    layouts = {"quick": MQUICK, "thorough": MQUICK + MMORE}

    def gen_params(self, inst):
        p = DPP.gen_params(self, inst)
        p.update({"num_probes_min": 1, "num_probes_max": 3})
        return p

    def make_env(self, inst):
        from rl4co.envs.eda.mdpp.env import MDPPEnv

        ensure_data()
        torch.set_num_threads(1)
        cwd = os.getcwd()
        os.chdir(MDPP_CWD)          # DPPEnv.__init__ (called by MDPPEnv) loads "data/dpp/..." from the cwd
        try:
            return MDPPEnv(generator_params=self.gen_params(inst))
        finally:
            os.chdir(cwd)

    def probe_tensor(self, insts):
        p = torch.zeros(len(insts), insts[0]["N"], dtype=torch.bool)                  # [B, N]
        for r, i in enumerate(insts):
            p[r, i["probes"]] = True
        return p


class DPPGen(DPP):
    """GENERATOR-FED family: the instances are drawn from the real DPPGenerator (synthetic chip data) instead of being
    written down by the harness, so the environment model's input contract InstanceOK (DPP: the generator itself clears the
    probe bit of the mask it hands over) is checked on what the generator actually emits, and the recorded episodes are
    judged against the cells the problem definition forbids: the probing port td["probe"] and the keep-out cells."""
    name = tag = "dpp_gen"
    properties = ("C08",)
    draws = {"quick": [(3, 2, 24)], "thorough": [(3, 2, 48), (3, 3, 48), (4, 3, 32)]}      # (size, quota, batch)
    keepout_range = (1, 3)

    def gen_params(self, inst):
        p = DPP.gen_params(self, inst)
        p.update({"num_keepout_min": self.keepout_range[0], "num_keepout_max": self.keepout_range[1]})
        return p

    def family(self, tier, seed=0):
        insts, seen = [], set()
        for (size, k, b) in self.draws[tier]:
            n = size * size
            proto = {"N": n, "size": size, "K": k, "variant": self.variant}
            env = self.make_env(proto)
            with torch.random.fork_rng():
                torch.manual_seed(4100 + 17 * seed + size + 100 * k)
                td = env.generator(batch_size=[b])
            for r in range(b):
                if self.variant == "dpp":
                    probes = [int(x) for x in td["probe"][r].reshape(-1).tolist()]
                else:
                    probes = [int(x) for x in td["probe"][r].reshape(-1).nonzero().flatten().tolist()]
                avail0 = [int(x) for x in td["action_mask"][r].reshape(-1).nonzero().flatten().tolist()]
                keepout = [c for c in range(n) if c not in avail0 and c not in probes]
                key = (size, k, tuple(probes), tuple(avail0))
                if key in seen:
                    continue
                seen.add(key)
                insts.append(dict(proto, probes=probes, keepout=keepout, avail0=avail0, grid=1, envK=int(env.max_decaps)))
        return with_ids(insts)


class MDPPGen(DPPGen, MDPP):
    name = tag = "mdpp_gen"
    variant = "mdpp"

    def gen_params(self, inst):
        p = MDPP.gen_params(self, inst)
        p.update({"num_keepout_min": self.keepout_range[0], "num_keepout_max": self.keepout_range[1]})
        return p

    make_env = MDPP.make_env
    probe_tensor = MDPP.probe_tensor
