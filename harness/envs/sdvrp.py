import itertools

import torch
from tensordict import TensorDict

from .. import embed
from .base import Adapter, points_for, with_ids

CAP_UNIT = 8  # demand k -> k/8, vehicle capacity cap/8 (dyadic: float arithmetic is exact)


class SDVRP(Adapter):
    reward_from_actions = True
    """Split-delivery VRP.  inst: N, D, dem[1..N], cap (+ pts, grid).  Families: all demand
    vectors over a small value set x several capacities, so that routes fill the vehicle
    exactly (used == cap), a customer is split over two or three loads (dem > remaining, and
    dem > cap), and the whole demand fits one load (the episode never visits the depot)."""
    name = "sdvrp"
    module = "SDVRP"

    def family(self, tier, seed=0):
        insts = []
        if tier == "quick":
            spec = [(3, (1, 2, 3), (3, 4), [(0, 0)]),
                    (2, (1, 3, 5), (3, 4), [(1, 2)])]
        else:
            spec = [(3, (1, 2, 3), (3, 4), [(0, 0)]),
                    (3, (1, 2, 3, 4), (4, 5, 6), [(1, 2)]),
                    (3, (2, 3, 5), (5, 6), [(3, 1)]),
                    (4, (1, 2, 3), (6,), [(2, 3)]),
                    (4, (1, 2), (4,), [(0, 1)]),
                    (2, (1, 4, 7), (3, 4), [(3, 1)]),      # one customer split over 2-3 loads
                    (2, (2, 5, 9), (4,), [(1, 0)])]
        # Sizes are chosen so that even a mask that wrongly keeps offering useless visits (every
        # episode then runs into step_cap) keeps the frontier of the exhaustive expansion below
        # driver.MAX_ROWS: the defect is then REPORTED (C02) instead of aborting the run.
        for (N, dems, caps, tmpl) in spec:
            for (w, rot) in tmpl:
                pts, g, D = points_for(N + 1, w, rot)
                for cap in caps:
                    for dem in itertools.product(dems, repeat=N):
                        insts.append({"N": N, "D": D, "dem": list(dem), "cap": cap,
                                      "pts": pts, "grid": g})
        return with_ids(insts)

    def group_key(self, inst):
        # number of full loads in the key: the expansion depth of a group is the largest step_cap
        # in it, so instances with few loads are not dragged to the depth of those with many
        # (N >= 4: the total demand itself, to keep the groups -- and a runaway frontier -- small)
        total = sum(inst["dem"])
        return (inst["N"], inst["cap"], total if inst["N"] >= 4 else total // inst["cap"])

    def step_cap(self, inst):
        """depth at which the exhaustive expansion gives up (such an episode fails C02).  One more
        than the longest possible episode: every visit either completes a customer (N of them)
        or fills the vehicle (at most floor(total / cap) of them), every route but the last is
        followed by one depot step, so length <= 2 * (N + total // cap) - 1 (<= StepBound).
        Kept tight because a mask that offers useless visits makes the frontier explode."""
        return 2 * (inst["N"] + sum(inst["dem"]) // inst["cap"])

    def make_env(self, inst):
        from rl4co.envs import SDVRPEnv

        return SDVRPEnv(generator_params={"num_loc": inst["N"],
                                          "vehicle_capacity": inst["cap"] / CAP_UNIT},
                        check_solution=False)

    def to_td(self, insts):
        locs = torch.stack([embed.locs_tensor(i["pts"], i["grid"]) for i in insts])
        dem = torch.tensor([i["dem"] for i in insts], dtype=torch.float32) / CAP_UNIT
        return TensorDict({"depot": locs[:, 0], "locs": locs[:, 1:], "demand": dem},
                          batch_size=[len(insts)])

    def pad_choice(self, mask):
        """adversarial padding: the LAST action the mask offers to a finished row"""
        n = mask.shape[-1]
        return (n - 1) - mask.flip(-1).int().argmax(-1)

    def project(self, td, r, inst):
        return {"cur": int(td["current_node"][r, 0]),
                "used": _int(float(td["used_capacity"][r, 0]) * CAP_UNIT),
                "rem": [_int(float(x) * CAP_UNIT) for x in td["demand_with_depot"][r, 1:]],
                "rem0": _int(float(td["demand_with_depot"][r, 0]) * CAP_UNIT)}

    def checker_candidates(self, fam, sols, tier, seed=0):
        """The environment documents depot -> depot while demand is open as outside the solution
        format (checker: "Cannot visit depot twice if any nonzero demand"; the mask never
        offers it).  The problem definition has no opinion on such idle moves (an empty route
        is no route), so they are not used to judge the checker: candidates with two adjacent
        depot entries that are followed by a customer are left out."""
        def idle(seq):
            last_nz = max([k for k, a in enumerate(seq) if a != 0], default=-1)
            return any(seq[k] == 0 and seq[k + 1] == 0 for k in range(last_nz))

        return [c for c in super().checker_candidates(fam, sols, tier, seed) if not idle(c["seq"])]


def _int(v):
    iv = int(round(v))
    return iv if abs(v - iv) < 1e-4 else int(round(v * 1000)) + 10 ** 8   # inexact: cannot match
