"""CVRPTW adapter.

Exact embedding: coordinates = lattice point / grid (all pairwise distances are
integers in grid units), time windows / durations / horizon = integer / grid
(float32, the representation CVRPTWGenerator(scale=True) produces), demands and
capacity in eighths.  Every sum / max / comparison the environment performs is
then exact, so the integer specification and the real code agree bit for bit.
"""
import itertools
import random

import torch
from tensordict import TensorDict

from .. import embed
from .base import Adapter, points_for, with_ids

CAP_UNIT = 8


def _window_options(D, dur, j, N):
    """(tws, twe) choices for customer j (1-based) built from the distances so that
    interesting arrival times hit a window end EXACTLY:
      direct   only the direct drive depot -> j arrives exactly at twe
      via-min  arriving through the nearest predecessor is exactly at twe
      via-max  arriving through the farthest predecessor is exactly at twe
      late     the window opens after the direct arrival (waiting is needed)
      wide     None (filled in once the horizon is known)"""
    a0 = D[0][j]
    via = sorted(D[0][i] + dur[i - 1] + D[i][j] for i in range(1, N + 1) if i != j)
    opts = [("direct", a0 - 1, a0)]
    if via:
        opts.append(("viamin", 0, via[0]))
        opts.append(("viamax", max(0, via[-1] - 2), via[-1]))
    opts.append(("late", a0 + 3, a0 + 5))
    opts.append(("wide", None, None))
    return opts


def _build(N, pts, g, D, dem, cap, dur, choice, slack):
    far = max(D[0][1:N + 1])
    hbase = 2 * far + sum(dur) + sum(sorted(max(r) for r in D)[:2])
    tws, twe, kinds = [], [], []
    for j in range(1, N + 1):
        kind, lo, hi = _window_options(D, dur, j, N)[choice[j - 1]]
        if hi is None:
            lo, hi = 0, hbase - dur[j - 1] - D[j][0]      # latest start gets home exactly at hbase
        tws.append(lo)
        twe.append(hi)
        kinds.append(kind)
    H = max([hbase] + [twe[j] + dur[j] + D[j + 1][0] for j in range(N)]) + slack
    inst = {"N": N, "D": D, "dem": list(dem), "cap": cap, "tws": tws, "twe": twe,
            "dur": list(dur), "H": H, "pts": pts, "grid": g, "kinds": "/".join(kinds)}
    ok = all(0 <= tws[j] < twe[j] and D[0][j + 1] <= twe[j]
             and twe[j] + dur[j] + D[j + 1][0] <= H for j in range(N))
    return inst if ok else None


class CVRPTW(Adapter):
    reward_from_actions = True
    name = "cvrptw"
    module = "CVRPTW"
    properties = ("C01", "C02", "C03", "C04", "C05", "C06")

    def family(self, tier, seed=0):
        rnd = random.Random(1000 + seed)
        insts, seen = [], set()

        def add(i):
            if i is None:
                return
            k = (i["N"], str(i["D"]), tuple(i["dem"]), i["cap"], tuple(i["tws"]), tuple(i["twe"]),
                 tuple(i["dur"]), i["H"])
            if k not in seen:
                seen.add(k)
                insts.append(i)

        if tier == "quick":
            plan = [(3, [(0, 0), (1, 2)], [(0, 0, 0), (2, 0, 1)], [((1, 1, 2), 2), ((1, 2, 1), 4)], 7)]
        else:
            plan = [(3, [(0, 0), (1, 2), (2, 1)], [(0, 0, 0), (2, 0, 1), (1, 3, 0)],
                     [((1, 1, 2), 2), ((1, 2, 1), 4), ((2, 1, 1), 3)], 12),
                    (4, [(0, 0), (1, 1), (3, 2)], [(0, 0, 0, 0), (1, 0, 2, 1)],
                     [((1, 1, 2, 1), 3), ((2, 1, 1, 2), 4)], 6)]
        for (N, tmpl, durs, loads, per) in plan:
            nopt = 5
            allc = list(itertools.product(range(nopt), repeat=N))
            for (w, rot) in tmpl:
                pts, g, D = points_for(N + 1, w, rot)
                for dur in durs:
                    for (dem, cap) in loads:
                        # systematic: the same kind of window everywhere, then a seeded sample
                        choices = [tuple([c] * N) for c in range(nopt)]
                        choices += rnd.sample(allc, min(per, len(allc)))
                        for n, ch in enumerate(choices):
                            add(_build(N, pts, g, D, dem, cap, dur, ch, slack=(n % 3 == 2) * 3))
        return with_ids(insts)

    def group_key(self, inst):
        return (inst["N"], inst["cap"])

    def make_env(self, inst):
        from rl4co.envs import CVRPTWEnv

        return CVRPTWEnv(generator_params={"num_loc": inst["N"],
                                           "vehicle_capacity": inst["cap"] / CAP_UNIT},
                         check_solution=False)

    def to_td(self, insts):
        locs = torch.stack([embed.locs_tensor(i["pts"], i["grid"]) for i in insts])
        dem = torch.tensor([i["dem"] for i in insts], dtype=torch.float32) / CAP_UNIT
        g = torch.tensor([float(i["grid"]) for i in insts])
        dur = torch.tensor([[0] + i["dur"] for i in insts], dtype=torch.float32) / g[:, None]
        tw = torch.tensor([[[0, i["H"]]] + [[a, b] for a, b in zip(i["tws"], i["twe"])] for i in insts],
                          dtype=torch.float32) / g[:, None, None]
        return TensorDict({"depot": locs[:, 0], "locs": locs[:, 1:], "demand": dem,
                           "durations": dur, "time_windows": tw}, batch_size=[len(insts)])

    def project(self, td, r, inst):
        t = float(td["current_time"][r, 0]) * inst["grid"]
        return {"cur": int(td["current_node"][r, 0]),
                "used": int(round(float(td["used_capacity"][r, 0]) * CAP_UNIT)),
                "visited": [int(i) for i in td["visited"][r].nonzero().flatten().tolist()],
                "time": int(round(t)) if abs(t - round(t)) < 1e-3 else -1}

    # ---- checker: every row alone (or with rows of equal horizon) AND behind a well-formed batch-mate ----
    KEYS = ("locs", "demand", "vehicle_capacity", "time_windows", "durations")

    def check(self, env, td, actions):
        if td.shape[0] != 1:
            # fast path for whole batches.  The checker compares every row with the depot closing
            # time of row 0, so rows are checked together only with rows of the same horizon (then
            # the batch verdict is exactly the conjunction of the row verdicts) ...
            h = td["time_windows"][:, 0, 1]
            for v in h.unique():
                idx = (h == v).nonzero().flatten()
                env.check_solution_validity(td[idx], actions[idx])
            for r in range(td.shape[0]):            # ... and every row once more behind its mate
                self._behind_mate(env, td[r:r + 1], actions[r:r + 1])
            return
        env.check_solution_validity(td, actions)
        self._behind_mate(env, td, actions)

    def _behind_mate(self, env, td, actions):
        """the verdict must not depend on the batch-mates (C06 for every instance of a batch):
        the accepted row is checked again as row 1 of a two-row batch whose row 0 is a
        well-formed instance (accepted on its own) with an earlier depot closing time."""
        row = TensorDict({k: td[k].clone() for k in self.KEYS}, batch_size=[1])
        key = tuple(row[k].numpy().tobytes() for k in self.KEYS) + (tuple(actions[0].tolist()),)
        cache = self.__dict__.setdefault("_mate_cache", {})
        if key not in cache:
            cache[key] = self._behind_mate_uncached(env, row, actions)
        if cache[key] is not None:
            raise AssertionError(cache[key])

    def _behind_mate_uncached(self, env, row, actions):
        mate = self._mate(row, actions)
        if mate is None:
            return None
        try:
            env.check_solution_validity(mate, actions)
        except Exception:
            return None                 # the mate must be fine on its own, else no statement
        both = torch.cat([mate, row], 0)
        try:
            env.check_solution_validity(both, torch.cat([actions, actions], 0))
        except Exception as e:
            return ("only when batched behind a mate with an earlier depot closing time: "
                    + str(e)[:60])
        return None

    def checker_candidates(self, fam, sols, tier, seed=0):
        """the CVRPTW checker is a Python loop over the steps (about 1 ms per call): keep every
        feasible candidate and a seeded sample of the corruptions"""
        cands = super().checker_candidates(fam, sols, tier, seed)
        cap = 4000 if tier == "quick" else 30000
        if len(cands) <= cap:
            return cands
        keep = [c for c in cands if c["why"] == "feasible"]
        rest = [c for c in cands if c["why"] != "feasible"]
        random.Random(seed).shuffle(rest)
        return keep + rest[: max(0, cap - len(keep))]

    @staticmethod
    def _mate(row, actions):
        """same places, same demands, same action sequence; no service times, windows
        [0, Hm - dist(j, depot)] and depot closing time Hm = the longest route of the action
        sequence (pure driving).  A well-formed instance (it satisfies the generator's
        guarantees) for which the same action sequence is on time whenever it is load-feasible."""
        locs = row["locs"][0]
        d0 = (locs - locs[0:1]).norm(p=2, dim=-1)
        seq = [0] + [int(a) for a in actions[0].tolist()] + [0]
        hm, cur = 0.0, 0.0
        for a, b in zip(seq[:-1], seq[1:]):
            cur += float((locs[a] - locs[b]).norm(p=2))
            if b == 0:
                hm, cur = max(hm, cur), 0.0
        if hm <= float(d0.max()):
            return None
        need = (row["time_windows"][0, :, 0] + d0 + row["durations"][0]).max()
        if float(need) <= hm:
            return None                 # the mate's horizon cannot matter for this row
        mate = row.clone()
        tw = torch.stack([torch.zeros_like(d0), hm - d0], -1)
        tw[0, 1] = hm
        mate["time_windows"] = tw[None].to(row["time_windows"].dtype)
        mate["durations"] = torch.zeros_like(row["durations"])
        return mate
