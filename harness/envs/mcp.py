"""MCP (maximum coverage, rl4co.envs.graph.mcp).

Instances: N sets over items 1..M with integer weights, membership rows padded with zeros
(zeros also INSIDE a row, as the generator's remove_repeat leaves them), quota K
(`n_sets_to_choose`, a PER-ROW [B,1] float tensor in the generator format).  Rewards are
integer-valued floats (scale 1), so everything is exact.

One adapter for all quotas 1..N, pad_steps = 2.  Since the fix "FLP/MCP instances that reached
their quota ignore further (padding) selections" a finished row accepts any action and keeps its
selection; `done` is one flag per row ([B]).
(FORMER behaviour: action_mask = ~chosen also for finished rows, every padding step added a set
and raised the reward of the finished row whenever quotas differed inside a batch; `done` was a
[B,B] tensor.  M_PadC04 and the batch stage keep watching this: rows with DIFFERENT quotas share
every batch.  There used to be a second adapter MCPFull for K >= N-1.)
"""
import random

import torch
from tensordict import TensorDict

from .. import driver
from .base import Adapter, with_ids
from .flp import exact_int

HAND = [
    # interior / leading zeros, overlapping sets, an item (5) that is in one set only
    {"N": 4, "M": 5, "mem": [[1, 2, 0], [2, 3, 0], [4, 0, 0], [0, 5, 1]], "w": [1, 2, 3, 4, 5]},
    # identical sets, an empty set, an item (5) in no set, a zero-weight item
    {"N": 4, "M": 5, "mem": [[1, 2, 3], [3, 2, 1], [0, 0, 0], [4, 0, 0]], "w": [3, 0, 4, 1, 5]},
    # nested sets, ties in value
    {"N": 5, "M": 6, "mem": [[1, 0, 0, 0], [1, 2, 0, 0], [1, 2, 3, 0], [6, 5, 4, 3], [0, 0, 4, 5]],
     "w": [2, 2, 2, 2, 2, 2]},
    {"N": 3, "M": 4, "mem": [[1, 2], [2, 3], [4, 0]], "w": [1, 2, 3, 4]},
]


def random_inst(rnd, n, m, width):
    mem = []
    for _ in range(n):
        size = rnd.randint(0, width)
        row = [rnd.randint(1, m) for _ in range(size)] + [0] * (width - size)
        seen = set()
        for k, x in enumerate(row):          # like remove_repeat: later repeats become 0 in place
            if x in seen:
                row[k] = 0
            seen.add(x)
        mem.append(row)
    return {"N": n, "M": m, "mem": mem, "w": [rnd.randint(1, 9) for _ in range(m)]}


class MCP(Adapter):
    name = "mcp"
    module = "MCP"
    has_checker = False
    pad_steps = 2
    properties = ("C02", "C03", "C04", "C05", "C08")
    monitor_props = {"Step": "C08", "Final": "C08"}

    def quotas(self, n, tier):
        if tier == "quick" and n >= 5:
            return (1, 2, 3)
        return range(1, min(n, 5) + 1)          # every quota up to K = N (N = 7: K <= 5)

    def bases(self, tier, seed):
        rnd = random.Random(1000 + seed)
        out = [dict(b) for b in HAND]
        if tier == "quick":
            return out + [random_inst(rnd, 5, 6, 3)]
        for (n, m, width, cnt) in ((4, 5, 3, 4), (5, 6, 3, 4), (5, 7, 4, 3), (6, 7, 3, 3), (7, 8, 3, 1)):
            out += [random_inst(rnd, n, m, width) for _ in range(cnt)]
        return out

    def family(self, tier, seed=0):
        insts = []
        for b in self.bases(tier, seed):
            for k in self.quotas(b["N"], tier):
                insts.append(dict(b, K=k, grid=1))
        return with_ids(insts)

    def group_key(self, inst):
        # tensor shapes; quotas are mixed (K = N rows apart, as in flp.py: they are the slowest rows)
        return (inst["N"], inst["M"], len(inst["mem"][0]), inst["K"] == inst["N"])

    def actions(self, inst):
        return list(range(inst["N"]))

    def step_cap(self, inst):
        return inst["K"] + 2

    def close_steps(self, inst):
        return 0

    def make_env(self, inst):
        from rl4co.envs.graph import MCPEnv

        torch.set_num_threads(1)          # tiny tensors: intra-op threads only cost
        width = len(inst["mem"][0])
        return MCPEnv(generator_params={"num_items": inst["M"], "num_sets": inst["N"],
                                        "min_size": 1, "max_size": width,
                                        "n_sets_to_choose": inst["K"]}, check_solution=False)

    def to_td(self, insts):
        # generator format: membership float [B, n_sets, max_size] (0 = padding),
        # weights float [B, n_items], n_sets_to_choose float [B, 1]
        return TensorDict({"membership": torch.tensor([i["mem"] for i in insts], dtype=torch.float32),
                           "weights": torch.tensor([i["w"] for i in insts], dtype=torch.float32),
                           "n_sets_to_choose": torch.tensor([[float(i["K"])] for i in insts])},
                          batch_size=[len(insts)])

    def project(self, td, r, inst):
        return {"i": int(td["i"].reshape(td.shape[0], -1)[r, 0]),
                "done": bool(driver.done_of(td)[r]),
                "chosen": [int(x) for x in td["chosen"][r].nonzero().flatten().tolist()],
                "w": [exact_int(x, 1) for x in td["weights"][r].tolist()],
                "mem": [[exact_int(x, 1) for x in row] for row in td["membership"][r].tolist()]}
