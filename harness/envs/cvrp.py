import itertools

import torch
from tensordict import TensorDict

from .. import embed
from .base import Adapter, points_for, with_ids

CAP_UNIT = 8  # demand k -> k/8, vehicle capacity cap/8 (dyadic: float arithmetic is exact)


class CVRP(Adapter):
    reward_from_actions = True
    name = "cvrp"
    module = "CVRP"
    multistart = True

    def family(self, tier, seed=0):
        insts = []
        if tier == "quick":
            N, dems, caps, tmpl = 3, (1, 2, 3), (3, 4), [(0, 0), (1, 2)]
        else:
            N, dems, caps, tmpl = 4, (1, 2, 3), (3, 4, 5), [(0, 0), (1, 1), (2, 3)]
        for (w, rot) in tmpl:
            pts, g, D = points_for(N + 1, w, rot)
            for cap in caps:
                for dem in itertools.product(dems, repeat=N):
                    insts.append({"N": N, "D": D, "dem": list(dem), "cap": cap,
                                  "pts": pts, "grid": g})
        return with_ids(insts)

    def group_key(self, inst):
        return (inst["N"], inst["cap"])

    def make_env(self, inst):
        from rl4co.envs import CVRPEnv

        return CVRPEnv(generator_params={"num_loc": inst["N"],
                                         "vehicle_capacity": inst["cap"] / CAP_UNIT},
                       check_solution=False)

    def to_td(self, insts):
        locs = torch.stack([embed.locs_tensor(i["pts"], i["grid"]) for i in insts])
        dem = torch.tensor([i["dem"] for i in insts], dtype=torch.float32) / CAP_UNIT
        return TensorDict({"depot": locs[:, 0], "locs": locs[:, 1:], "demand": dem},
                          batch_size=[len(insts)])

    def project(self, td, r, inst):
        return {"cur": int(td["current_node"][r, 0]),
                "used": int(round(float(td["used_capacity"][r, 0]) * CAP_UNIT)),
                "visited": [int(i) for i in td["visited"][r].nonzero().flatten().tolist()]}


class CVRPDecimal(CVRP):
    """The embedding the bundled generator uses: demand = k / capacity as float32, vehicle capacity 1.0.
    The integer problem (demands k, capacity c) is unchanged; float rounding of partial sums is the code's
    business.  Families are built around exact fills (sum of a route's demands = capacity)."""
    tag = "cvrp_decimal"
    properties = ("C01", "C02", "C05", "C06")

    def family(self, tier, seed=0):
        import random

        rnd = random.Random(seed)
        insts = []
        N = 4
        pts, g, D = points_for(N + 1, 0, 0)
        caps = (30, 40, 50) if tier == "quick" else (20, 30, 40, 50, 7, 11, 13)
        for cap in caps:
            for _ in range(12 if tier == "quick" else 60):
                # an exact fill of three customers + a fourth one
                a = rnd.randint(1, cap - 2)
                b = rnd.randint(1, cap - a - 1)
                c = cap - a - b
                d = rnd.randint(1, min(9, cap))
                dem = [a, b, c, d]
                rnd.shuffle(dem)
                insts.append({"N": N, "D": D, "dem": dem, "cap": cap, "pts": pts, "grid": g, "emb": "decimal"})
        return with_ids(insts)

    def make_env(self, inst):
        from rl4co.envs import CVRPEnv

        return CVRPEnv(generator_params={"num_loc": inst["N"], "vehicle_capacity": 1.0}, check_solution=False)

    def to_td(self, insts):
        locs = torch.stack([embed.locs_tensor(i["pts"], i["grid"]) for i in insts])
        dem = torch.stack([torch.tensor(i["dem"], dtype=torch.float32) / float(i["cap"]) for i in insts])
        return TensorDict({"depot": locs[:, 0], "locs": locs[:, 1:], "demand": dem}, batch_size=[len(insts)])

    def group_key(self, inst):
        return (inst["N"],)

    def project(self, td, r, inst):
        return {"cur": int(td["current_node"][r, 0]),
                "used": int(round(float(td["used_capacity"][r, 0]) * inst["cap"])),
                "visited": [int(i) for i in td["visited"][r].nonzero().flatten().tolist()]}
