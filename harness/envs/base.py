"""Adapter = the only place that knows how an integer instance of the
specification becomes tensors of one rl4co environment (and back)."""
import itertools

import torch
from tensordict import TensorDict

from .. import embed


class Adapter:
    name = None        # rl4co env name
    module = None      # TLA+ module in spec/env
    has_checker = True
    has_truth = True   # the module defines the Truth interface (Actions/PrefixOK/Complete/Pointless)
    # the environment's get_reward is a function of instance + actions (it can be called with the freshly reset instance, as the
    # evaluation classes do); False for environments whose objective is read from the rollout state
    reward_from_actions = False
    solo_invariants = ("FamilyOK", "C01", "C02a", "C02c", "C03", "PadStays", "PadReward", "Emit")
    properties = ("C01", "C02", "C03", "C04", "C05", "C06")
    multistart = False  # env supports select_start_nodes (C12)
    pad_steps = 2      # 0 for fixed-length envs (all rows of a batch finish together)
    exact = True       # exact embedding: rewards are integers in units 1/scale

    # ---- instances -------------------------------------------------------
    def family(self, tier, seed=0):
        raise NotImplementedError

    def group_key(self, inst):
        return (inst["N"],)

    def make_env(self, inst):
        raise NotImplementedError

    def to_td(self, insts):
        raise NotImplementedError

    def scale(self, inst):
        return inst["grid"]

    def eps(self, inst):
        """reward tolerance in integer units (0 under exact embeddings)"""
        return 0

    def step_cap(self, inst):
        return 2 * inst["N"] + 4

    def close_steps(self, inst):
        return 2

    def actions(self, inst):
        return list(range(inst["N"] + 1))

    def checker_candidates(self, fam, sols, tier, seed=0):
        """candidate solutions for the built-in checker: every feasible solution of the
        problem (as emitted by TLC), hand-shaped variants, all single-fault corruptions,
        and (small N) all sequences of some lengths."""
        import random

        rnd = random.Random(seed)
        budget = 4000 if tier == "quick" else 60000
        cands = []
        seen = set()

        def add(i, seq, why):
            k = (i, tuple(seq))
            if len(seq) > 0 and k not in seen:
                seen.add(k)
                cands.append({"inst": i, "seq": list(seq), "why": why})

        idx = {inst["id"]: n + 1 for n, inst in enumerate(fam)}
        sols = list(sols)
        rnd.shuffle(sols)
        for (iid, seq, obj) in sols:
            if len(cands) >= budget:
                break
            i = idx[iid]
            acts = self.actions(fam[i - 1])
            add(i, seq, "feasible")
            add(i, seq + [self.pad_action], "trailing-pad")
            add(i, seq + [self.pad_action] * 2, "trailing-pad2")
            add(i, [self.pad_action] + seq, "leading-pad")
            for p in range(len(seq)):
                add(i, seq[:p] + seq[p + 1:], "delete@%d" % p)
                add(i, seq[:p] + [seq[p]] + seq[p:], "dup@%d" % p)
                if p + 1 < len(seq):
                    add(i, seq[:p] + [seq[p + 1], seq[p]] + seq[p + 2:], "swap@%d" % p)
                for v in acts:
                    if v != seq[p]:
                        add(i, seq[:p] + [v] + seq[p + 1:], "subst@%d" % p)
        small = [n + 1 for n, inst in enumerate(fam) if len(self.actions(inst)) <= 4]
        rnd.shuffle(small)
        for i in small[: (3 if tier == "quick" else 30)]:
            acts = self.actions(fam[i - 1])
            for L in range(len(acts) - 1, len(acts) + 2):
                for seq in itertools.product(acts, repeat=L):
                    add(i, list(seq), "all-seq")
        return cands

    pad_action = 0

    def project(self, td, r, inst):
        """small abstract state of row r (compared with the model by ConfState / StepOK)"""
        return {}

    def final(self, td, r, inst):
        """final tensors the problem definition needs (schedules ...), row r"""
        return {}

    monitor_props = {"Step": "C08", "Final": "C07", "PadState": "C08"}

    # ---- behaviour -------------------------------------------------------
    def pad_choice(self, mask):
        """a mask-admitted action for every (finished) row: the first True entry"""
        return mask.int().argmax(-1)

    def close_choice(self, td):
        return torch.zeros(td.shape[0], dtype=torch.long)

    def get_reward(self, env, td, actions):
        return env._get_reward(td, actions)

    def check(self, env, td, actions):
        env.check_solution_validity(td, actions)

    def scale_reward(self, r, scale):
        v = r * scale
        if v != v or v in (float("inf"), float("-inf")):
            return {"inexact": 0.0, "crashed_or_nonfinite": True}
        iv = int(round(v))
        if self.exact and abs(v - iv) > 1e-3:
            return {"inexact": v}
        return iv


def with_ids(insts):
    for k, i in enumerate(insts):
        i["id"] = k + 1
    return insts


def points_for(k, which, rot):
    pts, g = embed.template(k, which, rot)
    return pts, g, embed.dist_matrix(pts)
