import torch
from tensordict import TensorDict

from .. import embed
from .base import Adapter, points_for, with_ids


class TSP(Adapter):
    reward_from_actions = True
    name = "tsp"
    module = "TSP"
    multistart = True
    pad_steps = 0

    def family(self, tier, seed=0):
        insts = []
        sizes = (3, 4) if tier == "quick" else (3, 4, 5, 6)
        for n in sizes:
            for w in range(2 if tier == "quick" else 4):
                for rot in range(1 if tier == "quick" else 2):
                    pts, g, D = points_for(n, w, rot * 2)
                    insts.append({"N": n, "D": D, "pts": pts, "grid": g})
        return with_ids(insts)

    def actions(self, inst):
        return list(range(inst["N"]))

    def step_cap(self, inst):
        return inst["N"] + 2

    def close_steps(self, inst):
        return 0

    def make_env(self, inst):
        from rl4co.envs import TSPEnv

        return TSPEnv(generator_params={"num_loc": inst["N"]}, check_solution=False)

    def to_td(self, insts):
        locs = torch.stack([embed.locs_tensor(i["pts"], i["grid"]) for i in insts])
        return TensorDict({"locs": locs}, batch_size=[len(insts)])

    def project(self, td, r, inst):
        return {"cur": int(td["current_node"].reshape(td.shape[0], -1)[r, 0]),
                "i": int(td["i"][r, 0]),
                "first": int(td["first_node"].reshape(td.shape[0], -1)[r, 0])}
