"""OP (OPEnv): orienteering.  Integer-distance point templates / grid, prizes k / PUNIT and
budgets L / grid are all dyadic, so tour lengths, prizes and the budget test are exact.

Two adapters share the module and the environment:
  OP          budgets L that NO closed tour of the instance meets with equality (but tours that
              fit / miss by exactly one length unit are there) -- `boundary` = False
  OPBoundary  budgets L equal to the length of some closed tour (`boundary` = True): the
              problem allows such a tour ("must not exceed"); the environment subtracts 1e-6
              from the budget.
The flag `boundary` is computed by brute force over all ordered subsets."""
import itertools

import torch
from tensordict import TensorDict

from .. import embed
from .base import Adapter, points_for, with_ids

PUNIT = 32  # prize k -> k / 32


def tour_lengths(D, n):
    """closed-tour length -> one witness tour, over all ordered subsets of customers"""
    out = {0: ()}
    for k in range(1, n + 1):
        for sub in itertools.permutations(range(1, n + 1), k):
            path = (0,) + sub + (0,)
            t = sum(D[a][b] for a, b in zip(path, path[1:]))
            out.setdefault(t, sub)
    return out


def spread(xs, k):
    xs = sorted(xs)
    if len(xs) <= k:
        return xs
    return sorted({xs[(i * (len(xs) - 1)) // (k - 1)] for i in range(k)})


class OP(Adapter):
    reward_from_actions = True
    name = "op"
    module = "OP"
    tag = "op"
    boundary = False
    pad_steps = 2

    def plan(self, tier):
        if tier == "quick":
            return [(3, 0, 0, 5), (3, 2, 1, 4), (4, 1, 0, 3)]
        p = [(2, w, r, 6) for w in range(4) for r in (0, 1)]
        p += [(3, w, r, 8) for w in range(4) for r in (0, 1, 2)]
        p += [(4, w, r, 8) for w in range(4) for r in (0, 2, 4)]
        p += [(5, w, r, 6) for w in range(2) for r in (0, 3)]
        return p

    def family(self, tier, seed=0):
        insts = []
        for (n, w, rot, nb) in self.plan(tier):
            pts, g, D = points_for(n + 1, w, rot)
            T = tour_lengths(D, n)
            if self.boundary:
                budgets = spread(T.keys(), nb)            # includes 0 (only the empty tour) and the longest tour
            else:
                near = {t + d for t in T for d in (-1, 1) if t + d >= 0 and (t + d) not in T}
                budgets = spread(near, nb - 1) + [max(T) + 5]
            # distinct powers of two, rotated: the objective identifies the collected subset
            prize = [1 << ((j + w + rot) % n) for j in range(n)]
            for L in budgets:
                insts.append({"N": n, "D": D, "prize": prize, "L": L, "boundary": L in T,
                              "pts": pts, "grid": g})
        assert all(i["boundary"] == self.boundary for i in insts)
        return with_ids(insts)

    def group_key(self, inst):
        return (inst["N"],)         # budgets differ per row (heterogeneous max_length)

    def scale(self, inst):
        return PUNIT

    def step_cap(self, inst):
        return inst["N"] + 2        # StepBound + 1: one step beyond the bound is enough for M_C02c

    def make_env(self, inst):
        from rl4co.envs import OPEnv

        return OPEnv(generator_params={"num_loc": inst["N"], "max_length": 2.0}, check_solution=False)

    def to_td(self, insts):
        locs = torch.stack([embed.locs_tensor(i["pts"], i["grid"]) for i in insts])
        prize = torch.tensor([i["prize"] for i in insts], dtype=torch.float32) / PUNIT
        ml = torch.tensor([i["L"] / i["grid"] for i in insts], dtype=torch.float32)
        return TensorDict({"depot": locs[:, 0], "locs": locs[:, 1:], "prize": prize, "max_length": ml},
                          batch_size=[len(insts)])

    def pad_choice(self, mask):
        """finished rows are padded with the LAST admitted action: after the return to the depot only
        the depot may be on offer, so any customer still offered to a finished row is picked (and
        would re-open the episode: monitors PadC02 / batch pad-done)"""
        return mask.shape[-1] - 1 - mask.flip(-1).int().argmax(-1)

    def project(self, td, r, inst):
        b = td.shape[0]
        tl = float(td["tour_length"].reshape(b, -1)[r, 0]) * inst["grid"]
        pz = float(td["current_total_prize"].reshape(b, -1)[r, 0]) * PUNIT
        return {"cur": int(td["current_node"].reshape(b, -1)[r, 0]),
                "i": int(td["i"].reshape(b, -1)[r, 0]),
                "tl": int(round(tl)) if abs(tl - round(tl)) < 1e-3 else -1,
                "prize": int(round(pz)) if abs(pz - round(pz)) < 1e-3 else -1,
                "visited": [int(x) for x in td["visited"][r].nonzero().flatten().tolist()]}


class OPBoundary(OP):
    """budgets met with equality by some tour"""
    tag = "op_boundary"
    boundary = True
