import itertools
import random

import torch
from tensordict import TensorDict

from .base import Adapter, with_ids


class _Hang(Exception):
    def __init__(self, rows):
        self.rows = rows


class _CountingTables:
    """IndexTables with an iteration counter: get_machine_index is called once per iteration of
    the unbounded `while ~ready.all()` loop of FFSPEnv._move_to_next_machine, with the rows that
    are still not ready.  When the loop runs longer than any state can need (all wait counters
    are zero after max-duration time units, then a decision point opens within one sweep over
    the machines) the rows still in the loop are reported instead of hanging the harness."""

    def __init__(self, tables):
        self._t = tables
        self.count = 0
        self.limit = None

    def __getattr__(self, k):
        return getattr(self._t, k)

    def get_machine_index(self, idx, sub_time_idx):
        self.count += 1
        if self.limit is not None and self.count > self.limit:
            raise _Hang([int(i) for i in torch.as_tensor(idx).flatten().tolist()])
        return self._t.get_machine_index(idx, sub_time_idx)


class _LoopEnv:
    """FFSPEnv as it is used by the decoding loops (`while not td["done"].all(): step`).

    Three facts about the real environment force this thin proxy (everything else is delegated):
    * IndexTables maps row r to POMO copy r // bs with bs = batch size AT RESET.  The harness
      regroups rows between steps (frontier of the breadth-first expansion, sub-batches of
      finished rows), so bs is re-set to the size of the batch being stepped: every row is
      copy 0, exactly as for all rows of a batch that is stepped as it was reset.
    * FFSPEnv._step skips _update_step_state when the WHOLE batch is done, leaving the
      action_mask of the last step stale.  No rl4co loop ever reads that mask (they stop at
      done.all()), so it is outside C02/C04 ("as long as one instance is unfinished"); to keep
      solo and batched runs comparable the proxy shows, in that one situation, the mask the
      environment computes for a finished row next to an unfinished batch-mate.
    * _move_to_next_machine loops until every unfinished row has an open decision point; if a
      row never gets one the step does not return (and _update_step_state asserts that every
      unfinished row is offered a job).  Rows for which the step cannot be completed are handed
      back un-stepped, not done and with an EMPTY mask: a dead end, reported by the C02 monitors.
    """

    def __init__(self, env, refresh_final_mask=True):
        self._env = env
        self._refresh = refresh_final_mask

    def __getattr__(self, k):
        return getattr(self._env, k)

    def reset(self, td=None, batch_size=None):
        out = self._env.reset(td, batch_size=batch_size)
        self._env.tables = _CountingTables(self._env.tables)
        out["_frozen"] = torch.zeros(out.batch_size[0], dtype=torch.bool)
        return out

    def _raw_step(self, td):
        tb = self._env.tables
        tb.set_bs(max(1, td.batch_size[0]))
        tb.count = 0
        tb.limit = self._env.num_machine_total * (int(td["job_duration"].max()) + 3) + 8
        try:
            out = self._env.step(td)["next"]
        finally:
            tb.limit = None
        if self._refresh and bool(out["done"].all()):
            out = self._env._update_step_state(out)
        out["_frozen"] = torch.zeros(out.batch_size[0], dtype=torch.bool)
        return out

    def step(self, td):
        bak = td.clone()
        n = td.batch_size[0]
        try:
            return {"next": self._raw_step(td)}
        except _Hang as h:
            hung = sorted(set(h.rows))
        except AssertionError:
            # FFSPEnv asserts that every unfinished row is offered a job; find the rows
            hung = []
            for r in range(n):
                try:
                    self._raw_step(bak[r:r + 1].clone())
                except (_Hang, AssertionError):
                    hung.append(r)
            if not hung:
                raise
        rest = [r for r in range(n) if r not in set(hung)]
        frozen = bak[torch.tensor(hung)].clone()
        frozen["action_mask"] = torch.zeros_like(frozen["action_mask"])
        frozen["done"] = torch.zeros(len(hung), dtype=torch.bool)
        frozen["_frozen"] = torch.ones(len(hung), dtype=torch.bool)   # state is NOT the successor
        parts = {r: frozen[k:k + 1] for k, r in enumerate(hung)}
        if rest:
            sub = self.step(bak[torch.tensor(rest)].clone())["next"]
            sub["done"] = sub["done"].reshape(len(rest))
            for k, r in enumerate(rest):
                parts[r] = sub[k:k + 1]
        keys = [k for k in parts[hung[0]].keys() if all(k in p.keys() for p in parts.values())]
        return {"next": torch.cat([parts[r].select(*keys) for r in range(n)], 0)}


class FFSP(Adapter):
    """Flexible flow shop (rl4co.envs.scheduling.ffsp): actions 0..N-1 start a job on the
    current machine candidate, action N waits."""
    name = "ffsp"
    module = "FFSP"
    pad_steps = 2
    has_checker = False
    has_truth = False      # no enumeration of all schedules; C03 = M_C03 (objective of the denoted
                           # schedule) + FinalOK (makespan of the final schedule tensor)
    properties = ("C02", "C03", "C04", "C07")
    monitor_props = {"Final": "C07", "Step": "C07"}
    refresh_final_mask = True   # False: show the raw (stale) mask of an all-done batch, see _LoopEnv

    # ---- instances -------------------------------------------------------
    def family(self, tier, seed=0):
        insts = []
        rnd = random.Random(seed)

        def add(S, m, rt):
            insts.append({"S": S, "m": m, "N": len(rt), "rt": [list(r) for r in rt], "grid": 1})

        def sample(S, m, J, vals, cnt):
            allrt = list(itertools.product(vals, repeat=S * m * J))
            pick = allrt if len(allrt) <= cnt else rnd.sample(allrt, cnt)
            for flat in pick:
                add(S, m, [flat[j * S * m:(j + 1) * S * m] for j in range(J)])

        # hand-made: 2 stages x 2 machines x 2-3 jobs, run times 1..2
        add(2, 2, [(1, 2, 1, 1), (2, 1, 2, 1)])
        add(2, 2, [(1, 1, 1, 1), (1, 1, 1, 1)])               # everything ties
        add(2, 2, [(2, 2, 2, 2), (2, 2, 2, 2)])
        add(2, 2, [(2, 1, 1, 2), (1, 2, 2, 1), (1, 1, 2, 2)])
        add(2, 2, [(1, 1, 1, 1), (1, 1, 1, 1), (1, 1, 1, 1)])  # more jobs than machines per stage
        if tier == "quick":
            sample(2, 2, 2, (1, 2), 10)
            sample(2, 1, 2, (1, 2), 6)     # plain flow shop
            sample(1, 2, 2, (1, 2), 4)     # one stage: parallel machines
            sample(2, 2, 3, (1, 2), 2)
        else:
            sample(2, 2, 2, (1, 2), 256)   # all of them
            sample(2, 1, 2, (1, 2, 3), 81)
            sample(2, 1, 3, (1, 2), 64)
            sample(1, 2, 3, (1, 2), 64)
            sample(3, 1, 2, (1, 2), 64)
            sample(2, 2, 3, (1, 2), 12)
            sample(2, 2, 2, (1, 3), 30)
            sample(3, 2, 2, (1, 2), 6)
        return with_ids(insts)

    def group_key(self, inst):
        return (inst["S"], inst["m"], inst["N"])

    def step_bound(self, inst):
        """StepBound of FFSP.tla (operations + sensible waits)"""
        S, m, J, rt = inst["S"], inst["m"], inst["N"], inst["rt"]

        def pmax(j, s):
            return max(rt[j][s * m:(s + 1) * m])

        def pmin(j, s):
            return min(rt[j][s * m:(s + 1) * m])

        latest, waits = 0, 0
        for s in range(S):
            if s >= 1:
                earliest = min(sum(pmin(j, q) for q in range(s)) for j in range(J))
                waits += m * max(0, latest - earliest)
            pm = [pmax(j, s) for j in range(J)]
            latest += (sum(pm) - min(pm)) // m + max(pm)
        return J * S + waits

    def step_cap(self, inst):
        return self.step_bound(inst) + 1

    def close_steps(self, inst):
        return 0

    def make_env(self, inst):
        from rl4co.envs import FFSPEnv

        # tiny int64 tensors: the intra-op thread pool only adds contention (x1000 on a busy box)
        torch.set_num_threads(1)
        env = FFSPEnv(generator_params={"num_stage": inst["S"], "num_machine": inst["m"],
                                        "num_job": inst["N"], "min_time": 1, "max_time": 3})
        self._env = _LoopEnv(env, self.refresh_final_mask)
        return self._env

    def to_td(self, insts):
        return TensorDict({"run_time": torch.tensor([i["rt"] for i in insts], dtype=torch.long)},
                          batch_size=[len(insts)])

    def pad_choice(self, mask):
        """first offered action; a row that is offered nothing gets the wait action (it is
        reported as stuck by the driver; starting job 0 again would hang the real loop)"""
        a = mask.int().argmax(-1)
        a[~mask.any(-1)] = mask.shape[-1] - 1
        return a

    # ---- reward ------------------------------------------------------------
    def get_reward(self, env, td, actions):
        """FFSPEnv writes td["reward"] only in the step that finishes the WHOLE batch.  A row
        that finished next to slower batch-mates still carries -inf: it is stepped (on a copy)
        with the one action its mask offers, wait, exactly what the decoding loop does with it
        until the batch is done, which makes the environment compute its reward."""
        rew = td["reward"].clone().reshape(td.batch_size[0])
        need = torch.isinf(rew) & td["done"].reshape(td.batch_size[0], -1).all(-1)
        if bool(need.any()):
            sub = td[need].clone()
            sub.set("action", torch.full((sub.batch_size[0],), env.num_job, dtype=torch.long))
            sub = env.step(sub)["next"]
            rew[need] = sub["reward"].reshape(-1)
        self._cache = (td, rew)
        return rew

    # ---- logged state --------------------------------------------------------
    def project(self, td, r, inst):
        return {"time": int(td["time_idx"][r]), "sub": int(td["sub_time_idx"][r]),
                "mach": int(td["machine_idx"][r]), "stage": int(td["stage_idx"][r]),
                "mw": td["machine_wait_step"][r].tolist(),
                "jl": td["job_location"][r].tolist(),
                "jw": td["job_wait_step"][r].tolist(),
                "sched": td["schedule"][r].tolist(),
                "frozen": bool(td["_frozen"][r]) if "_frozen" in td.keys() else False}

    def final(self, td, r, inst):
        c = getattr(self, "_cache", None)
        rew = c[1] if c is not None and c[0] is td else self.get_reward(self._env, td, None)
        v = float(rew[r])
        return {"sched": td["schedule"][r].tolist(),
                "reward": int(round(v)) if abs(v) < 2 ** 30 else -(2 ** 30)}


class FFSPNoFlatten(FFSP):
    """the same environment built with the documented generator option flatten_stages=False (machines of different
    stages share an embedding index; the schedule dynamics must be unaffected)"""
    tag = "ffsp_noflat"

    def family(self, tier, seed=0):
        fam = FFSP.family(self, tier, seed)
        fam = fam[:: max(1, len(fam) // (8 if tier == "quick" else 60))]
        for k, i in enumerate(fam):
            i["id"] = k + 1
        return fam

    def make_env(self, inst):
        from rl4co.envs import FFSPEnv

        torch.set_num_threads(1)
        env = FFSPEnv(generator_params={"num_stage": inst["S"], "num_machine": inst["m"], "num_job": inst["N"],
                                        "min_time": 1, "max_time": 3, "flatten_stages": False})
        self._env = _LoopEnv(env, self.refresh_final_mask)
        return self._env
