"""MPDP (rl4co.envs.routing.mpdp.env.MPDPEnv): one depot, H pickup/delivery pairs, A agents that
leave the depot one after another; objective "minmax" (longest agent tour) or "minsum".
Node numbering of the env: 0..A are A+1 copies of the depot (0 = start marker, k = return marker of
agent k), A+1..A+H pickups, A+H+1..A+2H deliveries.  Specification: spec/env/MPDP.tla.

The class is not exported by rl4co.envs, has no checker (`assert True`) and cannot be used through
its public API on the unchanged tree; the adapter gets past two crashes with the SMALLEST possible
shims (both are findings of their own, see `public_api_probe`):
  * MPDPEnv.__init__ -> _make_spec reads self.num_loc / self.max_num_agents, which nothing defines
    (AttributeError).  Shim: a subclass that carries the two numbers as class attributes.
  * MPDPEnv._reset(td, batch_size, agent_num=None): RL4COEnvBase.reset has no way to pass agent_num,
    `depot.repeat(1, agent_num + 1, 1)` raises TypeError.  Shim: the subclass forwards the agent count
    of the group (the generator's per-row `num_agents` is ignored by the env: the agent count is the
    WIDTH of td["lengths"], one number per batch -- rows with different agent counts cannot share a batch).
  * td["action_mask"] is [B,1,M] (the unsqueezed layout of the reference implementation); the wrapper
    hands it out as [B,M].  The depot is given as [B,1,2] (the generator's [B,2] makes `repeat` mix the rows).

Two adapters share the module:
  MPDP        the environment as its own mask drives it from reset (inst.forced = False).  On the unchanged tree
              the first mask is inverted (everything but node 0) and no episode ever finishes.
  MPDPStart   the harness plays the start marker 0 itself (out of mask, as the reference implementation's first
              step) and explores from there (inst.forced = True): agent switching, precedence, done, rewards.
"""
import torch
from tensordict import TensorDict

from .. import embed
from .base import Adapter, points_for, with_ids


def _make_real_env(H, A, objective):
    from rl4co.envs.routing.mpdp.env import MPDPEnv

    gp = {"num_loc": 2 * H, "min_num_agents": A, "max_num_agents": A}
    try:
        env = MPDPEnv(generator_params=gp, objective=objective, check_solution=False)
        cls = MPDPEnv
    except AttributeError:
        # shim 1: the attributes _make_spec expects on the env
        cls = type("MPDPEnvWithSpecAttrs", (MPDPEnv,), {"num_loc": 2 * H, "max_num_agents": A})
        env = cls(generator_params=gp, objective=objective, check_solution=False)
    return env, cls


class _Env:
    """the real environment behind the driver's protocol (reset / step / _get_reward)"""

    def __init__(self, H, A, objective, forced):
        self.env, self.cls = _make_real_env(H, A, objective)
        self.A, self.forced = A, forced
        base_reset = self.cls._reset
        agents = A

        # shim 2: reset cannot be told the agent count through the public signature
        def _reset(td=None, batch_size=None):
            return base_reset(self.env, td, batch_size, agent_num=agents)

        self.env._reset = _reset

    @staticmethod
    def _flat(td):
        am = td["action_mask"]
        if am.dim() == 3:
            td.set("action_mask", am.squeeze(1))
        return td

    def reset(self, td):
        out = self.env.reset(td)
        if self.forced:
            out.set("action", torch.zeros(out.shape[0], dtype=torch.long))
            out = self.env.step(out)["next"]
        return self._flat(out)

    def step(self, td):
        return {"next": self._flat(self.env.step(td)["next"])}

    def _get_reward(self, td, actions):
        return self.env._get_reward(td, actions)


class MPDP(Adapter):
    name = "mpdp"
    module = "MPDP"
    has_checker = False
    pad_steps = 2          # episodes of a batch end together, but a finished row must also survive further steps (C04)
    properties = ("C01", "C02", "C03", "C04", "C05")
    forced = False

    def violation_class(self, inst, monitor):
        return "first-mask-inverted" if not inst["forced"] else "H%d/A%d/%s" % (inst["H"], inst["A"], inst["obj"])

    # ---- instances -------------------------------------------------------
    def shapes(self, tier):
        """(H, A, [(template, rotation)])"""
        if tier == "quick":
            return [(1, 1, [(0, 0)]), (1, 2, [(1, 1)]), (2, 2, [(0, 0)])]
        return [(1, 1, [(0, 0)]), (1, 2, [(1, 1)]), (1, 3, [(2, 0)]), (2, 1, [(0, 0)]), (2, 2, [(0, 0), (3, 2)]),
                (2, 3, [(1, 4)])]

    def objectives(self, tier):
        return ("minmax", "minsum")

    def family(self, tier, seed=0):
        insts = []
        for (H, A, geoms) in self.shapes(tier):
            for (w, rot) in geoms:
                pts, g, D = points_for(2 * H + 1, w, rot)
                for obj in self.objectives(tier):
                    insts.append({"N": 2 * H + A, "H": H, "A": A, "D": D, "obj": obj, "forced": self.forced,
                                  "pts": pts, "grid": g})
        return with_ids(insts)

    def group_key(self, inst):
        return (inst["H"], inst["A"], inst["obj"], inst["forced"])

    def step_cap(self, inst):
        m = 2 * inst["H"] + inst["A"] + 1
        return (m - 1 if inst["forced"] else m) + 2        # = StepBound + 2 (the model's horizon is one further)

    def close_steps(self, inst):
        return 0

    def actions(self, inst):
        return list(range(1 if inst["forced"] else 0, inst["N"] + 1))

    # ---- real environment ------------------------------------------------
    def make_env(self, inst):
        torch.set_num_threads(1)          # tiny tensors: intra-op threads only cost (max(dim) 40 ms -> 0.1 ms)
        key = self.group_key(inst)
        cache = self.__dict__.setdefault("_envs", {})
        if key not in cache:
            cache[key] = _Env(inst["H"], inst["A"], inst["obj"], inst["forced"])
        return cache[key]

    def to_td(self, insts):
        locs = torch.stack([embed.locs_tensor(i["pts"], i["grid"]) for i in insts])
        return TensorDict({"depot": locs[:, :1], "locs": locs[:, 1:]}, batch_size=[len(insts)])

    def project(self, td, r, inst):
        g = inst["grid"]
        b = td.shape[0]
        xy = [int(round(float(v) * g)) for v in td["cur_coord"].reshape(b, -1)[r].tolist()]
        cur = [k for k, p in enumerate(inst["pts"]) if list(p) == xy]
        return {"vis": [int(x) for x in td["visited"][r].reshape(-1).nonzero().flatten().tolist()],
                "todel": [int(x) for x in td["to_delivery"][r].reshape(-1).nonzero().flatten().tolist()],
                "cd": int(td["count_depot"][r].reshape(-1)[0]), "ai": int(td["agent_idx"][r].reshape(-1)[0]),
                "i": int(td["i"].reshape(b, -1)[r, 0]), "left": int(td["left_request"][r].reshape(-1)[0]),
                "cur": cur[0] if cur else -1,
                "len": [_units(x, g) for x in td["lengths"][r].tolist()],
                "ll": [_units(x, g) for x in td["longest_lengths"][r].tolist()],
                "dd": [_units(x, g) for x in td["depot_distance"][r].tolist()],
                "rp": _units(td["remain_pickup_max_distance"][r].reshape(-1)[0], g),
                "rd": _units(td["remain_delivery_max_distance"][r].reshape(-1)[0], g),
                "rs": _units(td["remain_sum_paired_distance"][r].reshape(-1)[0], g)}

    def get_reward(self, env, td, actions):
        return env._get_reward(td, actions).reshape(td.shape[0])

    def check(self, env, td, actions):
        raise NotImplementedError   # MPDPEnv.check_solution_validity is `assert True, "Not implemented"`


class MPDPStart(MPDP):
    """the start marker (node 0) is played by the harness; everything after it is mask-confined"""
    name = tag = "mpdp_start"
    forced = True

    def shapes(self, tier):
        if tier == "quick":
            return [(1, 1, [(0, 0)]), (1, 2, [(1, 1)]), (1, 3, [(2, 0)]), (2, 1, [(3, 2)]), (2, 2, [(0, 0), (1, 3)]),
                    (2, 3, [(2, 1)])]
        out = [(1, a, [(w, r) for w in range(4) for r in range(3)]) for a in (1, 2, 3)]
        out += [(2, a, [(w, r) for w in range(4) for r in range(5)]) for a in (1, 2, 3)]
        out += [(3, a, [(w, 0) for w in range(2)]) for a in (1, 2, 3)]
        return out


def _units(x, g):
    v = float(x) * g
    iv = int(round(v))
    return iv if abs(v - iv) < 1e-3 else -1


def public_api_probe():
    """what a user of the unchanged tree gets from the documented entry points (not a pipeline stage)"""
    from rl4co.envs.routing.mpdp.env import MPDPEnv

    out = {}
    try:
        MPDPEnv(generator_params={"num_loc": 4})
        out["construct"] = "ok"
    except Exception as e:
        out["construct"] = "%s: %s" % (type(e).__name__, e)
    env, _ = _make_real_env(2, 2, "minmax")
    try:
        env.reset(batch_size=[2])
        out["reset"] = "ok"
    except Exception as e:
        out["reset"] = "%s: %s" % (type(e).__name__, e)
    return out
