"""MTVRP (rl4co.envs.routing.mtvrp): the 16 variants are DATA of one environment.

Integer instance (spec/env/MTVRP.tla):
  N, D, lh[1..N], bh[1..N], cap, open, lim, H, early[1..N], late[1..N], svc[1..N], speed2
  distances / times / limits in units of 1/grid, loads in units of 1/CAP_UNIT, INF = no bound,
  speed2 = 2 * speed (speed in {1/2, 1, 2}; driving time 2 D / speed2 is an integer).
Exact float32 embedding: integer-distance point templates / grid (a power of two), dyadic speed,
quantities k/8 -> every sum the environment forms is a small dyadic rational.

Extra (unused by the specification) fields make classes of instances identifiable:
  variant   "CVRP", "OVRPBLTW", ...
  tight     sorted list of boundary situations some FEASIBLE route of the instance meets:
            "tw_eq"     a customer is reached exactly at the end of its window
            "depot_eq"  a closed route is back exactly when the depot window ends
            "lim_eq"    a route is exactly as long as the distance limit
            "cap_eq"    delivered or collected load exactly fills the vehicle
            "open_late" (open + TW) a route serves its last customer so late that driving back
                        would miss the depot window (irrelevant for the problem: open routes do
                        not drive back)
  near      near misses: a feasible route + one more customer violates exactly ONE constraint by
            a hair: "tw_miss" (arrival 1-2 after the window end), "depot_miss" (back 1-3 after the
            depot closes), "lim_miss" (1-4 over the limit), "cap_miss" (load = capacity + 1)
  speed2    != 2 marks the instances whose vehicle speed is not the default
"""
import itertools
import random

import torch
from tensordict import TensorDict

from .. import embed
from .base import Adapter, points_for, with_ids

CAP_UNIT = 8
INF = 1000000

VARIANTS = [(o, b, l, tw) for o in (0, 1) for b in (0, 1) for l in (0, 1) for tw in (0, 1)]


def variant_name(o, b, l, tw):
    if not (o or b or l or tw):
        return "CVRP"
    return ("O" if o else "") + "VRP" + ("B" if b else "") + ("L" if l else "") + ("TW" if tw else "")


# --------------------------------------------------------------------------
# plain-python bookkeeping used ONLY to build / label instances (never for a verdict)
# --------------------------------------------------------------------------
def _routes(n):
    for k in range(1, n + 1):
        for r in itertools.permutations(range(1, n + 1), k):
            yield r


def _tt(i, a, b):
    return 2 * i["D"][a][b] // i.get("speed2", 2)


def _schedule(i, r):
    """[(arrival, start)] along route r, time the vehicle leaves the last customer"""
    t, prev, out = 0, 0, []
    for j in r:
        arr = t + _tt(i, prev, j)
        st = max(arr, i["early"][j - 1])
        out.append((arr, st))
        t = st + i["svc"][j - 1]
        prev = j
    return out, t


def _route_len(i, r):
    D = i["D"]
    path = (0,) + tuple(r)
    ln = sum(D[a][b] for a, b in zip(path, path[1:]))
    return ln + (0 if i["open"] else D[r[-1]][0])


def _route_ok(i, r):
    lh = [i["lh"][j - 1] for j in r]
    bh = [i["bh"][j - 1] for j in r]
    if sum(lh) > i["cap"] or sum(bh) > i["cap"]:
        return False
    seen_back = False
    for a, b in zip(lh, bh):
        if b > 0:
            seen_back = True
        elif seen_back:
            return False
    sched, leave = _schedule(i, r)
    if any(st > i["late"][j - 1] for (arr, st), j in zip(sched, r)):
        return False
    if _route_len(i, r) > i["lim"]:
        return False
    if not i["open"] and leave + _tt(i, r[-1], 0) > i["H"]:
        return False
    return True


def instance_ok(i):
    """python twin of InstanceOK (TLC re-checks it: Solo invariant FamilyOK)"""
    D, n = i["D"], i["N"]
    if any((2 * D[a][b]) % i["speed2"] for a in range(n + 1) for b in range(n + 1)):
        return False
    for j in range(1, n + 1):
        l, b = i["lh"][j - 1], i["bh"][j - 1]
        if not ((l > 0 and b == 0) or (b > 0 and l == 0)) or l + b > i["cap"]:
            return False
        e, lt, s = i["early"][j - 1], i["late"][j - 1], i["svc"][j - 1]
        if not (0 <= e < lt and s >= 0):
            return False
        if not _tt(i, 0, j) < lt:
            return False
        if D[0][j] + (0 if i["open"] else D[j][0]) > i["lim"]:
            return False
        if not i["open"] and not max(_tt(i, 0, j), e) + s + _tt(i, j, 0) < i["H"]:
            return False
        if not e + s + _tt(i, j, 0) <= i["H"]:
            return False
    return True


def label(i):
    """(tight, near): boundary situations met by feasible routes / routes that are feasible
    except for ONE constraint missed by a hair when their last customer is added"""
    tight, near = set(), set()
    H, lim, cap = i["H"], i["lim"], i["cap"]
    for r in _routes(i["N"]):
        sched, leave = _schedule(i, r)
        back = leave + _tt(i, r[-1], 0)
        if _route_ok(i, r):
            if any(arr == i["late"][j - 1] for (arr, st), j in zip(sched, r)):
                tight.add("tw_eq")
            if not i["open"] and back == H:
                tight.add("depot_eq")
            if _route_len(i, r) == lim:
                tight.add("lim_eq")
            if sum(i["lh"][j - 1] for j in r) == cap or sum(i["bh"][j - 1] for j in r) == cap:
                tight.add("cap_eq")
            if i["open"] and H < INF and back > H:
                tight.add("open_late")
            continue
        if len(r) > 1 and not _route_ok(i, r[:-1]):
            continue
        j = r[-1]
        # relax one constraint at a time
        if _route_ok(dict(i, late=[INF] * i["N"]), r) and 0 < sched[-1][1] - i["late"][j - 1] <= 2:
            near.add("tw_miss")
        if not i["open"] and _route_ok(dict(i, H=INF), r) and 0 < back - H <= 3:
            near.add("depot_miss")
        if _route_ok(dict(i, lim=INF), r) and 0 < _route_len(i, r) - lim <= 4:
            near.add("lim_miss")
        if _route_ok(dict(i, cap=cap + 1), r):
            near.add("cap_miss")
    return sorted(tight), sorted(near)


# --------------------------------------------------------------------------
# family construction
# --------------------------------------------------------------------------
def _demand_patterns(n, b, rnd, k):
    """(lh, bh, cap) triples; b = 0: linehaul only"""
    out = []
    qty = (1, 2)
    kinds = ("L", "B") if b else ("L",)
    allp = []
    for types in itertools.product(kinds, repeat=n):
        if b and "B" not in types:
            continue
        for q in itertools.product(qty, repeat=n):
            for cap in (2, 3):
                allp.append((types, q, cap))
    rnd.shuffle(allp)
    for types, q, cap in allp[:k]:
        lh = [qq if t == "L" else 0 for t, qq in zip(types, q)]
        bh = [qq if t == "B" else 0 for t, qq in zip(types, q)]
        out.append((lh, bh, cap))
    return out


def _limits(D, n, o, rnd, k):
    """distance limits taken from the achievable route lengths (so that equality happens)"""
    base = {"D": D, "open": bool(o)}
    lens = sorted({_route_len(base, r) for r in _routes(n)})
    need = max(_route_len(base, (j,)) for j in range(1, n + 1))
    cands = [x for x in lens if x >= need]
    pick = {cands[0], cands[len(cands) // 2], cands[-1]}
    pick |= {cands[0] + 1}                       # a limit no route meets exactly
    pick = sorted(pick)
    rnd.shuffle(pick)
    return pick[:k]


def _windows(D, n, o, rnd, k, speed2=2):
    """(early, late, svc, H, want) configurations: generator-like random ones (want = None) and
    ones aimed at a boundary: want = label the finished instance must carry (arrival exactly at /
    just after a window end, return exactly at / just after the end of the depot window)"""
    out = []
    sp = {"D": D, "speed2": speed2}
    d0 = [_tt(sp, 0, j) for j in range(1, n + 1)]

    def horizon(early, late, svc, slack):
        return max(l + s + d for l, s, d in zip(late, svc, d0)) + slack

    # generator-like: early >= d(0,j), short windows, H leaves room for the latest service
    for _ in range(k):
        early = [d + rnd.choice((0, 1, 2, 4, 8)) for d in d0]
        late = [e + rnd.choice((2, 3, 4, 8)) for e in early]
        svc = [rnd.choice((0, 1, 2)) for _ in d0]
        out.append((early, late, svc, horizon(early, late, svc, rnd.choice((0, 0, 3))), None))
    # wide windows, tight horizon (the way home decides)
    for _ in range(k):
        early = [rnd.choice((0, 0, d)) for d in d0]
        late = [e + rnd.choice((16, 24, 40)) for e in early]
        svc = [rnd.choice((0, 1, 2)) for _ in d0]
        lo = max(max(d, e) + s + d for e, s, d in zip(early, svc, d0)) + 1
        out.append((early, late, svc, lo + rnd.choice((0, 2, 5, 9, 14)), None))
    # aimed: follow a route under wide windows, then close one window / the depot on time (or a hair early)
    kinds = ["tw_eq", "tw_miss"] + ([] if o else ["depot_eq", "depot_miss"])
    for kind in kinds:
        for _ in range(k):
            r = rnd.choice([r for r in _routes(n) if len(r) >= 2])
            early = [rnd.choice((0, d, d + 2)) for d in d0]
            svc = [rnd.choice((0, 1, 2, 3)) for _ in d0]
            late = [e + 40 for e in early]
            if kind == "depot_miss":
                svc[r[-1] - 1] = rnd.choice((2, 3))      # the service time itself makes the route late
            tmp = {"D": D, "early": early, "late": late, "svc": svc, "speed2": speed2}
            sched, leave = _schedule(tmp, r)
            if kind in ("tw_eq", "tw_miss"):
                pos = rnd.randrange(1, len(r))
                arr, st = sched[pos]
                j = r[pos]
                if arr <= early[j - 1] + 1:
                    continue
                late[j - 1] = arr - (0 if kind == "tw_eq" else 1)
                H = horizon(early, late, svc, rnd.choice((0, 2)))
            else:
                H = leave + _tt(sp, r[-1], 0) - (0 if kind == "depot_eq" else 1)
            out.append((early, late, svc, H, kind))
    return out


def build(tier, seed):
    rnd = random.Random(1000 + seed)
    insts, seen = [], set()
    # (N, templates, instances per (variant, template) at speed 1, ... at each other speed (TW variants))
    if tier == "quick":
        sizes = [(3, [(0, 0), (1, 0)], 5, 1)]
    else:
        sizes = [(3, [(0, 0), (1, 0), (2, 0), (0, 1), (1, 2)], 14, 2), (4, [(0, 0), (1, 0)], 2, 0)]
    turn = 0
    for (n, tmpl, per, per_speed) in sizes:
        for (o, b, l, tw) in VARIANTS:
            for (w, rot) in tmpl:
                pts, g, D = points_for(n + 1, w, rot)
                slices = [(2, per)]
                if tw and per_speed:
                    slices.append((1, per_speed))                       # speed 1/2
                    if all((2 * x) % 4 == 0 for row in D for x in row):
                        slices.append((4, per_speed))                   # speed 2
                for (speed2, quota) in slices:
                    dems = _demand_patterns(n, b, rnd, 12)
                    lims = _limits(D, n, o, rnd, 4) if l else [INF]
                    wins = (_windows(D, n, o, rnd, 6, speed2) if tw
                            else [([0] * n, [INF] * n, [0] * n, INF, None)])
                    combos = list(itertools.product(dems, lims, wins))
                    rnd.shuffle(combos)
                    # one bucket per aim; buckets are served in turn so that every kind of
                    # boundary shows up even when only a few instances are taken
                    buckets = {}
                    for c in combos:
                        buckets.setdefault(c[2][4], []).append(c)
                    order = sorted(buckets, key=lambda x: x or "")
                    made, idle = 0, 0
                    while made < quota and idle < len(order):
                        want = order[turn % len(order)]
                        turn += 1
                        got = False
                        while buckets[want] and not got:
                            (lh, bh, cap), lim, (early, late, svc, H, _) = buckets[want].pop()
                            i = {"N": n, "D": D, "lh": list(lh), "bh": list(bh), "cap": cap,
                                 "open": bool(o), "lim": lim, "H": H, "early": list(early),
                                 "late": list(late), "svc": list(svc), "speed2": speed2,
                                 "pts": pts, "grid": g, "variant": variant_name(o, b, l, tw)}
                            key = (n, w, rot, tuple(lh), tuple(bh), cap, o, lim, H, speed2,
                                   tuple(early), tuple(late), tuple(svc))
                            if key in seen or not instance_ok(i):
                                continue
                            i["tight"], i["near"] = label(i)
                            if want is not None and want not in i["tight"] + i["near"]:
                                continue
                            seen.add(key)
                            insts.append(i)
                            made += 1
                            got = True
                        idle = 0 if got else idle + 1
    return with_ids(insts)


class MTVRP(Adapter):
    reward_from_actions = True
    name = "mtvrp"
    module = "MTVRP"
    properties = ("C01", "C02", "C03", "C04", "C05", "C06")

    def family(self, tier, seed=0):
        return build(tier, seed)

    def checker_candidates(self, fam, sols, tier, seed=0):
        """the generic candidates (feasible solutions, single-fault corruptions, all short
        sequences of a few instances), thinned out for the thorough tier: the checker is run
        once per candidate"""
        cands = super().checker_candidates(fam, sols, tier, seed)
        if tier == "quick":
            return cands
        rnd = random.Random(seed)
        brute = [c for c in cands if c["why"] == "all-seq"]
        rest = [c for c in cands if c["why"] != "all-seq"]
        rnd.shuffle(brute)
        rnd.shuffle(rest)
        return rest[:36000] + brute[:12000]

    def group_key(self, inst):
        return (inst["N"],)            # all variants share one (mixed) batch, as in multi-task training

    def make_env(self, inst):
        from rl4co.envs.routing.mtvrp.env import MTVRPEnv

        return MTVRPEnv(generator_params={"num_loc": inst["N"], "variant_preset": "all"},
                        check_solution=False)

    @staticmethod
    def _f(v, g):
        return float("inf") if v >= INF else v / float(g)

    def to_td(self, insts):
        B = len(insts)
        locs = torch.stack([embed.locs_tensor(i["pts"], i["grid"]) for i in insts])
        lh = torch.tensor([[0] + i["lh"] for i in insts], dtype=torch.float32) / CAP_UNIT
        bh = torch.tensor([[0] + i["bh"] for i in insts], dtype=torch.float32) / CAP_UNIT
        cap = torch.tensor([[i["cap"]] for i in insts], dtype=torch.float32) / CAP_UNIT
        tw = torch.tensor([[[0.0, self._f(i["H"], i["grid"])]]
                           + [[self._f(e, i["grid"]), self._f(l, i["grid"])]
                              for e, l in zip(i["early"], i["late"])] for i in insts],
                          dtype=torch.float32)
        svc = torch.tensor([[0.0] + [s / float(i["grid"]) for s in i["svc"]] for i in insts],
                           dtype=torch.float32)
        lim = torch.tensor([[self._f(i["lim"], i["grid"])] for i in insts], dtype=torch.float32)
        return TensorDict({"locs": locs, "demand_linehaul": lh, "demand_backhaul": bh,
                           "vehicle_capacity": cap,
                           "capacity_original": torch.tensor([[float(i["cap"])] for i in insts]),
                           "open_route": torch.tensor([[bool(i["open"])] for i in insts]),
                           "time_windows": tw, "service_time": svc, "distance_limit": lim,
                           "speed": torch.tensor([[i["speed2"] / 2.0] for i in insts],
                                                 dtype=torch.float32)}, batch_size=[B])

    @staticmethod
    def _int(v, unit):
        v = v * unit
        iv = int(round(v))
        return iv if abs(v - iv) < 1e-6 else -999999     # inexact bookkeeping shows up as drift

    _cache = (None, None)

    def _rows(self, td):
        """the bookkeeping tensors of a whole batch as python lists (project is called row by row)"""
        key = (td["current_node"], td["current_time"], td["visited"])   # _step stores NEW tensors
        old = self._cache[0]
        if old is None or any(x is not y for x, y in zip(old, key)):
            B = td.shape[0]
            self._cache = (key, {
                "cur": td["current_node"].reshape(B, -1)[:, 0].tolist(),
                "t": td["current_time"].reshape(B, -1)[:, 0].double().tolist(),
                "len": td["current_route_length"].reshape(B, -1)[:, 0].double().tolist(),
                "ulh": td["used_capacity_linehaul"].reshape(B, -1)[:, 0].double().tolist(),
                "ubh": td["used_capacity_backhaul"].reshape(B, -1)[:, 0].double().tolist(),
                "visited": td["visited"].tolist()})
        return self._cache[1]

    def project(self, td, r, inst):
        g, d = inst["grid"], self._rows(td)
        return {"cur": int(d["cur"][r]),
                "t": self._int(d["t"][r], g),
                "len": self._int(d["len"][r], g),
                "ulh": self._int(d["ulh"][r], CAP_UNIT),
                "ubh": self._int(d["ubh"][r], CAP_UNIT),
                "visited": [k for k, x in enumerate(d["visited"][r]) if x]}


class MTVRPDecimal(MTVRP):
    """The embedding the bundled generator uses (scale_demand): demand = k / capacity as float32, vehicle capacity 1.0.
    The integer problem (demands k, capacity c) is unchanged; float rounding of partial sums is the code's business.
    Capacity-only variants (CVRP, VRPB); families built around exact fills (a route's demands sum to the capacity)."""
    tag = "mtvrp_decimal"
    properties = ("C01", "C02", "C05", "C06")

    def family(self, tier, seed=0):
        rnd = random.Random(seed)
        insts = []
        N = 4
        pts, g, D = points_for(N + 1, 0, 0)
        caps = (20, 30, 50) if tier == "quick" else (20, 30, 40, 50, 7, 11, 13)
        for cap in caps:
            for k in range(8 if tier == "quick" else 40):
                a = rnd.randint(1, cap - 2)
                b = rnd.randint(1, cap - a - 1)
                c = cap - a - b
                d = rnd.randint(1, min(9, cap))
                dem = [a, b, c, d]
                rnd.shuffle(dem)
                back = k % 2 == 1                      # VRPB: the exact fill is on the backhaul side as well
                if back:
                    # customers 1,2 linehaul (exact fill a+b' = cap), customers 3,4 backhaul (exact fill)
                    x = rnd.randint(1, cap - 1)
                    y = rnd.randint(1, cap - 1)
                    lh, bh = [x, cap - x, 0, 0], [0, 0, y, cap - y]
                else:
                    lh, bh = dem, [0] * N
                i = {"N": N, "D": D, "lh": lh, "bh": bh, "cap": cap, "open": False, "lim": INF, "H": INF,
                     "early": [0] * N, "late": [INF] * N, "svc": [0] * N, "speed2": 2, "pts": pts, "grid": g,
                     "variant": variant_name(0, int(back), 0, 0), "emb": "decimal"}
                if not instance_ok(i):
                    continue
                i["tight"], i["near"] = label(i)
                insts.append(i)
        return with_ids(insts)

    def to_td(self, insts):
        td = super().to_td(insts)
        cap = torch.tensor([[float(i["cap"])] for i in insts], dtype=torch.float32)
        td["demand_linehaul"] = torch.tensor([[0] + i["lh"] for i in insts], dtype=torch.float32) / cap
        td["demand_backhaul"] = torch.tensor([[0] + i["bh"] for i in insts], dtype=torch.float32) / cap
        td["vehicle_capacity"] = cap / cap
        return td

    def project(self, td, r, inst):
        g, d = inst["grid"], self._rows(td)
        return {"cur": int(d["cur"][r]),
                "t": self._int(d["t"][r], g),
                "len": self._int(d["len"][r], g),
                "ulh": int(round(d["ulh"][r] * inst["cap"])),
                "ubh": int(round(d["ubh"][r] * inst["cap"])),
                "visited": [k for k, x in enumerate(d["visited"][r]) if x]}
