"""PDP (PDPEnv): pickups 1..H, deliveries H+1..2H, depot 0.  Both variants of
`force_start_at_depot` are covered by ONE adapter: the variant is a field of the instance
(`force`) and part of group_key, so instances of the two variants never share an env object."""
import torch
from tensordict import TensorDict

from .. import embed
from .base import Adapter, points_for, with_ids


class PDP(Adapter):
    reward_from_actions = True
    name = "pdp"
    module = "PDP"
    pad_steps = 0

    def family(self, tier, seed=0):
        insts = []
        if tier == "quick":
            plan = [(2, 0, 0), (2, 1, 1), (4, 0, 0), (4, 2, 3)]
        else:
            plan = [(2, w, r) for w in range(4) for r in (0, 1)]
            plan += [(4, w, r) for w in range(4) for r in (0, 1, 2, 3, 4)]
            plan += [(6, 0, 0), (6, 1, 2), (6, 2, 4)]
            plan += [(8, 0, 0)]
        for (n, w, rot) in plan:
            pts, g, D = points_for(n + 1, w, rot)
            for force in (False, True):
                insts.append({"N": n, "H": n // 2, "D": D, "force": force, "pts": pts, "grid": g})
        return with_ids(insts)

    def group_key(self, inst):
        return (inst["N"], inst["force"])

    def step_cap(self, inst):
        return inst["N"] + 3

    def close_steps(self, inst):
        return 0

    def make_env(self, inst):
        from rl4co.envs import PDPEnv

        return PDPEnv(generator_params={"num_loc": inst["N"]}, force_start_at_depot=inst["force"],
                      check_solution=False)

    def to_td(self, insts):
        locs = torch.stack([embed.locs_tensor(i["pts"], i["grid"]) for i in insts])
        return TensorDict({"depot": locs[:, 0], "locs": locs[:, 1:]}, batch_size=[len(insts)])

    def project(self, td, r, inst):
        b = td.shape[0]
        return {"cur": int(td["current_node"].reshape(b, -1)[r, 0]),
                "i": int(td["i"].reshape(b, -1)[r, 0]),
                "avail": [int(x) for x in td["available"][r].nonzero().flatten().tolist()],
                "todel": [int(x) for x in td["to_deliver"][r].nonzero().flatten().tolist()]}
