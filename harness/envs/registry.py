"""Which adapters decide which property."""
import importlib

SPECS = [
    ("cvrp", "CVRP"), ("cvrp", "CVRPDecimal"), ("tsp", "TSP"),
    ("atsp", "ATSP"), ("pdp", "PDP"), ("op", "OP"), ("op", "OPBoundary"),
    ("cvrptw", "CVRPTW"), ("svrp", "SVRP"), ("pctsp", "PCTSP"), ("pctsp", "PCTSPReq"), ("spctsp", "SPCTSP"), ("sdvrp", "SDVRP"),
    ("mtvrp", "MTVRP"), ("mtvrp", "MTVRPDecimal"), ("fjsp", "FJSP"), ("fjsp", "JSSP"),
    ("mpdp", "MPDPStart"),
    ("mtsp", "MTSP"), ("mdcpdp", "MDCPDP"), ("mdcpdp", "MDCPDPGen"), ("mdcpdp", "MDCPDPHet"),
    ("smtwtp", "SMTWTP"), ("ffsp", "FFSP"), ("ffsp", "FFSPNoFlatten"),
    ("flp", "FLP"), ("flp", "FLPFull"), ("mcp", "MCP"), ("mcp", "MCPFull"), ("dpp", "DPP"), ("dpp", "MDPP"),
    ("dpp", "DPPGen"), ("dpp", "MDPPGen"),
]

ALL = []
for mod, cls in SPECS:
    try:
        m = importlib.import_module("harness.envs." + mod)
    except ModuleNotFoundError:
        continue
    if not hasattr(m, cls):
        continue
    a = getattr(m, cls)()
    if not hasattr(a, "tag"):
        a.tag = a.name
    ALL.append(a)


def adapters_for(pid):
    return [a for a in ALL if pid in a.properties]
