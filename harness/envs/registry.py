"""Which adapters decide which property."""
from .cvrp import CVRP
from .tsp import TSP

ALL = [CVRP(), TSP()]
for a in ALL:
    if not hasattr(a, "tag"):
        a.tag = a.name


def adapters_for(pid):
    return [a for a in ALL if pid in a.properties]
