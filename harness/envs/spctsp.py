import torch

from .pctsp import PCTSP, PRIZE_UNIT


class SPCTSP(PCTSP):
    """Stochastic PCTSP.  inst: as PCTSP plus real[1..N] = the prize actually received
    (td["stochastic_prize"]); prize[1..N] is the announced / expected prize
    (td["deterministic_prize"]).  The families pair every realised vector with an announced
    vector of very different sums (8 - real), so announced-reaches-the-requirement and
    realised-reaches-the-requirement disagree on most subsets, in both directions."""
    name = "spctsp"
    module = "SPCTSP"
    env_class = "SPCTSPEnv"

    def make_inst(self, N, D, pts, g, prize, other, pen, req):
        # `prize` (from the PCTSP families: exact hits of the requirement) is what is REALISED here
        return {"N": N, "D": D, "prize": other, "real": prize, "pen": pen, "req": req,
                "unit": PRIZE_UNIT, "pts": pts, "grid": g}

    def prize_tensors(self, insts):
        det = torch.tensor([i["prize"] for i in insts], dtype=torch.float32) / PRIZE_UNIT
        sto = torch.tensor([i["real"] for i in insts], dtype=torch.float32) / PRIZE_UNIT
        return det, sto


class SPCTSPReq(SPCTSP):
    tag = "spctsp_req"
    reqs = (4, 12)
