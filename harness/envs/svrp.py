"""SVRP (skill VRP) adapter.

Exact embedding: coordinates = lattice point / grid (integer pairwise distances in grid
units), skill levels / requirements are small integers stored as float32, cost factors are
the integer `tech_costs` of the generator: reward * grid is an integer.

pad_steps = 0: a finished SVRP row is only ever stepped as long as a slower batch-mate runs,
and with equal N and T per batch that is at most T - 1 - (depot visits so far) steps (episode
length is N + depot visits, at most N + T - 1).  Stepping a finished row beyond that makes
current_tech = T and SVRPEnv.get_action_mask raises (index out of bounds) -- not a situation
property C02/C04 quantifies over, so the driver's fixed extra padding is switched off; the
padding that batch-mates really induce is exercised by the batch stage (C04).
"""
import itertools
import random

import torch
from tensordict import TensorDict

from .. import embed
from .base import Adapter, points_for, with_ids


class SVRP(Adapter):
    reward_from_actions = True
    name = "svrp"
    module = "SVRP"
    pad_steps = 0
    properties = ("C01", "C02", "C03", "C04", "C05", "C06")

    def family(self, tier, seed=0):
        rnd = random.Random(2000 + seed)
        insts = []
        if tier == "quick":
            # ((2,), (3,)): a SINGLE technician (the last one from the start: its final return to the depot ends the episode)
            plan = [(3, [(0, 0), (2, 0)], [((1, 2, 3), (1, 2, 3)), ((2, 2, 3), (1, 2, 3)), ((1, 3), (1, 2)), ((2,), (3,))], None)]
        else:
            plan = [(3, [(0, 0), (1, 2), (2, 0)],
                     [((1, 2, 3), (1, 2, 3)), ((2, 2, 3), (1, 2, 3)), ((1, 3, 3), (3, 2, 1)),
                      ((1, 3), (1, 2)), ((2, 2), (2, 5)), ((1, 2, 3, 4), (1, 2, 3, 4)), ((2,), (3,))], None),
                    (4, [(0, 0), (2, 3), (3, 1)],
                     [((1, 2, 3), (1, 2, 3)), ((1, 3), (1, 2)), ((1, 2, 2), (1, 1, 4))], 30)]
        for (N, tmpl, techs, per) in plan:
            for (w, rot) in tmpl:
                pts, g, D = points_for(N + 1, w, rot)
                for (skill, cost) in techs:
                    levels = sorted(set(skill))                 # requirement = some skill level exactly
                    reqs = list(itertools.product(levels, repeat=N))
                    if per is not None and len(reqs) > per:
                        reqs = rnd.sample(reqs, per)
                    for req in reqs:
                        insts.append({"N": N, "T": len(skill), "D": D, "req": list(req),
                                      "skill": list(skill), "cost": list(cost), "pts": pts, "grid": g})
        return with_ids(insts)

    def group_key(self, inst):
        return (inst["N"], inst["T"], tuple(inst["cost"]))

    def step_cap(self, inst):
        return inst["N"] + inst["T"] + 2

    def make_env(self, inst):
        from rl4co.envs import SVRPEnv

        class Guarded(SVRPEnv):
            """The real SVRPEnv.  Only difference: where the real get_action_mask raises for the
            WHOLE batch ("index out of bounds": some row's current_tech ran past the last
            technician) that row is shown with an all-False mask instead, so that the monitors
            can report it as a dead end of that row (C02) instead of the harness crashing.
            Never happens on the unchanged tree within the steps the properties quantify over."""

            @staticmethod
            def get_action_mask(td):
                T = td["techs"].size(-2)
                over = (td["current_tech"] >= T).reshape(td["current_tech"].shape[0], -1).any(-1)
                if not bool(over.any()):
                    return SVRPEnv.get_action_mask(td)
                td2 = td.clone()
                td2["current_tech"] = td["current_tech"].clamp(max=T - 1)
                m = SVRPEnv.get_action_mask(td2)
                m[over] = False
                return m

        return Guarded(generator_params={"num_loc": inst["N"], "tech_costs": list(inst["cost"])},
                       check_solution=False)

    CRASHED = 4096.0     # stands for "the reward function raised" (a real reward is never positive)

    def get_reward(self, env, td, actions):
        """env._get_reward on the whole batch.  If it raises IndexError (technician index past
        tech_costs), rows that also raise alone get CRASHED and the rest is evaluated together
        again; if the rest still raises only as a batch, every row of it gets CRASHED."""
        try:
            return env._get_reward(td, actions)
        except IndexError:
            pass
        B = actions.shape[0]
        out = torch.full((B,), self.CRASHED)
        good = []
        for r in range(B):
            try:
                env._get_reward(td[r:r + 1], actions[r:r + 1])
                good.append(r)
            except IndexError:
                pass
        if good and len(good) < B:
            idx = torch.tensor(good)
            try:
                out[idx] = env._get_reward(td[idx], actions[idx])
            except IndexError:
                pass
        return out

    def check(self, env, td, actions):
        env.check_solution_validity(td, actions)
        if td.shape[0] == 1:
            # the verdict of a row must not depend on its batch-mates: once more behind a copy of itself
            try:
                env.check_solution_validity(torch.cat([td, td], 0), torch.cat([actions, actions], 0))
            except Exception as e:
                raise AssertionError("only when batched behind a copy of itself: " + str(e)[:60])

    def to_td(self, insts):
        locs = torch.stack([embed.locs_tensor(i["pts"], i["grid"]) for i in insts])
        techs = torch.tensor([i["skill"] for i in insts], dtype=torch.float32)[..., None]
        skills = torch.tensor([i["req"] for i in insts], dtype=torch.float32)[..., None]
        return TensorDict({"depot": locs[:, 0], "locs": locs[:, 1:], "techs": techs, "skills": skills},
                          batch_size=[len(insts)])

    def project(self, td, r, inst):
        return {"cur": int(td["current_node"][r, 0]),
                "tech": int(td["current_tech"][r, 0]),
                "visited": [int(i) for i in td["visited"][r, :, 0].nonzero().flatten().tolist()]}
