"""ATSP: the environment takes a cost matrix (no coordinates).  Instances are ASYMMETRIC
integer matrices divided by a power of two, so every sum the code forms is exact in float32
and driving an arc in the wrong direction changes the objective."""
import itertools
import random

import torch
from tensordict import TensorDict

from .base import Adapter, with_ids

UNIT = 16  # cost k -> k / 16


def _matrix(n, rnd, kind):
    """integer cost matrix with pairwise different forward / backward tour costs where possible"""
    for _ in range(1000):
        if kind == "rand":        # arbitrary asymmetric costs (triangle inequality NOT guaranteed)
            D = [[0 if i == j else rnd.randint(1, 15) for j in range(n)] for i in range(n)]
        elif kind == "tmat":      # closed under shortest paths, like the generator's TMAT class
            D = [[0 if i == j else rnd.randint(1, 15) for j in range(n)] for i in range(n)]
            for k in range(n):
                for i in range(n):
                    for j in range(n):
                        D[i][j] = min(D[i][j], D[i][k] + D[k][j])
        elif kind == "oneway":    # cheap in one direction of a ring, expensive in the other
            D = [[0] * n for _ in range(n)]
            for i in range(n):
                for j in range(n):
                    if i != j:
                        D[i][j] = 1 + ((j - i) % n) * (1 + (i % 2)) + rnd.randint(0, 1)
        else:
            raise ValueError(kind)
        if all(D[i][j] != D[j][i] for i in range(n) for j in range(i + 1, n)):
            return D
    raise RuntimeError("no asymmetric matrix found")


class ATSP(Adapter):
    reward_from_actions = True
    name = "atsp"
    module = "ATSP"
    pad_steps = 0

    def family(self, tier, seed=0):
        rnd = random.Random(1000 + seed)
        insts = []
        if tier == "quick":
            plan = {3: ("rand", "oneway"), 4: ("rand", "tmat", "oneway")}
        else:
            plan = {2: ("rand",), 3: ("rand", "tmat", "oneway"), 4: ("rand", "rand", "tmat", "oneway"),
                    5: ("rand", "rand", "tmat", "oneway"), 6: ("rand", "tmat", "oneway"), 7: ("rand",)}
        for n, kinds in plan.items():
            for kind in kinds:
                insts.append({"N": n, "D": _matrix(n, rnd, kind), "grid": UNIT, "kind": kind})
        return with_ids(insts)

    def actions(self, inst):
        return list(range(inst["N"]))

    def step_cap(self, inst):
        return inst["N"] + 2

    def close_steps(self, inst):
        return 0

    def make_env(self, inst):
        from rl4co.envs import ATSPEnv

        return ATSPEnv(generator_params={"num_loc": inst["N"]}, check_solution=False)

    def to_td(self, insts):
        cm = torch.tensor([i["D"] for i in insts], dtype=torch.float32) / float(UNIT)
        return TensorDict({"cost_matrix": cm}, batch_size=[len(insts)])

    def project(self, td, r, inst):
        b = td.shape[0]
        return {"cur": int(td["current_node"].reshape(b, -1)[r, 0]),
                "i": int(td["i"].reshape(b, -1)[r, 0]),
                "first": int(td["first_node"].reshape(b, -1)[r, 0])}
