"""MDCPDP (rl4co.envs.routing.mdcpdp.MDCPDPEnv): nd depots (one vehicle each), P pickup/delivery
pairs, per-vehicle capacity, open/closed routes, reward modes minmax / minsum / lateness
(lateness_square raises NotImplementedError in the code and is not part of the family), L1/L2.
start_mode is "order" (the "random" start draws from the global RNG and is not modelled).

No built-in checker (check_solution_validity is `assert True`): the TLA+ problem definition
(spec/env/MDCPDP.tla PART 1) is the only one.

Instances are hand-made TensorDicts with the generator's keys: depot [B,nd,2], locs [B,2P,2],
capacity, lateness_weight [B,1].  Two capacity layouts (field capfmt):
  "gen"  capacity [B,1]   -- what MDCPDPGenerator documents and emits
  "env"  capacity [B,nd]  -- what MDCPDPEnv._step indexes (`num_depot = td["capacity"].shape[-1]`)
With one depot the two coincide.

Field exec (both kept as coverage; they must behave identically):
  "batch"  the rows of a batch are stepped by ONE real env.step call (what every user gets)
  "row"    the same real env, but every row is stepped as its own batch of one (class _Rowwise).
           Introduced when MDCPDPEnv._step leaked the step length of batch row 0 into every row
           (fixed by "fix: MDCPDP accumulates each instance's own step length"); since that fix the
           model compares lengths and arrival times in both modes.

Three adapters share the module:
  MDCPDP      one depot, or several depots in the "env" layout with equal capacities
  MDCPDPGen   several depots in the generator's own layout (capacity [B,1])
  MDCPDPHet   several depots, "env" layout, different capacities per vehicle
(the last two carry their own `name`, i.e. their own violation classes.  MDCPDPGen exhibits the OPEN
defect `num_depot = td["capacity"].shape[-1]`; MDCPDP and MDCPDPHet are clean since the three fixes
"MDCPDP accumulates each instance's own step length", "MDCPDP tracks the depot of the vehicle that is
currently driving", "MDCPDP charges the last vehicle's way home in closed mode and nothing after
finishing").
"""
import torch
from tensordict import TensorDict

from .. import embed
from .base import Adapter, points_for, with_ids

W_UNIT = 4  # lateness weight w4/4 ; rewards are integers in units of 1/(4*grid)


def _l1_matrix(pts):
    return [[abs(a[0] - b[0]) + abs(a[1] - b[1]) for b in pts] for a in pts]


class _Rowwise:
    """the real environment, every batch row stepped / scored as a batch of one"""

    def __init__(self, env):
        self.env = env

    def reset(self, td):
        return self.env.reset(td)

    def step(self, td):
        outs = [self.env.step(td[r:r + 1].clone())["next"] for r in range(td.shape[0])]
        return {"next": torch.cat(outs, 0)}

    def _get_reward(self, td, actions):
        return torch.cat([self.env._get_reward(td[r:r + 1], actions[r:r + 1]).reshape(1)
                          for r in range(td.shape[0])])


MODES_FULL = [(o, rm, w, d) for o in (1, 0) for (rm, w) in (("minsum", 4), ("minmax", 4), ("lateness", 4), ("lateness", 1))
              for d in ("L2", "L1")]


class MDCPDP(Adapter):
    name = "mdcpdp"
    module = "MDCPDP"
    has_checker = False
    pad_steps = 2
    properties = ("C01", "C02", "C03", "C04", "C05")
    flavour = "main"
    def violation_class(self, inst, monitor):
        return "nd%d/%s/%s/%s/%s" % (inst["nd"], inst["capfmt"], "open" if inst["open"] else "close",
                                     inst["rmode"], inst["exec"])

    # ---- instances -------------------------------------------------------
    def shapes(self, tier):
        """(nd, P, capacity vectors, capfmt)"""
        if tier == "quick":
            return [(1, 2, [[1], [2]], "gen"), (2, 1, [[1, 1]], "env"), (2, 2, [[1, 1], [2, 2]], "env"),
                    (3, 1, [[1, 1, 1]], "env")]
        return [(1, 1, [[1]], "gen"), (1, 2, [[1], [2], [3]], "gen"),
                (2, 1, [[1, 1], [2, 2]], "env"), (2, 2, [[1, 1], [2, 2]], "env"), (3, 1, [[1, 1, 1]], "env")]

    def modes(self, tier, nd, P):
        """(open, rmode, w4, dist, exec)"""
        if tier == "quick":
            row = [(1, "minsum", 4, "L2"), (0, "minmax", 4, "L1"), (1, "lateness", 4, "L2"), (0, "lateness", 1, "L1")]
            bat = [(1, "minsum", 4, "L2"), (0, "minmax", 4, "L1")] if (nd, P) != (2, 1) else []
            # different lateness weights in ONE real batch (same group): per-row reads of td["lateness_weight"]
            bat = bat + [(1, "lateness", 4, "L2"), (1, "lateness", 1, "L2")]
            if nd == 3:
                row, bat = row[:2], []
            return [m + ("row",) for m in row] + [m + ("batch",) for m in bat]
        return [m + (e,) for m in MODES_FULL for e in ("row", "batch")]

    def geoms(self, tier, M):
        return [(0, 0)] if tier == "quick" else [(0, 0), (1, 1)]

    def family(self, tier, seed=0):
        insts = []
        for (nd, P, caps, capfmt) in self.shapes(tier):
            M = nd + 2 * P
            for (w, rot) in self.geoms(tier, M):
                pts, g, D2 = points_for(M, w, rot)
                D1 = _l1_matrix(pts)
                for cap in caps:
                    for (op, rm, w4, dist, ex) in self.modes(tier, nd, P):
                        insts.append({"N": M - 1, "nd": nd, "P": P, "cap": list(cap), "capfmt": capfmt,
                                      "open": op, "rmode": rm, "w4": w4, "dist": dist, "exec": ex,
                                      "D": D2 if dist == "L2" else D1, "pts": pts, "grid": g})
        return with_ids(insts)

    def group_key(self, inst):
        # capacity and lateness weight are per-row data
        return (inst["nd"], inst["P"], inst["capfmt"], inst["open"], inst["rmode"], inst["dist"], inst["exec"])

    def scale(self, inst):
        return inst["grid"] * W_UNIT

    def step_cap(self, inst):
        return 2 * inst["P"] + 2 * inst["nd"] + 2

    def close_steps(self, inst):
        return 2 * inst["nd"]

    # ---- real environment ------------------------------------------------
    def make_env(self, inst):
        from rl4co.envs.routing.mdcpdp.env import MDCPDPEnv

        # the env object keeps no episode state (everything lives in the TensorDict): one per group
        key = self.group_key(inst)
        cache = self.__dict__.setdefault("_envs", {})
        if key not in cache:
            cache[key] = self._new_env(MDCPDPEnv, inst)
        return cache[key]

    def _new_env(self, MDCPDPEnv, inst):
        env = MDCPDPEnv(generator_params={"num_loc": 2 * inst["P"], "num_depot": inst["nd"]},
                        dist_mode=inst["dist"], reward_mode=inst["rmode"],
                        problem_mode="open" if inst["open"] else "close", start_mode="order",
                        check_solution=False)
        return _Rowwise(env) if inst["exec"] == "row" else env

    def to_td(self, insts):
        locs = torch.stack([embed.locs_tensor(i["pts"], i["grid"]) for i in insts])
        nd = insts[0]["nd"]
        if insts[0]["capfmt"] == "gen":
            cap = torch.tensor([[i["cap"][0]] for i in insts], dtype=torch.int64)
        else:
            cap = torch.tensor([i["cap"] for i in insts], dtype=torch.int64)
        w = torch.tensor([[i["w4"] / W_UNIT] for i in insts], dtype=torch.float32)
        return TensorDict({"depot": locs[:, :nd], "locs": locs[:, nd:], "capacity": cap,
                           "lateness_weight": w}, batch_size=[len(insts)])

    def project(self, td, r, inst):
        g = inst["grid"]
        return {"cur": int(td["current_node"][r, 0]), "cd": int(td["current_depot"][r, 0]),
                "carry": int(td["current_carry"][r, 0]),
                "avail": [int(i) for i in td["available"][r].nonzero().flatten().tolist()],
                "todel": [int(i) for i in td["to_deliver"][r].nonzero().flatten().tolist()],
                "len": [_units(x, g) for x in td["current_length"][r].tolist()],
                "arr": [_units(x, g) for x in td["arrivetime_record"][r].tolist()]}

    def close_choice(self, td):
        # bring the vehicle home / start the remaining (idle) vehicles: the first offered action
        return td["action_mask"].int().argmax(-1)

    def get_reward(self, env, td, actions):
        return env._get_reward(td, actions).reshape(td.shape[0])

    def check(self, env, td, actions):
        raise NotImplementedError   # MDCPDPEnv.check_solution_validity is `assert True`


class MDCPDPGen(MDCPDP):
    """several depots handed over in the generator's documented layout capacity [B,1]"""
    name = tag = "mdcpdp_gen"      # own name = own violation classes
    flavour = "gen"

    def violation_class(self, inst, monitor):
        # one stable class: every violation here is the open defect num_depot = capacity.shape[-1]
        return "capacity-B1-several-depots"

    def shapes(self, tier):
        if tier == "quick":
            return [(2, 1, [[1, 1]], "gen"), (2, 2, [[1, 1]], "gen")]
        return [(2, 1, [[1, 1]], "gen"), (2, 2, [[1, 1], [2, 2]], "gen"), (3, 1, [[1, 1, 1]], "gen")]

    def modes(self, tier, nd, P):
        return [(1, "minsum", 4, "L2", "row"), (0, "minsum", 4, "L1", "row"), (1, "minsum", 4, "L2", "batch")]


class MDCPDPHet(MDCPDP):
    """several depots, capacity [B,nd] with different capacities per vehicle"""
    name = tag = "mdcpdp_het"
    flavour = "het"

    def shapes(self, tier):
        if tier == "quick":
            return [(2, 2, [[1, 2], [2, 1]], "env")]
        return [(2, 2, [[1, 2], [2, 1]], "env"), (3, 1, [[1, 2, 1]], "env"), (2, 1, [[2, 1]], "env")]

    def modes(self, tier, nd, P):
        return [(1, "minsum", 4, "L2", "row"), (0, "minmax", 4, "L1", "batch"), (0, "lateness", 1, "L2", "batch")]


def _units(x, g):
    v = float(x) * g
    iv = int(round(v))
    return iv if abs(v - iv) < 1e-3 else -1
