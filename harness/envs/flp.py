"""FLP (facility location, rl4co.envs.graph.flp).

Instances: N locations on integer-distance point templates (exact in float32), quota K
(`to_choose`, a PER-ROW tensor in the generator format), hand-made TensorDicts in the
generator format (locs, orig_distances, distances, chosen, to_choose).

Two adapters, because a finished FLP row can only be stepped N-K more times (its mask is
"not chosen yet", nothing else) and a batch-mate (same N) can be at most N-K steps slower:
  FLP      K <= N-2, pad_steps = 1 : finished rows are stepped on (mixed quotas in one batch)
  FLPFull  K in {N-1, N}, pad_steps = 0 : boundary quotas; no post-finish stepping in the
           single-episode stage (the batch stage still mixes K = N-1 with K = N rows).
"""
import torch
from tensordict import TensorDict

from .. import driver, embed
from .base import Adapter, with_ids

BAD = -999999  # logged instead of a feature value that is not an exact integer multiple of 1/grid
DIST0 = 4      # "distances" placeholder before anything is chosen, in units of 1 (generator: sqrt(2)*(max-min))

# collinear layouts (all distances integral) with coincident locations / ties
LINES = {
    4: [[(0, 3), (4, 3), (4, 3), (16, 3)]],
    5: [[(0, 3), (4, 3), (8, 3), (8, 3), (16, 3)], [(2, 3), (2, 3), (6, 3), (10, 3), (14, 3)]],
    6: [[(0, 3), (3, 3), (6, 3), (6, 3), (12, 3), (16, 3)]],
    7: [[(0, 3), (2, 3), (5, 3), (9, 3), (9, 3), (14, 3), (16, 3)]],
}


def exact_int(x, scale):
    v = float(x) * scale
    iv = int(round(v))
    return iv if abs(v - iv) < 1e-4 else BAD


def layouts(n, tier):
    out = []
    nt = 2 if tier == "quick" else 4
    for w in range(nt):
        for rot in ((0,) if tier == "quick" else (0, 2)):
            if n > 6 or (n == 6 and w >= 2):      # only two 6-point templates; 7: lines only
                continue
            pts, g = embed.template(n, w, rot)
            out.append((pts, g))
    for pts in LINES.get(n, [])[: (1 if tier == "quick" else 9)]:
        out.append((pts, 16))
    return out


class FLP(Adapter):
    name = "flp"
    module = "FLP"
    has_checker = False
    pad_steps = 1
    properties = ("C02", "C03", "C04", "C05", "C08")
    monitor_props = {"Step": "C08", "Final": "C08"}
    sizes = {"quick": (4, 5), "thorough": (4, 5, 6, 7)}

    def quotas(self, n):
        return range(1, n - 1)          # K <= N-2 (see module docstring)

    def family(self, tier, seed=0):
        insts = []
        for n in self.sizes[tier]:
            for (pts, g) in layouts(n, tier):
                D = embed.dist_matrix(pts)
                for k in self.quotas(n):
                    if k < 1:
                        continue
                    insts.append({"N": n, "K": k, "D": D, "dist0": DIST0 * g,
                                  "pts": [list(p) for p in pts], "grid": g})
        return with_ids(insts)

    def group_key(self, inst):
        return (inst["N"],)             # rows with DIFFERENT quotas share one batch

    def actions(self, inst):
        return list(range(inst["N"]))

    def step_cap(self, inst):
        return inst["K"] + 2

    def close_steps(self, inst):
        return 0

    def make_env(self, inst):
        from rl4co.envs.graph import FLPEnv

        # tiny tensors: intra-op threads only cost (the .min(dim=1) of FLPEnv._step took 50 ms
        # per call on a loaded 16-core box with the default thread pool)
        torch.set_num_threads(1)
        return FLPEnv(generator_params={"num_loc": inst["N"], "to_choose": inst["K"]},
                      check_solution=False)

    def to_td(self, insts):
        from rl4co.utils.ops import get_distance_matrix

        n = insts[0]["N"]
        locs = torch.stack([embed.locs_tensor(i["pts"], i["grid"]) for i in insts])
        orig = torch.stack([torch.tensor(i["D"], dtype=torch.float32) / float(i["grid"]) for i in insts])
        # the generator computes orig_distances with get_distance_matrix(locs): same values here (exact)
        assert torch.equal(get_distance_matrix(locs), orig)
        return TensorDict({"locs": locs, "orig_distances": orig,
                           "distances": torch.full((len(insts), n), float(DIST0), dtype=torch.float32),
                           "chosen": torch.zeros(len(insts), n, dtype=torch.bool),
                           "to_choose": torch.tensor([i["K"] for i in insts], dtype=torch.long)},
                          batch_size=[len(insts)])

    def project(self, td, r, inst):
        return {"i": int(td["i"].reshape(td.shape[0], -1)[r, 0]),
                "done": bool(driver.done_of(td)[r]),
                "chosen": [int(x) for x in td["chosen"][r].nonzero().flatten().tolist()],
                "dist": [exact_int(x, inst["grid"]) for x in td["distances"][r].tolist()]}


class FLPFull(FLP):
    """boundary quotas K = N-1 and K = N (everything, or all but one, is chosen)"""
    tag = "flp_full"
    pad_steps = 0
    sizes = {"quick": (3, 4), "thorough": (3, 4, 5, 6)}

    def quotas(self, n):
        return (n - 1, n)
