"""FLP (facility location, rl4co.envs.graph.flp).

Instances: N locations on integer-distance point templates (exact in float32), quota K
(`to_choose`, a PER-ROW tensor in the generator format), hand-made TensorDicts in the
generator format (locs, orig_distances, distances, chosen, to_choose).

One adapter for all quotas 1..N, pad_steps = 2.  Since the fix "FLP/MCP instances that reached
their quota ignore further (padding) selections" a finished row accepts any action and keeps its
selection, so it can be stepped on for as long as slower batch-mates need.
(FORMER behaviour: action_mask = ~chosen also for finished rows; every padding step added a
facility and changed the reward of the finished row whenever quotas differed inside a batch.
This is what M_PadC04 and the batch stage (solo vs mixed-quota batches) keep watching: rows
with DIFFERENT quotas share every batch.  There used to be a second adapter FLPFull for
K >= N-1, because such rows ran out of un-chosen locations while being padded.)
"""
import torch
from tensordict import TensorDict

from .. import driver, embed
from .base import Adapter, with_ids

BAD = -999999  # logged instead of a feature value that is not an exact integer multiple of 1/grid
DIST0 = 4      # "distances" placeholder before anything is chosen, in units of 1 (generator: sqrt(2)*(max-min))

# collinear layouts (all distances integral) with coincident locations / ties
LINES = {
    4: [[(0, 3), (4, 3), (4, 3), (16, 3)]],
    5: [[(0, 3), (4, 3), (8, 3), (8, 3), (16, 3)], [(2, 3), (2, 3), (6, 3), (10, 3), (14, 3)]],
    6: [[(0, 3), (3, 3), (6, 3), (6, 3), (12, 3), (16, 3)]],
    7: [[(0, 3), (2, 3), (5, 3), (9, 3), (9, 3), (14, 3), (16, 3)]],
}


def exact_int(x, scale):
    v = float(x) * scale
    if v != v or abs(v) > 2 ** 30:      # nan / inf / out of TLC's integer range
        return BAD
    iv = int(round(v))
    return iv if abs(v - iv) < 1e-4 else BAD


def layouts(n, tier):
    out = []
    nt = 2 if tier == "quick" else 4
    for w in range(nt):
        for rot in ((0,) if tier == "quick" else (0, 2)):
            if n > 6 or (n == 6 and w >= 2):      # only two 6-point templates; 7: lines only
                continue
            pts, g = embed.template(n, w, rot)
            out.append((pts, g))
    for pts in LINES.get(n, [])[: (1 if tier == "quick" else 9)]:
        out.append((pts, 16))
    # locations OUTSIDE the unit square (hand-supplied raw coordinates, normal / custom samplers): distances exceed
    # the generator's initial "distances" fill value sqrt(2)*(max_loc-min_loc), so bookkeeping that starts a running
    # minimum from that placeholder is exposed
    if n <= 6 and not (n == 6):
        pts, g = embed.template(n, 0, 0)
        out.append((pts, 2))
    return out


class FLP(Adapter):
    name = "flp"
    module = "FLP"
    has_checker = False
    pad_steps = 2
    properties = ("C02", "C03", "C04", "C05", "C08")
    monitor_props = {"Step": "C08", "Final": "C08"}
    sizes = {"quick": (3, 4, 5), "thorough": (3, 4, 5, 6, 7)}

    def quotas(self, n, tier):
        if tier == "quick" and n >= 5:
            return (1, 2, 3)
        return range(1, min(n, 5) + 1)          # every quota up to K = N (N = 7: K <= 5)

    def family(self, tier, seed=0):
        insts = []
        for n in self.sizes[tier]:
            for (pts, g) in layouts(n, tier):
                D = embed.dist_matrix(pts)
                for k in self.quotas(n, tier):
                    if k < 1:
                        continue
                    insts.append({"N": n, "K": k, "D": D, "dist0": DIST0 * g,
                                  "pts": [list(p) for p in pts], "grid": g})
        return with_ids(insts)

    def group_key(self, inst):
        # rows with DIFFERENT quotas share one batch.  K = N rows get their own batch: they are
        # the slowest rows anyway (nobody is padded because of them that is not already padded
        # as long in the other batch), and under the FORMER code a K = N row stepped once more had
        # no un-chosen location left and crashed _step (.view) -- a regression must show up as a
        # C04 verdict of the mixed-quota batches, not as a crash of the harness
        return (inst["N"], inst["K"] == inst["N"])

    def actions(self, inst):
        return list(range(inst["N"]))

    def step_cap(self, inst):
        return inst["K"] + 2

    def close_steps(self, inst):
        return 0

    def make_env(self, inst):
        from rl4co.envs.graph import FLPEnv

        # tiny tensors: intra-op threads only cost (the .min(dim=1) of FLPEnv._step took 50 ms
        # per call on a loaded 16-core box with the default thread pool)
        torch.set_num_threads(1)
        return FLPEnv(generator_params={"num_loc": inst["N"], "to_choose": inst["K"]},
                      check_solution=False)

    def to_td(self, insts):
        from rl4co.utils.ops import get_distance_matrix

        n = insts[0]["N"]
        locs = torch.stack([embed.locs_tensor(i["pts"], i["grid"]) for i in insts])
        orig = torch.stack([torch.tensor(i["D"], dtype=torch.float32) / float(i["grid"]) for i in insts])
        # the generator computes orig_distances with get_distance_matrix(locs): same values here (exact). Should the library
        # function deliver something else, the environment is run on what the generator would deliver (what a user gets)
        lib = get_distance_matrix(locs)
        if not torch.equal(lib, orig):
            orig = lib
        return TensorDict({"locs": locs, "orig_distances": orig,
                           "distances": torch.full((len(insts), n), float(DIST0), dtype=torch.float32),
                           "chosen": torch.zeros(len(insts), n, dtype=torch.bool),
                           "to_choose": torch.tensor([i["K"] for i in insts], dtype=torch.long)},
                          batch_size=[len(insts)])

    def scale_reward(self, r, scale):
        # a selection that ends up empty gives reward -inf: keep it a (wrong) integer so that the
        # C03 monitor reports it instead of the harness overflowing
        if r != r or abs(r) == float("inf"):
            return BAD
        return Adapter.scale_reward(self, r, scale)

    def project(self, td, r, inst):
        return {"i": int(td["i"].reshape(td.shape[0], -1)[r, 0]),
                "done": bool(driver.done_of(td)[r]),
                "chosen": [int(x) for x in td["chosen"][r].nonzero().flatten().tolist()],
                "dist": [exact_int(x, inst["grid"]) for x in td["distances"][r].tolist()]}
