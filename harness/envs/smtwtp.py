import itertools
import random

import torch
from tensordict import TensorDict

from .base import Adapter, with_ids

T_UNIT = 8   # processing time / due date k -> k/8   (dyadic: float arithmetic is exact)
W_UNIT = 4   # weight k -> k/4 ; reward unit = 1/(T_UNIT*W_UNIT)


class SMTWTP(Adapter):
    """Single machine total weighted tardiness (rl4co.envs.scheduling.smtwtp).
    Action 0 is the dummy start job (never offered), jobs are 1..N."""
    name = "smtwtp"
    module = "SMTWTP"
    pad_steps = 0          # fixed-length episodes: all rows finish at step N
    has_checker = False    # SMTWTPEnv.check_solution_validity is a stub ("not implemented", accepts all)
    properties = ("C02", "C03", "C04", "C05", "C07")
    monitor_props = {"Final": "C07", "Step": "C07"}

    def family(self, tier, seed=0):
        insts = []

        def add(p, d, w):
            insts.append({"N": len(p), "p": list(p), "d": list(d), "w": list(w),
                          "grid": T_UNIT * W_UNIT})

        # hand-made boundary instances: completion == due date (tardiness exactly 0),
        # zero weights / zero processing times / due date 0, one job
        add((2,), (2,), (3,))
        add((2,), (1,), (3,))
        add((1, 2), (1, 3), (1, 2))          # order 1,2 meets both due dates with equality
        add((1, 2), (3, 2), (2, 1))
        add((0, 2, 1), (0, 2, 3), (1, 0, 2))
        add((3, 1, 2), (0, 0, 0), (1, 2, 3))  # everything late
        add((1, 1, 1), (7, 7, 7), (1, 2, 3))  # nothing late
        if tier == "quick":
            ps = list(itertools.product((1, 2), repeat=3))
            ds = [(1, 3, 4), (2, 2, 5), (3, 1, 2), (4, 5, 3)]
            ws = [(1, 2, 1), (2, 1, 3)]
            for p in ps:
                for d in ds:
                    for w in ws:
                        add(p, d, w)
            add((2, 1, 3, 1), (3, 1, 7, 4), (1, 3, 2, 2))
        else:
            for p in itertools.product((1, 2, 3), repeat=3):
                for d in itertools.product((1, 3, 5), repeat=3):
                    for w in ((1, 2, 1), (2, 1, 3), (1, 1, 0)):
                        add(p, d, w)
            rnd = random.Random(seed)
            for n, cnt in ((4, 120), (5, 12)):
                for _ in range(cnt):
                    p = [rnd.randint(0, 4) for _ in range(n)]
                    # due dates inside the range of completion times (so equality cases occur)
                    d = [rnd.randint(0, sum(p)) for _ in range(n)]
                    w = [rnd.randint(0, 3) for _ in range(n)]
                    add(p, d, w)
        return with_ids(insts)

    def step_cap(self, inst):
        return inst["N"] + 2

    def close_steps(self, inst):
        return 0

    def make_env(self, inst):
        from rl4co.envs import SMTWTPEnv

        return SMTWTPEnv(generator_params={"num_job": inst["N"]}, check_solution=False)

    def to_td(self, insts):
        def col(key, unit):
            return torch.tensor([[0] + i[key] for i in insts], dtype=torch.float32) / unit

        return TensorDict({"job_due_time": col("d", T_UNIT),
                           "job_weight": col("w", W_UNIT),
                           "job_process_time": col("p", T_UNIT)}, batch_size=[len(insts)])

    def project(self, td, r, inst):
        t = float(td["current_time"].reshape(td.shape[0], -1)[r, 0]) * T_UNIT
        return {"cur": int(td["current_job"].reshape(td.shape[0], -1)[r, 0]),
                "time": int(round(t)) if abs(t - round(t)) < 1e-6 else -999999}     # inexact bookkeeping shows up as drift
