"""mTSP (rl4co.envs.routing.mtsp.MTSPEnv): customers 1..N, depot 0, m agents, both cost types.

No built-in checker (check_solution_validity is `assert True`): the TLA+ problem definition
(spec/env/MTSP.tla PART 1) is the only one.

Reward path: `env._get_reward(td, actions)` --
  minmax  reads td["reward"] (= -max_subtour_length written by the last _step),
  sum     gathers locs by the actions with `expand_as(locs)`; that RAISES unless the number of
          actions equals num_loc.  A raise is logged as the sentinel reward CRASH (999999999 integer
          units, the same constant as MTSP.tla CrashReward) so that the C03 / C04 monitors see
          "no correct reward was reported" instead of the pipeline dying.
"""
import torch
from tensordict import TensorDict

from .. import embed
from .base import Adapter, points_for, with_ids

CRASH = 999999999


class MTSP(Adapter):
    name = "mtsp"
    module = "MTSP"
    has_checker = False
    pad_steps = 2
    properties = ("C01", "C02", "C03", "C04", "C05")
    # NOTE the Solo MODEL itself fails invariant C03 on cost_type="sum" instances (it transcribes
    # the code's "same as TSP" reward): reported by the pipeline as a model-invariant note next to the
    # real-code C03 verdicts.

    def violation_class(self, inst, monitor):
        return inst["variant"]

    def family(self, tier, seed=0):
        insts = []
        if tier == "quick":
            shapes = [(3, w, r) for w in (0, 2) for r in (0,)] + [(4, 1, 1)]
        else:
            shapes = ([(3, w, r) for w in range(4) for r in (0, 2)]
                      + [(4, w, r) for w in range(4) for r in (0, 1, 3)]
                      + [(5, w, r) for w in range(2) for r in (0, 2)])
        for (n, w, rot) in shapes:
            pts, g, D = points_for(n + 1, w, rot)
            for variant in ("minmax", "sum"):
                # m = 1 (plain TSP from the depot) .. m = N (every customer its own sub-tour) and
                # one more agent than customers (the bound on depot returns is not reachable)
                for m in (range(1, n + 2) if n == 3 else (1, 2, 3)):
                    insts.append({"N": n, "m": m, "D": D, "variant": variant, "pts": pts, "grid": g})
        return with_ids(insts)

    def group_key(self, inst):
        # num_agents is per-row data: rows with different m share one batch (mixed finishing steps)
        return (inst["N"], inst["variant"])

    def step_cap(self, inst):
        return inst["N"] + inst["m"] + 2

    def close_steps(self, inst):
        return 0

    def make_env(self, inst):
        from rl4co.envs import MTSPEnv

        return MTSPEnv(generator_params={"num_loc": inst["N"] + 1}, cost_type=inst["variant"],
                       check_solution=False)

    def to_td(self, insts):
        locs = torch.stack([embed.locs_tensor(i["pts"], i["grid"]) for i in insts])
        m = torch.tensor([i["m"] for i in insts], dtype=torch.int64)
        return TensorDict({"locs": locs, "num_agents": m}, batch_size=[len(insts)])

    def project(self, td, r, inst):
        g = inst["grid"]
        return {"cur": int(td["current_node"][r]), "agent": int(td["agent_idx"][r]),
                "i": int(td["i"][r]),
                "clen": _units(td["current_length"][r], g), "mlen": _units(td["max_subtour_length"][r], g)}

    def get_reward(self, env, td, actions):
        n = td.shape[0]
        try:
            return env._get_reward(td, actions).reshape(n)
        except RuntimeError:
            out = []
            for r in range(n):
                try:
                    out.append(float(env._get_reward(td[r:r + 1], actions[r:r + 1]).reshape(1)[0]))
                except RuntimeError:
                    out.append(float("nan"))
            return torch.tensor(out, dtype=torch.float64)

    def check(self, env, td, actions):
        raise NotImplementedError   # MTSPEnv.check_solution_validity is `assert True`

    def scale_reward(self, r, scale):
        if r != r:
            return CRASH
        return super().scale_reward(r, scale)


def _units(x, g):
    v = float(x) * g
    iv = int(round(v))
    return iv if abs(v - iv) < 1e-3 else -1
