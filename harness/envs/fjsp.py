"""Adapters for the scheduling environments FJSPEnv and JSSPEnv (spec/env/FJSP.tla, JSSP.tla).

Instances are hand-made TensorDicts in the generators' output format
(start_op_per_job, end_op_per_job [B, J] int64; proc_times [B, M, P] float32 with
0 = machine not eligible; pad_mask [B, P] bool).  Processing times are small integers,
so every time the environment computes (sums of integers < 2^24) is exact in float32.

One group (= one env object, one batch) holds instances with the same (J, M, P, mode):
rows with different numbers of operations (padded rows) sit next to unpadded ones, both in
the exhaustive expansion and in the batch stage (C04).
"""
import itertools
import random

import torch
from tensordict import TensorDict

from .base import Adapter, with_ids

DURS2 = [(1, 0), (0, 1), (2, 0), (0, 2), (1, 1), (1, 2), (2, 1), (2, 2)]      # (machine 1, machine 2)
DURS2_MORE = DURS2 + [(3, 0), (0, 3), (3, 1), (1, 3), (2, 3), (3, 2)]
SINGLE2 = [(1, 0), (0, 1), (2, 0), (0, 2), (3, 0), (0, 3)]                    # JSSP: one eligible machine


def _inst(J, M, P, nops, cols, wait, jssp):
    """cols: one tuple of M processing times per real operation (flat numbering)"""
    n = sum(nops)
    assert len(cols) == n and n <= P and len(nops) == J
    pt = [[cols[o][m] if o < n else 0 for o in range(P)] for m in range(M)]
    return {"N": n, "J": J, "M": M, "P": P, "nops": list(nops), "pt": pt,
            "wait": bool(wait), "jssp": bool(jssp), "grid": 1}


def _columns(rnd, n, pool, how_many, fixed=()):
    """`how_many` distinct duration patterns for n operations: the hand-picked ones first"""
    out, seen = [], set()
    for c in list(fixed):
        if len(c) == n and tuple(c) not in seen:
            seen.add(tuple(c))
            out.append(tuple(c))
    total = len(pool) ** n
    if total <= how_many:
        for c in itertools.product(pool, repeat=n):
            if c not in seen:
                seen.add(c)
                out.append(c)
        return out
    guard = 0
    while len(out) < how_many and guard < 100 * how_many:
        guard += 1
        c = tuple(rnd.choice(pool) for _ in range(n))
        if c not in seen:
            seen.add(c)
            out.append(c)
    return out


class FJSP(Adapter):
    name = "fjsp"
    module = "FJSP"
    jssp = False
    has_checker = False
    has_truth = True
    pad_steps = 2
    properties = ("C02", "C03", "C04", "C07")
    monitor_props = {"Final": "C07", "Step": "C07"}

    # ---- instances -------------------------------------------------------
    def _pool(self, tier):
        return DURS2 if tier == "quick" else DURS2_MORE

    def _hand(self, n):
        """boundary patterns: everything on one machine (clock must move by itself), equal
        completion times on both machines, an operation that ends exactly when another
        machine frees, fully flexible with different speeds"""
        if self.jssp:
            base = [[(1, 0)] * n, [(0, 2)] * n,
                    [((1, 0), (0, 1))[o % 2] for o in range(n)],
                    [((2, 0), (0, 1))[o % 2] for o in range(n)],
                    [((0, 1), (0, 1), (2, 0))[o % 3] for o in range(n)]]
        else:
            base = [[(1, 1)] * n, [(2, 2)] * n, [(1, 0)] * n, [(0, 2)] * n,
                    [((1, 2), (2, 1))[o % 2] for o in range(n)],
                    [((2, 0), (1, 1))[o % 2] for o in range(n)],
                    [((1, 0), (0, 1))[o % 2] for o in range(n)],
                    [((2, 1), (0, 1), (1, 2))[o % 3] for o in range(n)]]
        return [tuple(b) for b in base]

    def _shapes(self, tier):
        """(J, M, P, [ops per job ...], patterns per shape)"""
        if tier == "quick":
            return [(2, 2, 4, [(1, 1), (2, 1), (1, 2), (2, 2)], 6),
                    (3, 2, 6, [(1, 1, 1), (2, 1, 1)], 3)]
        return [(2, 2, 4, [(1, 1), (2, 1), (1, 2), (2, 2)], 40),
                (3, 2, 6, [(1, 1, 1), (2, 1, 1), (1, 1, 2), (1, 2, 1), (2, 2, 1), (2, 2, 2)], 6),
                (2, 2, 6, [(3, 3), (3, 1), (1, 2)], 6)]

    def family(self, tier, seed=0):
        rnd = random.Random(1000 + seed)
        insts = []
        for (J, M, P, shapes, k) in self._shapes(tier):
            for nops in shapes:
                n = sum(nops)
                kk = k if n <= 4 else max(2, k // 2) if n <= 5 else max(2, k // 3)
                pool = (SINGLE2 if tier != "quick" else SINGLE2[:4]) if self.jssp else self._pool(tier)
                for cols in _columns(rnd, n, pool, kk + len(self._hand(n)) if tier != "quick" else kk,
                                     fixed=self._hand(n)):
                    for wait in (False, True):
                        insts.append(_inst(J, M, P, nops, cols, wait, self.jssp))
        return with_ids(insts)

    def group_key(self, inst):
        return (inst["J"], inst["M"], inst["P"], inst["wait"])

    def actions(self, inst):
        return list(range((inst["J"] if self.jssp else inst["J"] * inst["M"]) + 1))

    def step_cap(self, inst):
        return 2 * inst["N"] + 2

    def close_steps(self, inst):
        return 0

    # ---- real environment --------------------------------------------------
    def make_env(self, inst):
        from rl4co.envs.scheduling.fjsp.env import FJSPEnv

        env = FJSPEnv(generator_params={"num_jobs": inst["J"], "num_machines": inst["M"],
                                        "min_ops_per_job": 1,
                                        "max_ops_per_job": -(-inst["P"] // inst["J"])},
                      mask_no_ops=not inst["wait"])
        self._env = env
        return env

    def to_td(self, insts):
        so, eo, pm = [], [], []
        for i in insts:
            s, e, c = [], [], 0
            for n in i["nops"]:
                s.append(c)
                e.append(c + n - 1)
                c += n
            so.append(s)
            eo.append(e)
            pm.append([o >= c for o in range(i["P"])])
        return TensorDict({"start_op_per_job": torch.tensor(so, dtype=torch.int64),
                           "end_op_per_job": torch.tensor(eo, dtype=torch.int64),
                           "proc_times": torch.tensor([i["pt"] for i in insts], dtype=torch.float32),
                           "pad_mask": torch.tensor(pm, dtype=torch.bool)},
                          batch_size=[len(insts)])

    @staticmethod
    def _ints(t):
        return [int(round(float(x))) for x in t.flatten().tolist()]

    def _schedule(self, td, r):
        return {"start": self._ints(td["start_times"][r]),
                "finish": self._ints(td["finish_times"][r]),
                "ma": [self._ints(row) for row in td["ma_assignment"][r]]}

    def project(self, td, r, inst):
        st = self._schedule(td, r)
        st.update({"time": int(round(float(td["time"][r]))),
                   "busy": self._ints(td["busy_until"][r]),
                   "nxt": [int(x) for x in td["next_op"][r].tolist()],
                   "inproc": [bool(x) for x in td["job_in_process"][r].tolist()],
                   "jdone": [bool(x) for x in td["job_done"][r].tolist()],
                   "pt": [self._ints(row) for row in td["proc_times"][r]]})
        return st

    def final(self, td, r, inst):
        fin = self._schedule(td, r)
        rew = self.get_reward(self._env, td[r:r + 1], None)
        fin["makespan"] = int(round(-float(rew[0])))
        return fin

    def get_reward(self, env, td, actions):
        """FJSPEnv._get_reward asserts that every row is done; unfinished rows (possible
        only when a replayed solution does not finish) get 0 and are reported separately"""
        dn = td["done"].reshape(td.shape[0], -1).all(-1)
        if bool(dn.all()):
            return env._get_reward(td, actions)
        out = torch.zeros(td.shape[0])
        for r in range(td.shape[0]):
            if bool(dn[r]):
                out[r] = env._get_reward(td[r:r + 1], None)[0]
        return out


class JSSP(FJSP):
    name = "jssp"
    module = "JSSP"
    jssp = True

    def make_env(self, inst):
        from rl4co.envs.scheduling.jssp.env import JSSPEnv

        env = JSSPEnv(generator_params={"num_jobs": inst["J"], "num_machines": inst["M"],
                                        "min_ops_per_job": 1,
                                        "max_ops_per_job": -(-inst["P"] // inst["J"]),
                                        "one2one_ma_map": False},
                      mask_no_ops=not inst["wait"])
        self._env = env
        return env
