"""Adapters for the scheduling environments FJSPEnv and JSSPEnv (spec/env/FJSP.tla, JSSP.tla).

Instances are hand-made TensorDicts in the generators' output format
(start_op_per_job, end_op_per_job [B, J] int64; proc_times [B, M, P] float32 with
0 = machine not eligible; pad_mask [B, P] bool).  Processing times are small integers,
so every time the environment computes (sums of integers < 2^24) is exact in float32.

One group (= one env object, one batch) holds instances with the same (J, M, P, mode):
rows with different numbers of operations (padded rows) sit next to unpadded ones, both in
the exhaustive expansion and in the batch stage (C04).
"""
import itertools
import random

import torch
from tensordict import TensorDict

from .base import Adapter, with_ids


def _inst(J, M, P, nops, cols, wait, jssp, padcol=None):
    """cols: one tuple of M processing times per real operation (flat numbering);
    padcol: what the padded columns hold (FJSPGenerator: zeros; JSSPGenerator leaves random
    processing times on one machine there)"""
    n = sum(nops)
    assert len(cols) == n and n <= P and len(nops) == J and all(len(c) == M for c in cols)
    assert all(any(d > 0 for d in c) for c in cols)
    padcol = padcol or (0,) * M
    pt = [[cols[o][m] if o < n else padcol[m] for o in range(P)] for m in range(M)]
    return _inst_pt(J, M, P, nops, pt, wait, jssp)


def _inst_pt(J, M, P, nops, pt, wait, jssp):
    return {"N": sum(nops), "J": J, "M": M, "P": P, "nops": list(nops), "pt": pt,
            "wait": bool(wait), "jssp": bool(jssp), "grid": 1}


def _columns(rnd, n, pool, how_many, fixed=()):
    """`how_many` distinct duration patterns for n operations: the hand-picked ones first"""
    out, seen = [], set()
    for c in list(fixed):
        if len(c) == n and tuple(c) not in seen:
            seen.add(tuple(c))
            out.append(tuple(c))
    if len(pool) ** n <= how_many:
        for c in itertools.product(pool, repeat=n):
            if c not in seen:
                seen.add(c)
                out.append(c)
        return out
    guard = 0
    while len(out) < how_many and guard < 100 * how_many:
        guard += 1
        c = tuple(rnd.choice(pool) for _ in range(n))
        if c not in seen:
            seen.add(c)
            out.append(c)
    return out


def _unit(M, m, d):
    return tuple(d if k == m % M else 0 for k in range(M))


class _StepTimeout(Exception):
    pass


class _Guard:
    """Proxy around the real environment that turns a CRASH or a HANG inside env.step (the
    scheduling envs assert internally, e.g. `available_time ... isinf`, and loop `while
    step_complete.any()`) into an observable dead end of exactly the rows that cause it:
    those rows come back unchanged, not done, with an all-False action mask, so the drivers
    record the episode as a dead end (monitor M_C02c -> C02) instead of aborting the run.
    The batch is bisected; sub-batches that step cleanly are taken as they are."""

    def __init__(self, env):
        object.__setattr__(self, "_env", env)
        object.__setattr__(self, "crashed", [])

    def __getattr__(self, k):
        return getattr(self._env, k)

    def _timed(self, td, secs):
        import signal

        def onalarm(signum, frame):
            raise _StepTimeout()

        try:
            old = signal.signal(signal.SIGALRM, onalarm)
        except ValueError:           # not in the main thread: no hang protection
            return self._env.step(td)["next"]
        signal.setitimer(signal.ITIMER_REAL, secs)
        try:
            return self._env.step(td)["next"]
        finally:
            signal.setitimer(signal.ITIMER_REAL, 0)
            signal.signal(signal.SIGALRM, old)

    HANG_BUDGET = 90.0      # seconds lost in calls that did not return before the run is aborted
    lost = 0.0              # (class-wide) seconds lost so far
    hung = 0                # (class-wide) rows whose step does not return

    def _dead(self, td, e):
        self.crashed.append(type(e).__name__ + ":" + str(e)[:80])
        dead = td.clone()
        dead.set("action_mask", torch.zeros_like(dead["action_mask"]))
        return dead

    def _rec(self, td):
        n = td.shape[0]
        secs = (1.0 if n == 1 else 10 + n / 100) if _Guard.hung == 0 else (0.5 if n == 1 else 2 + n / 100)
        try:
            return self._timed(td, secs)       # _step clones its input first
        except _StepTimeout as e:
            _Guard.lost += secs
            if n == 1:
                _Guard.hung += 1
                if _Guard.lost > self.HANG_BUDGET:
                    raise RuntimeError("C02: env.step does not return (hang) for %d rows so far, e.g. "
                                       "proc_times=%s action=%s time=%s busy_until=%s" % (
                                           _Guard.hung, td["proc_times"][0].tolist(), td["action"].tolist(),
                                           td["time"].tolist(), td["busy_until"][0].tolist()))
                return self._dead(td, e)
            return torch.cat([self._rec(td[r:r + 1]) for r in range(n)], 0)      # hang: row by row
        except Exception as e:  # noqa: BLE001  (AssertionError, IndexError ...): bisect
            if n == 1:
                return self._dead(td, e)
            h = n // 2
            return torch.cat([self._rec(td[:h]), self._rec(td[h:])], 0)

    def step(self, td):
        return {"next": self._rec(td)}


class FJSP(Adapter):
    name = "fjsp"
    module = "FJSP"
    jssp = False
    has_checker = False
    has_truth = True
    pad_steps = 2
    properties = ("C02", "C03", "C04", "C05", "C07")
    monitor_props = {"Final": "C07", "Step": "C07"}

    # ---- instances -------------------------------------------------------
    def _pool(self, M, tier):
        top = 2 if (tier == "quick" or M > 2) else 3
        return [c for c in itertools.product(range(top + 1), repeat=M) if any(c)]

    def _hand(self, n, M):
        """boundary patterns, cheapest (fewest episodes) first: everything on one machine (the
        clock has to move by itself), machines alternate, one rigid + one flexible operation,
        mixed, fully flexible with different / equal speeds (equal completion times, an
        operation ending exactly when another machine frees)"""
        if M == 2:
            base = [[(1, 0)] * n, [(0, 2)] * n,
                    [((1, 0), (0, 1))[o % 2] for o in range(n)],
                    [((2, 0), (1, 1))[o % 2] for o in range(n)],
                    [((2, 1), (0, 1), (1, 2))[o % 3] for o in range(n)],
                    [((1, 2), (2, 1))[o % 2] for o in range(n)],
                    [(1, 1)] * n, [(2, 2)] * n]
        elif M != 3:
            base = [[(1,) * M] * n, [(2,) * M] * n, [((2,) * M, (1,) * M)[o % 2] for o in range(n)]]
        else:
            base = [[_unit(M, 0, 1)] * n,
                    [_unit(M, o, 1) for o in range(n)],
                    [((2, 0, 1), (0, 1, 1), (1, 2, 0))[o % 3] for o in range(n)],
                    [((1, 2, 1), (2, 1, 2))[o % 2] for o in range(n)],
                    [(1,) * M] * n]
        return [tuple(b) for b in base]

    def _cells(self, tier):
        """(J, M, P, ops per job, wait, #hand patterns (k >= 0: the k cheapest; None: all;
        k < 0: the -k most flexible), #sampled patterns).  The number of episodes of one
        instance grows from ~5 (2 operations) to > 20 000 (6 flexible operations with the
        wait action), so the budget is set per cell."""
        cells = []
        if tier == "quick":
            for nops in [(1, 1), (2, 1), (1, 2), (2, 2)]:
                for wait in (False, True):
                    cells.append((2, 2, 4, nops, wait, -5, 1))
            for wait in (False, True):
                cells.append((3, 2, 6, (1, 1, 1), wait, -3, 0))
                cells.append((3, 2, 6, (2, 1, 1), wait, 4, 0))
                cells.append((2, 3, 4, (2, 1), wait, -2, 0))
                cells.append((2, 3, 4, (1, 1), wait, -2, 0))
            return cells
        for nops in [(1, 1), (2, 1), (1, 2), (2, 2)]:
            for wait in (False, True):
                cells.append((2, 2, 4, nops, wait, None, 18))
        for nops in [(1, 1, 1), (2, 1, 1), (1, 1, 2), (1, 2, 1)]:
            for wait in (False, True):
                cells.append((3, 2, 6, nops, wait, None, 3))
        for nops in [(3, 1), (1, 2)]:
            for wait in (False, True):
                cells.append((2, 2, 6, nops, wait, None, 4))
        for nops in [(1, 1), (2, 1), (1, 2)]:
            for wait in (False, True):
                cells.append((2, 3, 4, nops, wait, None, 4))
        for wait in (False, True):          # degenerate shapes: a single job, a single machine
            cells += [(1, 2, 3, (3,), wait, None, 2), (1, 2, 3, (1,), wait, None, 0),
                      (2, 1, 4, (2, 1), wait, None, 0), (2, 1, 4, (2, 2), wait, None, 0)]
        cells += [(2, 3, 4, (2, 2), False, None, 4), (2, 3, 4, (2, 2), True, 3, 2),
                  (3, 2, 6, (2, 2, 1), False, None, 4), (3, 2, 6, (2, 2, 1), True, 5, 0),
                  (2, 2, 6, (3, 3), False, None, 4), (2, 2, 6, (3, 3), True, 5, 0),
                  (3, 2, 6, (2, 2, 2), False, None, 3), (3, 2, 6, (2, 2, 2), True, 4, 0)]
        return cells

    def family(self, tier, seed=0):
        rnd = random.Random(1000 + seed)
        insts = []
        for (J, M, P, nops, wait, nh, nr) in self._cells(tier):
            n = sum(nops)
            hand = self._hand(n, M)
            hand = hand if nh is None else hand[:nh] if nh >= 0 else hand[nh:]
            for k, cols in enumerate(_columns(rnd, n, self._pool(M, tier), len(hand) + nr, fixed=hand)):
                insts.append(_inst(J, M, P, nops, cols, wait, self.jssp, padcol=self._padcol(M, k)))
        # long operations (benchmark-style durations): completion times beyond any "not scheduled yet" sentinel the
        # implementation may use for its start/finish tensors
        for wait in (False, True):
            insts.append(_inst(2, 2, 4, (2, 1), ((6000, 0), (6000, 0), (0, 5000)), wait, self.jssp, padcol=self._padcol(2, 0)))
        insts += self._drawn(tier, seed)
        return with_ids(insts)

    def _padcol(self, M, k):
        return None          # FJSPGenerator zeroes the padded columns

    def _gen_specs(self, tier):
        """(generator kwargs, batch, max #operations of an instance kept in wait mode)"""
        base = {"min_processing_time": 1, "max_processing_time": 3}
        if tier == "quick":
            return [(dict(base, num_jobs=2, num_machines=2, min_ops_per_job=1, max_ops_per_job=2), 3, 4)]
        return [(dict(base, num_jobs=2, num_machines=2, min_ops_per_job=1, max_ops_per_job=2), 12, 4),
                (dict(base, num_jobs=3, num_machines=2, min_ops_per_job=1, max_ops_per_job=2), 8, 4),
                (dict(base, num_jobs=2, num_machines=3, min_ops_per_job=1, max_ops_per_job=2), 6, 3)]

    def _generator(self, **kw):
        from rl4co.envs.scheduling.fjsp.generator import FJSPGenerator

        return FJSPGenerator(**kw)

    def _drawn(self, tier, seed):
        """instances drawn from the bundled generator itself (format, dtypes and padding exactly
        as the generator delivers them), converted to integers"""
        out = []
        with torch.random.fork_rng():
            torch.manual_seed(4242 + seed)
            for kw, bs, nmax in self._gen_specs(tier):
                td = self._generator(**kw)(batch_size=[bs])
                rows = []
                for r in range(bs):
                    so, eo = td["start_op_per_job"][r].tolist(), td["end_op_per_job"][r].tolist()
                    nops = [e - s + 1 for s, e in zip(so, eo)]
                    pt = [[int(x) for x in row] for row in td["proc_times"][r].tolist()]
                    rows.append(_inst_pt(len(nops), len(pt), len(pt[0]), nops, pt, False, self.jssp))
                # the adapter's tensors should be the generator's tensors, bit for bit; where they are not, the instance
                # carries the generator's own rows ("as delivered") and the environment is run on THOSE: what a user gets
                mine = self.to_td(rows)
                for k in ("start_op_per_job", "end_op_per_job", "proc_times", "pad_mask"):
                    if not (mine[k].dtype == td[k].dtype and torch.equal(mine[k], td[k])):
                        for r, i in enumerate(rows):
                            i.setdefault("as_delivered", {})[k] = (td[k][r].tolist(), str(td[k].dtype).replace("torch.", ""))
                for i in rows:
                    out.append(i)
                    if i["N"] <= nmax:
                        out.append(dict(i, wait=True))
        return out

    def group_key(self, inst):
        return (inst["J"], inst["M"], inst["P"], inst["wait"])

    def actions(self, inst):
        return list(range((inst["J"] if self.jssp else inst["J"] * inst["M"]) + 1))

    def step_cap(self, inst):
        return 2 * inst["N"] + 2

    def close_steps(self, inst):
        return 0

    # ---- real environment --------------------------------------------------
    def _params(self, inst):
        return {"num_jobs": inst["J"], "num_machines": inst["M"], "min_ops_per_job": 1,
                "max_ops_per_job": -(-inst["P"] // inst["J"])}

    def make_env(self, inst):
        from rl4co.envs.scheduling.fjsp.env import FJSPEnv

        self._env = FJSPEnv(generator_params=self._params(inst), mask_no_ops=not inst["wait"])
        return _Guard(self._env)

    def to_td(self, insts):
        so, eo, pm = [], [], []
        for i in insts:
            s, e, c = [], [], 0
            for n in i["nops"]:
                s.append(c)
                e.append(c + n - 1)
                c += n
            so.append(s)
            eo.append(e)
            pm.append([o >= c for o in range(i["P"])])
        td = TensorDict({"start_op_per_job": torch.tensor(so, dtype=torch.int64),
                         "end_op_per_job": torch.tensor(eo, dtype=torch.int64),
                         "proc_times": torch.tensor([i["pt"] for i in insts], dtype=torch.float32),
                         "pad_mask": torch.tensor(pm, dtype=torch.bool)},
                        batch_size=[len(insts)])
        for r, i in enumerate(insts):
            for k, (rows, dt) in i.get("as_delivered", {}).items():
                if all(k in j.get("as_delivered", {}) for j in insts) and r == 0:
                    td[k] = torch.tensor([j["as_delivered"][k][0] for j in insts], dtype=getattr(torch, dt))
                elif not all(k in j.get("as_delivered", {}) for j in insts):
                    td[k][r] = torch.tensor(rows, dtype=td[k].dtype)
        return td

    @staticmethod
    def _ints(t):
        return [int(round(float(x))) for x in t.flatten().tolist()]

    def _schedule(self, td, r):
        return {"start": self._ints(td["start_times"][r]),
                "finish": self._ints(td["finish_times"][r]),
                "ma": [self._ints(row) for row in td["ma_assignment"][r]]}

    def project(self, td, r, inst):
        st = self._schedule(td, r)
        st.update({"time": int(round(float(td["time"][r]))),
                   "busy": self._ints(td["busy_until"][r]),
                   "nxt": [int(x) for x in td["next_op"][r].tolist()],
                   "inproc": [bool(x) for x in td["job_in_process"][r].tolist()],
                   "jdone": [bool(x) for x in td["job_done"][r].tolist()],
                   "pt": [self._ints(row) for row in td["proc_times"][r]]})
        return st

    def final(self, td, r, inst):
        fin = self._schedule(td, r)
        rew = self.get_reward(self._env, td[r:r + 1], None)
        fin["makespan"] = int(round(-float(rew[0])))       # what the environment reports
        return fin

    def get_reward(self, env, td, actions):
        """FJSPEnv._get_reward asserts that every row is done; unfinished rows (possible
        only when a replayed solution does not finish) get 0 and are reported separately"""
        dn = td["done"].reshape(td.shape[0], -1).all(-1)
        if bool(dn.all()):
            return env._get_reward(td, actions)
        out = torch.zeros(td.shape[0])
        for r in range(td.shape[0]):
            if bool(dn[r]):
                out[r] = env._get_reward(td[r:r + 1], None)[0]
        return out


class JSSP(FJSP):
    """JSSPEnv: every operation has exactly one eligible machine, an action names a job"""
    name = "jssp"
    module = "JSSP"
    jssp = True

    def _pool(self, M, tier):
        top = 2 if tier == "quick" else 3
        return [_unit(M, m, d) for m in range(M) for d in range(1, top + 1)]

    def _hand(self, n, M):
        base = [[_unit(M, 0, 1)] * n, [_unit(M, M - 1, 2)] * n,
                [_unit(M, o, 1) for o in range(n)],
                [_unit(M, o, (2, 1)[o % 2]) for o in range(n)],
                [_unit(M, (1, 1, 0)[o % 3], (1, 1, 2)[o % 3]) for o in range(n)],
                [_unit(M, (1, 0, 0)[o % 3], (2, 1, 1)[o % 3]) for o in range(n)],
                [_unit(M, n - o, (1, 2, 3)[o % 3]) for o in range(n)]]
        return [tuple(b) for b in base]

    def _cells(self, tier):
        cells = []
        if tier == "quick":
            for nops in [(1, 1), (2, 1), (1, 2), (2, 2)]:
                for wait in (False, True):
                    cells.append((2, 2, 4, nops, wait, None, 3))
            for wait in (False, True):
                cells.append((3, 2, 6, (1, 1, 1), wait, None, 0))
                cells.append((3, 2, 6, (2, 1, 2), wait, None, 0))
                cells.append((2, 3, 6, (3, 3), wait, -3, 0))
                cells.append((2, 3, 6, (2, 1), wait, -3, 0))
            return cells
        for nops in [(1, 1), (2, 1), (1, 2), (2, 2)]:
            for wait in (False, True):
                cells.append((2, 2, 4, nops, wait, None, 24))
        for nops in [(1, 1, 1), (2, 1, 1), (1, 1, 2), (1, 2, 1), (2, 2, 1), (2, 2, 2)]:
            for wait in (False, True):
                cells.append((3, 2, 6, nops, wait, None, 8 if sum(nops) < 6 else 4))
        for nops in [(3, 3), (3, 1), (1, 2), (2, 3)]:
            for wait in (False, True):
                cells.append((2, 3, 6, nops, wait, None, 8))
        for wait in (False, True):          # degenerate shapes: a single job, a single machine
            cells += [(1, 2, 3, (3,), wait, None, 2), (1, 2, 3, (1,), wait, None, 0),
                      (2, 1, 4, (2, 1), wait, None, 0), (2, 1, 4, (2, 2), wait, None, 0)]
        for nops in [(2, 2, 2), (1, 2, 2), (1, 1, 1), (3, 1, 2)]:
            for wait in (False, True):
                cells.append((3, 3, 6, nops, wait, None, 5 if sum(nops) < 6 else 2))
        return cells

    def _padcol(self, M, k):
        # JSSPGenerator does not clear the padded columns: every other instance gets one
        return _unit(M, k, 1 + k % 3) if k % 2 else None

    def _gen_specs(self, tier):
        base = {"min_processing_time": 1, "max_processing_time": 3}
        loose = dict(base, one2one_ma_map=False, min_ops_per_job=1)
        if tier == "quick":
            return [(dict(loose, num_jobs=2, num_machines=3, max_ops_per_job=3), 3, 6)]
        return [(dict(base, num_jobs=2, num_machines=2), 8, 4),
                (dict(loose, num_jobs=2, num_machines=3, max_ops_per_job=3), 10, 6),
                (dict(loose, num_jobs=3, num_machines=2, max_ops_per_job=2), 8, 6)]

    def _generator(self, **kw):
        from rl4co.envs.scheduling.jssp.generator import JSSPGenerator

        return JSSPGenerator(**kw)

    def make_env(self, inst):
        from rl4co.envs.scheduling.jssp.env import JSSPEnv

        p = self._params(inst)
        p["one2one_ma_map"] = False
        self._env = JSSPEnv(generator_params=p, mask_no_ops=not inst["wait"])
        return _Guard(self._env)
