import itertools

import torch
from tensordict import TensorDict

from .. import embed
from .base import Adapter, points_for, with_ids

PRIZE_UNIT = 8  # prize k -> k/8 ; the float 1.0 (the requirement rl4co hard-codes) is 8 units


class PCTSP(Adapter):
    reward_from_actions = True
    """Prize-collecting TSP.  inst: N, D, prize[1..N], pen[1..N], req, unit (+ decoy, pts, grid).
    prize/req are in units of 1/8, penalties in the distance unit 1/grid; `decoy` is what is
    handed to the environment as the prize vector it must NOT use (PCTSP: stochastic_prize)."""
    name = "pctsp"
    module = "PCTSP"
    env_class = "PCTSPEnv"
    reqs = (8,)          # prize_required = 1.0, the documented configuration

    # ---- instances -------------------------------------------------------
    def prize_vectors(self, tier):
        """(prize, decoy) pairs.  Requirement 8: the values make subsets that reach it exactly
        (3+5, 4+4, 1+3+4), miss it by one unit (3+4, 1+1+5), pass it by one (4+5) or never
        reach it (1+1+1+1: the depot must open because everything is visited)."""
        vals, N = (1, 3, 4, 5), (3 if tier == "quick" else 4)
        vecs = [list(p) for p in itertools.product(vals, repeat=N)]
        if tier != "quick":   # zero prizes, a single node that is enough, sums with 2 and 7
            vecs += [[0, 0, 0, 8], [0, 0, 0, 0], [8, 8, 8, 8], [2, 2, 2, 2], [7, 1, 9, 2],
                     [2, 6, 0, 7], [0, 4, 4, 0], [7, 0, 0, 1]]
        # decoy: very different sums, so that reading the wrong prize vector shows
        return N, [(p, [8 - x if x <= 8 else 0 for x in p]) for p in vecs]

    def family(self, tier, seed=0):
        insts = []
        N, pvs = self.prize_vectors(tier)
        pens = [[1, 2, 4, 7][:N], [5] * N]
        tmpl = [(0, 0), (1, 2)] if tier == "quick" else [(0, 0), (2, 3)]
        for n, (w, rot) in enumerate(tmpl):
            pts, g, D = points_for(N + 1, w, rot)
            for req in self.reqs:
                for (p, decoy) in pvs:
                    insts.append(self.make_inst(N, D, pts, g, p, decoy, pens[n], req))
        if tier != "quick":
            # a few larger instances (N = 5): exact hits 2+6, 3+5, 1+3+4, 2+2+4 ...
            pts, g, D = points_for(6, 0, 0)
            for p in ([2, 6, 3, 5, 1], [4, 4, 4, 4, 4], [1, 1, 1, 1, 1], [3, 3, 2, 7, 8],
                      [1, 2, 2, 3, 1], [5, 2, 1, 1, 7]):
                for req in self.reqs:
                    insts.append(self.make_inst(5, D, pts, g, p, [8 - x for x in p],
                                                [3, 1, 4, 1, 5], req))
        return with_ids(insts)

    def make_inst(self, N, D, pts, g, prize, other, pen, req):
        return {"N": N, "D": D, "prize": prize, "decoy": other, "pen": pen, "req": req,
                "unit": PRIZE_UNIT, "pts": pts, "grid": g}

    def group_key(self, inst):
        return (inst["N"], inst["req"])

    def step_cap(self, inst):
        return inst["N"] + 4

    # ---- real environment -------------------------------------------------
    def make_env(self, inst):
        import rl4co.envs as E

        return getattr(E, self.env_class)(
            generator_params={"num_loc": inst["N"], "prize_required": inst["req"] / PRIZE_UNIT},
            check_solution=False)

    def prize_tensors(self, insts):
        det = torch.tensor([i["prize"] for i in insts], dtype=torch.float32) / PRIZE_UNIT
        sto = torch.tensor([i["decoy"] for i in insts], dtype=torch.float32) / PRIZE_UNIT
        return det, sto

    def to_td(self, insts):
        locs = torch.stack([embed.locs_tensor(i["pts"], i["grid"]) for i in insts])
        pen = torch.stack([torch.tensor(i["pen"], dtype=torch.float32) / float(i["grid"])
                           for i in insts])
        det, sto = self.prize_tensors(insts)
        return TensorDict({"depot": locs[:, 0], "locs": locs[:, 1:], "penalty": pen,
                           "deterministic_prize": det, "stochastic_prize": sto},
                          batch_size=[len(insts)])

    def pad_choice(self, mask):
        """adversarial padding: the LAST action the mask offers to a finished row"""
        n = mask.shape[-1]
        return (n - 1) - mask.flip(-1).int().argmax(-1)

    def project(self, td, r, inst):
        return {"cur": int(td["current_node"][r]),
                "prize": _int(float(td["cur_total_prize"][r]) * PRIZE_UNIT),
                "pen": _int(float(td["cur_total_penalty"][r]) * inst["grid"]),
                "i": int(td["i"][r]),
                "visited": [int(i) for i in td["visited"][r].nonzero().flatten().tolist()]}


class PCTSPReq(PCTSP):
    """the same environment configured with prize_required != 1.0 (0.5 and 1.5):
    generator_params={"prize_required": p} is accepted but mask and checker keep using 1.0"""
    tag = "pctsp_req"
    reqs = (0, 4, 12)


def _int(v):
    iv = int(round(v))
    return iv if abs(v - iv) < 1e-4 else int(round(v * 1000)) + 10 ** 8   # inexact: cannot match
