"""Drivers that run the REAL rl4co environments and record traces.

bfs_real      exhaustive breadth-first expansion of a real environment over all
              True entries of its action mask, for a family of integer instances
replay_real   drive the real environment along given action sequences (produced by
              TLC from the problem definition), recording mask membership
All information is taken from the public API: env.reset, env.step, the
"action_mask"/"done" entries, env.get_reward / check_solution_validity.
"""
import torch

MAX_ROWS = 200000


def mask_list(m):
    return [int(i) for i in m.nonzero().flatten().tolist()]


def done_of(td):
    d = td["done"]
    return d.reshape(d.shape[0], -1).all(-1)


def _index(td, idx):
    return td[idx].clone()


def group_by(items, key):
    g = {}
    for it in items:
        g.setdefault(key(it), []).append(it)
    return g


def score(ad, env, td_final, hists, scale):
    """reward via the public get_reward path, checker verdict per row"""
    acts = torch.tensor(hists, dtype=torch.long)
    try:
        rew = ad.get_reward(env, td_final, acts)
    except Exception:
        # the reward call of the code under test raised: row by row, a crashed row is logged as inexact reward
        rew = []
        for r in range(len(hists)):
            try:
                rew.append(float(ad.get_reward(env, td_final[r:r + 1], acts[r:r + 1])[0]))
            except Exception:
                rew.append(float("nan"))
    out = []
    try:
        ad.check(env, td_final, acts)
        verdicts = ["accept"] * len(hists)
    except NotImplementedError:
        verdicts = ["none"] * len(hists)
    except Exception as batch_exc:
        verdicts = []
        for r in range(len(hists)):
            try:
                ad.check(env, td_final[r:r + 1], acts[r:r + 1])
                verdicts.append("accept")
            except Exception as e:  # AssertionError or a crash inside the checker
                verdicts.append("reject:" + type(e).__name__ + ":" + str(e)[:60])
        if len(hists) > 1 and all(v == "accept" for v in verdicts):
            # every row is accepted alone but the same rows are rejected as one batch: the checker's verdict
            # depends on the batch-mates (reported on the first row)
            verdicts[0] = "reject:only-when-batched:" + type(batch_exc).__name__ + ":" + str(batch_exc)[:50]
    for r in range(len(hists)):
        out.append((ad.scale_reward(float(rew[r]), scale[r]), verdicts[r]))
    return out


def bfs_real(ad, insts, pad_steps=2, max_depth=None):
    """returns list of episode dicts (one per maximal mask-confined action sequence)"""
    episodes = []
    for key, group in group_by(insts, ad.group_key).items():
        env = ad.make_env(group[0])
        td = env.reset(ad.to_td(group))
        n = len(group)
        row_inst = list(range(n))
        hist = [[] for _ in range(n)]
        masks = [[mask_list(td["action_mask"][r])] for r in range(n)]
        dones = [[bool(done_of(td)[r])] for r in range(n)]
        sts = [[ad.project(td, r, group[r])] for r in range(n)]
        depth = 0
        cap = max_depth or max(ad.step_cap(i) for i in group)
        while len(row_inst) > 0:
            am = td["action_mask"]
            dn = done_of(td)
            # terminal rows (done) and dead ends leave the frontier
            term = [r for r in range(len(row_inst)) if bool(dn[r])]
            dead = [r for r in range(len(row_inst)) if not bool(dn[r]) and not bool(am[r].any())]
            if depth >= cap:
                dead = [r for r in range(len(row_inst)) if not bool(dn[r])]
            if term:
                idx = torch.tensor(term)
                td_t = _index(td, idx)
                sc = score(ad, env, td_t, [hist[r] for r in term],
                           [ad.scale(group[row_inst[r]]) for r in term])
                fins = [ad.final(td_t, k, group[row_inst[r]]) for k, r in enumerate(term)]  # before padding mutates td_t
                # padding: keep stepping the finished rows with mask-admitted actions
                pad = [{"a": [], "mask": [], "done": []} for _ in term]
                td_p = td_t.clone()
                alive = list(range(len(term)))
                ph = [list(hist[r]) for r in term]
                for _ in range(pad_steps):
                    amp = td_p["action_mask"]
                    ok = [k for k in range(len(alive)) if bool(amp[k].any())]
                    if len(ok) < len(alive):
                        for k in range(len(alive)):
                            if k not in ok:
                                pad[alive[k]]["stuck"] = True
                        alive = [alive[k] for k in ok]
                        if not alive:
                            break
                        td_p = _index(td_p, torch.tensor(ok))
                        amp = td_p["action_mask"]
                    a = ad.pad_choice(amp)
                    td_p.set("action", a)
                    td_p = env.step(td_p)["next"]
                    dp = done_of(td_p)
                    for k, j in enumerate(alive):
                        pad[j]["a"].append(int(a[k]))
                        pad[j]["mask"].append(mask_list(td_p["action_mask"][k]))
                        pad[j]["done"].append(bool(dp[k]))
                        pad[j].setdefault("st", []).append(ad.project(td_p, k, group[row_inst[term[j]]]))
                        ph[j].append(int(a[k]))
                if alive and pad_steps > 0:
                    scp = score(ad, env, td_p, [ph[j] for j in alive],
                                [ad.scale(group[row_inst[term[j]]]) for j in alive])
                    for k, j in enumerate(alive):
                        pad[j]["reward"] = scp[k][0]
                        pad[j]["checker"] = scp[k][1]
                for k, r in enumerate(term):
                    episodes.append({"inst": group[row_inst[r]], "a": hist[r], "mask": masks[r],
                                     "done": dones[r], "reward": sc[k][0], "checker": sc[k][1],
                                     "pad": pad[k], "end": "done", "st": sts[r],
                                     "fin": fins[k]})
            for r in dead:
                episodes.append({"inst": group[row_inst[r]], "a": hist[r], "mask": masks[r],
                                 "done": dones[r], "reward": None, "checker": "none",
                                 "pad": {"a": [], "mask": [], "done": []}, "st": sts[r], "fin": {},
                                 "end": "cap" if depth >= cap else "deadend"})
            if depth >= cap:
                break
            live = [r for r in range(len(row_inst)) if r not in set(term) and r not in set(dead)]
            if not live:
                break
            liv = torch.tensor(live)
            pairs = am[liv].nonzero()
            if pairs.shape[0] > MAX_ROWS:
                # the episode tree explodes (episodes that never finish): report the live rows as unfinished
                for r in live:
                    episodes.append({"inst": group[row_inst[r]], "a": hist[r], "mask": masks[r],
                                     "done": dones[r], "reward": None, "checker": "none",
                                     "pad": {"a": [], "mask": [], "done": []}, "st": sts[r], "fin": {},
                                     "end": "cap"})
                break
            src = liv[pairs[:, 0]]
            td_n = _index(td, src)
            td_n.set("action", pairs[:, 1].clone())
            td_n = env.step(td_n)["next"]
            dn2 = done_of(td_n)
            new_inst, new_hist, new_masks, new_dones, new_sts = [], [], [], [], []
            srcl = src.tolist()
            al = pairs[:, 1].tolist()
            for k in range(len(srcl)):
                r = srcl[k]
                new_inst.append(row_inst[r])
                new_hist.append(hist[r] + [al[k]])
                new_masks.append(masks[r] + [mask_list(td_n["action_mask"][k])])
                new_dones.append(dones[r] + [bool(dn2[k])])
                new_sts.append(sts[r] + [ad.project(td_n, k, group[row_inst[r]])])
            # rows are independent, so their order in the real batch is free: permute the frontier at every depth
            # (deterministically) so that every instance gets to sit at position 0 / next to different mates --
            # code that reads "the batch's" value from row 0 then shows up in the per-row monitors
            g = torch.Generator().manual_seed(1000 + depth)
            perm = torch.randperm(len(new_inst), generator=g)
            pl = perm.tolist()
            row_inst = [new_inst[k] for k in pl]
            hist = [new_hist[k] for k in pl]
            masks = [new_masks[k] for k in pl]
            dones = [new_dones[k] for k in pl]
            sts = [new_sts[k] for k in pl]
            td = td_n[perm]
            depth += 1
    return episodes


def replay_real(ad, items, close_steps=None):
    """items: list of (inst, seq).  Drives the real env along seq; returns for each
    item: first step whose action was NOT in the mask (or None), whether the episode
    is done after the sequence (+ closing pad actions), reward and checker verdict."""
    results = [None] * len(items)
    tagged = list(enumerate(items))
    for key, group in group_by(tagged, lambda t: (ad.group_key(t[1][0]), len(t[1][1]))).items():
        insts = [t[1][0] for t in group]
        seqs = [t[1][1] for t in group]
        env = ad.make_env(insts[0])
        td = env.reset(ad.to_td(insts))
        T = len(seqs[0])
        bad = [None] * len(group)
        offered = [[] for _ in group]
        for t in range(T):
            a = torch.tensor([s[t] for s in seqs], dtype=torch.long)
            am = td["action_mask"]
            for r in range(len(group)):
                ok = bool(am[r, a[r]])
                if not ok and bad[r] is None:
                    bad[r] = t
                    offered[r] = mask_list(am[r])
            td.set("action", a)
            td = env.step(td)["next"]
        hist = [list(s) for s in seqs]
        ncl = close_steps if close_steps is not None else ad.close_steps(insts[0])
        closed = 0
        for _ in range(ncl):
            dn = done_of(td)
            if bool(dn.all()):
                break
            a = ad.close_choice(td)
            td.set("action", a)
            td = env.step(td)["next"]
            closed += 1
            for r in range(len(group)):
                hist[r].append(int(a[r]))
        dn = done_of(td)
        sc = score(ad, env, td, hist, [ad.scale(i) for i in insts])
        # the reward as a function of INSTANCE + ACTIONS alone: the same actions scored against the freshly reset instance (what
        # the evaluation classes and any "score these externally produced actions" call do).  Environments whose objective is
        # read from the rollout state do not support that call (they raise): nothing to compare there.
        sc0 = [None] * len(group)
        try:
            if not ad.reward_from_actions:
                raise NotImplementedError
            env0 = ad.make_env(insts[0])
            rew0 = ad.get_reward(env0, env0.reset(ad.to_td(insts)), torch.tensor(hist, dtype=torch.long))
            sc0 = [ad.scale_reward(float(rew0[r]), ad.scale(insts[r])) for r in range(len(group))]
        except Exception:  # noqa: BLE001
            pass
        for r, (k, _) in enumerate(group):
            results[k] = {"bad_step": bad[r], "offered": offered[r], "done": bool(dn[r]),
                          "reward": sc[r][0], "checker": sc[r][1], "played": hist[r], "reward_on_reset_instance": sc0[r]}
    return results


def check_real(ad, items):
    """items: list of (inst, seq): run ONLY the real solution checker on each (solo)."""
    out = []
    for key, group in group_by(list(enumerate(items)),
                               lambda t: (ad.group_key(t[1][0]), len(t[1][1]))).items():
        insts = [t[1][0] for t in group]
        env = ad.make_env(insts[0])
        td = env.reset(ad.to_td(insts))
        acts = torch.tensor([t[1][1] for t in group], dtype=torch.long)
        for r, (k, _) in enumerate(group):
            try:
                ad.check(env, td[r:r + 1], acts[r:r + 1])
                v = "accept"
            except NotImplementedError:
                v = "none"
            except Exception as e:
                v = "reject:" + type(e).__name__ + ":" + str(e)[:60]
            out.append((k, v))
    out.sort()
    return [v for _, v in out]


def run_rows(ad, rows, extra_pad=1):
    """Step a batch whose row r is (inst, seq) along its own mask-confined sequence.
    Rows that exhausted their sequence (they are finished) are stepped with a
    mask-admitted padding action while slower rows are still running.
    Returns per row: masks, dones (index 0 = after reset), padded actions, reward."""
    insts = [r[0] for r in rows]
    seqs = [list(r[1]) for r in rows]
    env = ad.make_env(insts[0])
    td = env.reset(ad.to_td(insts))
    n = len(rows)
    T = max(len(s) for s in seqs) + extra_pad
    masks = [[mask_list(td["action_mask"][r])] for r in range(n)]
    dones = [[bool(done_of(td)[r])] for r in range(n)]
    played = [[] for _ in range(n)]
    stuck = [False] * n
    for t in range(T):
        am = td["action_mask"]
        pad = ad.pad_choice(am)
        a = []
        for r in range(n):
            if t < len(seqs[r]):
                a.append(seqs[r][t])
            else:
                if not bool(am[r].any()):
                    stuck[r] = True
                a.append(int(pad[r]))
        a = torch.tensor(a, dtype=torch.long)
        td.set("action", a)
        td = env.step(td)["next"]
        dn = done_of(td)
        for r in range(n):
            played[r].append(int(a[r]))
            masks[r].append(mask_list(td["action_mask"][r]))
            dones[r].append(bool(dn[r]))
    sc = score(ad, env, td, played, [ad.scale(i) for i in insts])
    return [{"mask": masks[r], "done": dones[r], "played": played[r], "reward": sc[r][0],
             "checker": sc[r][1], "stuck": stuck[r], "size": n, "pos": r} for r in range(n)]
