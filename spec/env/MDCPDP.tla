------------------------------- MODULE MDCPDP -------------------------------
(* Multi-depot capacitated pickup and delivery.
   inst = [nd, P, D, cap, capfmt, open, rmode, w4, exec]:
     nodes 0..nd-1 depots (one vehicle each), nd..nd+P-1 pickups, nd+P..nd+2P-1 deliveries
     (the delivery of pickup p is p+P); D integer distance matrix over all nodes (L1 or L2,
     the adapter computes it); cap[d+1] = number of orders vehicle d can carry at a time;
     open = 1: routes are not charged for the way back to the depot; rmode "minmax" | "minsum" |
     "lateness"; w4 = lateness weight in quarters (0..4).
     capfmt / exec only describe HOW the instance is handed to the code (PART 2), see there.
   An action sequence is a list of route blocks  d c1 .. ck d : the first occurrence of depot d
   starts vehicle d, the second one brings it home; a vehicle starts only after the previous one is
   home; the last block needs no return.
   PART 1 is the problem as defined independently of rl4co (the oracle);
   PART 2 is a code-shaped model of rl4co.envs.routing.mdcpdp.MDCPDPEnv.       *)
EXTENDS Util

NM(inst)      == inst.nd + 2 * inst.P
Depots(inst)  == 0..(inst.nd - 1)
Picks(inst)   == inst.nd..(inst.nd + inst.P - 1)
Delivs(inst)  == (inst.nd + inst.P)..(NM(inst) - 1)
Custs(inst)   == Picks(inst) \cup Delivs(inst)
Actions(inst) == 0..(NM(inst) - 1)
CapOf(inst, d) == inst.cap[d + 1]

InstanceOK(inst) == /\ inst.nd >= 1 /\ inst.P >= 1 /\ Len(inst.cap) = inst.nd
                    /\ \A d \in Depots(inst) : CapOf(inst, d) >= 1
                    /\ inst.rmode \in {"minmax", "minsum", "lateness"} /\ inst.w4 \in 0..4

(* ------------------------- PART 1: ground truth ------------------------- *)
Occ(pre, x) == {k \in DOMAIN pre : pre[k] = x}
MinS(S)     == CHOOSE x \in S : \A y \in S : x <= y
Opened(inst, pre) == {d \in Depots(inst) : Occ(pre, d) # {}}
StartAt(pre, d) == MinS(Occ(pre, d))                             \* vehicle d leaves its depot
Home(pre, d)    == Cardinality(Occ(pre, d)) >= 2                 \* vehicle d is back
EndAt(pre, d)   == IF Home(pre, d) THEN MinS(Occ(pre, d) \ {StartAt(pre, d)}) ELSE Len(pre) + 1
Inside(pre, d)  == (StartAt(pre, d) + 1)..(EndAt(pre, d) - 1)    \* positions served by vehicle d
RouteOf(pre, d) == SubSeq(pre, StartAt(pre, d) + 1, EndAt(pre, d) - 1)

\* orders on board of vehicle d after position k of its route
LoadAt(inst, pre, d, k) ==
  Cardinality({j \in (StartAt(pre, d) + 1)..k : pre[j] \in Picks(inst)})
  - Cardinality({j \in (StartAt(pre, d) + 1)..k : pre[j] \in Delivs(inst)})

PrefixOK(inst, pre) ==
  /\ \A k \in DOMAIN pre : pre[k] \in Actions(inst)
  /\ \A d \in Depots(inst) : Cardinality(Occ(pre, d)) <= 2         \* leave once, return once
  /\ \A c \in Custs(inst)  : Cardinality(Occ(pre, c)) <= 1         \* every customer at most once
  \* one vehicle after the other: a route starts only after the previous vehicle is home
  /\ \A d, e \in Opened(inst, pre) : d # e => EndAt(pre, d) < StartAt(pre, e) \/ EndAt(pre, e) < StartAt(pre, d)
  \* every customer is served by some vehicle (in particular the sequence starts at a depot)
  /\ \A k \in DOMAIN pre : pre[k] \in Custs(inst) => \E d \in Opened(inst, pre) : k \in Inside(pre, d)
  \* a delivery is made by the vehicle that picked the order up, after the pickup
  /\ \A k \in DOMAIN pre : pre[k] \in Delivs(inst) =>
        \E d \in Opened(inst, pre) : k \in Inside(pre, d) /\ \E j \in Inside(pre, d) : j < k /\ pre[j] = pre[k] - inst.P
  \* never more orders on board than the vehicle can carry
  /\ \A d \in Opened(inst, pre) : \A k \in Inside(pre, d) : LoadAt(inst, pre, d, k) <= CapOf(inst, d)
  \* nobody comes home with an undelivered order
  /\ \A d \in Opened(inst, pre) : Home(pre, d) => LoadAt(inst, pre, d, EndAt(pre, d) - 1) = 0

Complete(inst, pre) == \A c \in Custs(inst) : Occ(pre, c) # {}
Feasible(inst, sol) == PrefixOK(inst, sol) /\ Complete(inst, sol)

\* length of vehicle d's route: closed = back to its own depot (whether or not the return action
\* has been played yet), open = up to the last customer
RouteLen(inst, pre, d) ==
  IF d \notin Opened(inst, pre) THEN 0
  ELSE LET r == <<d>> \o RouteOf(pre, d)
       IN IF inst.open = 1 THEN PathLen(inst.D, r) ELSE CycleLen(inst.D, r)
RouteLens(inst, pre) == [k \in 1..inst.nd |-> RouteLen(inst, pre, k - 1)]

\* arrival time at position k = distance its vehicle has driven from its depot (every vehicle
\* starts at time 0)
VehicleAt(inst, pre, k) == CHOOSE d \in Opened(inst, pre) : k \in Inside(pre, d)
ArriveAt(inst, pre, k) ==
  IF \E d \in Opened(inst, pre) : k \in Inside(pre, d)            \* (total also on infeasible sequences)
  THEN LET d == VehicleAt(inst, pre, k)
       IN PathLen(inst.D, <<d>> \o SubSeq(pre, StartAt(pre, d) + 1, k))
  ELSE 0
DelivPos(inst, pre) == {k \in DOMAIN pre : pre[k] \in Delivs(inst)}
Lateness(inst, pre) == SumSet(DelivPos(inst, pre), [k \in DelivPos(inst, pre) |-> ArriveAt(inst, pre, k)])

\* reward in units of 1/(4*grid):  minsum total length, minmax longest route,
\* lateness (1-w) * total length + w * sum of the arrival times at the deliveries
Objective(inst, sol) ==
  IF inst.rmode = "minsum" THEN 0 - 4 * SumSeq(RouteLens(inst, sol))
  ELSE IF inst.rmode = "minmax" THEN 0 - 4 * MaxSeq(RouteLens(inst, sol))
  ELSE 0 - ((4 - inst.w4) * SumSeq(RouteLens(inst, sol)) + inst.w4 * Lateness(inst, sol))

\* documented pruning: start_mode = "order" -- the first vehicle is the one of depot 0
\* (any solution can list its routes in this order; an idle vehicle is the block d d)
Pointless(inst, pre, a) == pre = <<>> /\ a # 0

StepBound(inst) == 2 * inst.P + 2 * inst.nd      \* every customer once, every depot left and re-entered
PadNeeded(inst) == TRUE
StepOK(inst, pre, st)   == TRUE
FinalOK(inst, sol, fin) == TRUE

(* ------------------- PART 2: implementation model ----------------------- *)
\* MDCPDPEnv._step / _get_reward read `num_depot = td["capacity"].shape[-1]`.  Since the fix "MDCPDP expands a
\* shared capacity to one entry per depot" _reset expands the generator's [batch, 1] capacity (capfmt "gen") to
\* [batch, num_depot]; before, the code believed in ONE depot whatever generator.num_depot said.
NDC(inst)    == inst.nd
NLC(inst)    == NM(inst) - NDC(inst)
Half(inst)   == NLC(inst) \div 2
Split(inst)  == Half(inst) + NDC(inst)            \* pd_split_idx
CapVec(inst) == inst.cap

Init0(inst) == [cur |-> 0, cd |-> 0, carry |-> 0,
                avail |-> Actions(inst),
                todel |-> 0..(inst.P + inst.nd - 1),           \* reset uses generator.num_depot
                len   |-> [k \in 1..inst.nd |-> 0],
                arr   |-> [k \in 1..NM(inst) |-> 0],
                mask  |-> {0}, done |-> FALSE]

Mask(inst, s) == s.mask
Done(inst, s) == s.done

\* `back_flag`: a depot that is no longer available is chosen = the vehicle returns
Back(inst, s, a) == a < NDC(inst) /\ a \notin s.avail

\* FIXED by "fix: MDCPDP tracks the depot of the vehicle that is currently driving":
\* `current_depot = torch.where(current_node < num_depot, current_node, current_depot)` -- every
\* depot action (opening a vehicle or bringing it home) makes that depot the current one.
\* Before the fix the update was conditioned on back_flag, i.e. it only fired on a RETURN (where the
\* node already equals current_depot): current_depot kept its reset value for the whole episode, all
\* routes were accumulated in one slot of current_length (minmax = minsum, arrival times continued
\* across vehicles), depot 0's capacity applied to every vehicle, and with three or more depots a
\* non-last vehicle was offered depot 0 as its "way home" while its own depot stayed hidden.
NewDepot(inst, s, a) == IF a < NDC(inst) THEN a ELSE s.cd

\* step length: 0 between two depots; 0 for the way home when routes are open;
\* FIXED by "fix: MDCPDP charges the last vehicle's way home in closed mode and nothing after
\* finishing": 0 on every step taken after the episode has finished (`was_done`).  Before the fix a
\* padding step of a finished row (customer -> current depot) was charged like a normal step, so the
\* reward of closed-route instances depended on how long the row was padded.
\* (FIXED by "fix: MDCPDP accumulates each instance's own step length": the length is the row's own
\* [B,1] value; before, a [B] vs [B,1] broadcast made every row accumulate the step length of batch
\* row 0 -- not expressible in a per-instance model, which is why lengths used to be compared only
\* for rows stepped as a batch of one.)
StepLen(inst, s, a) ==
  IF s.done THEN 0
  ELSE IF a < NDC(inst) /\ s.cur < NDC(inst) THEN 0
  ELSE IF inst.open = 1 /\ a < NDC(inst) /\ s.cur >= NDC(inst) THEN 0
  ELSE Dist(inst.D, s.cur, a)

\* FIXED by the same commit: closed routes -- on the FINISHING step the last vehicle's way home
\* (current node -> current depot) is added to its route length, after the arrival time of the node
\* has been recorded.  Before the fix that leg was never charged unless the row happened to be padded.
HomeLeg(inst, s, a, cd, dn) ==
  IF inst.open = 0 /\ dn /\ ~s.done THEN Dist(inst.D, a, cd) ELSE 0

Step(inst, s, a) ==
  LET ndc   == NDC(inst)
      back  == Back(inst, s, a)
      avail == s.avail \ {a}
      todel == s.todel \cup {(a + Half(inst)) % NM(inst)}
      carry == s.carry + (IF a >= ndc /\ a < Split(inst) THEN 1 ELSE 0) - (IF a >= Split(inst) THEN 1 ELSE 0)
      cd    == NewDepot(inst, s, a)
      dn    == avail = {}
      len1  == [s.len EXCEPT ![cd + 1] = @ + StepLen(inst, s, a)]
      arr   == [s.arr EXCEPT ![a + 1] = len1[cd + 1]]
      len   == [len1 EXCEPT ![cd + 1] = @ + HomeLeg(inst, s, a, cd, dn)]
      m0    == avail \cap todel
      m1    == IF carry >= CapVec(inst)[cd + 1] THEN m0 \ (ndc..(Split(inst) - 1)) ELSE m0
      cust  == IF back THEN {} ELSE {x \in m1 : x >= ndc}      \* after a return a depot must follow
      dep0  == IF back THEN {x \in m1 : x < ndc} \ {cd} ELSE {cd}
      dep1  == IF {x \in avail : x < ndc} = {} THEN {} ELSE dep0   \* last vehicle finishes the job
      dep2  == IF carry > 0 THEN {} ELSE dep1
      dep3  == IF dn THEN dep2 \cup {cd} ELSE dep2
  IN [cur |-> a, cd |-> cd, carry |-> carry, avail |-> avail, todel |-> todel,
      len |-> len, arr |-> arr, mask |-> cust \cup dep3, done |-> dn]

\* _get_reward: from current_length / arrivetime_record only (lateness: entries from pd_split_idx on)
LateM(inst, s) == SumSeq([k \in 1..(NM(inst) - Split(inst)) |-> s.arr[Split(inst) + k]])
RewardM(inst, s, hist) ==
  IF inst.rmode = "minsum" THEN 0 - 4 * SumSeq(s.len)
  ELSE IF inst.rmode = "minmax" THEN 0 - 4 * MaxSeq(s.len)
  ELSE 0 - ((4 - inst.w4) * SumSeq(s.len) + inst.w4 * LateM(inst, s))

\* exec "batch": the rows are stepped by one real env.step call; exec "row": every row is stepped as
\* its own batch of one.  Since the step-length fix both must agree with the model field by field.
ConfState(inst, s, st) ==
  /\ st.cur = s.cur /\ st.cd = s.cd /\ st.carry = s.carry
  /\ ToSetU(st.avail) = s.avail /\ ToSetU(st.todel) = s.todel
  /\ st.len = s.len /\ st.arr = s.arr

PadAction(inst) == 0
=============================================================================
