------------------------------- MODULE OP -------------------------------
(* Orienteering.  inst = [N, D, prize, L]: depot 0, customers 1..N, integer
   symmetric metric distance matrix D (read with Dist), integer prizes
   prize[1..N], integer tour-length budget L (same unit as D).
   A solution is a tour from the depot through a SUBSET of the customers (each
   at most once) back to the depot whose length is AT MOST L; the objective is
   the total prize collected.
   PART 1 is the problem as defined independently of rl4co (the oracle);
   PART 2 is a code-shaped model of rl4co.envs.routing.op.OPEnv.             *)
EXTENDS Util

Cust(inst)    == 1..inst.N
Actions(inst) == 0..inst.N
InstanceOK(inst) ==
  /\ inst.N >= 1 /\ inst.L >= 0
  /\ \A j \in Cust(inst) : inst.prize[j] >= 0
  /\ \A i, j \in Actions(inst) : Dist(inst.D, i, j) = Dist(inst.D, j, i) /\ Dist(inst.D, i, i) = 0
  \* triangle inequality: a walk that cannot be closed within L cannot be extended to one that can
  /\ \A i, j, k \in Actions(inst) : Dist(inst.D, i, k) <= Dist(inst.D, i, j) + Dist(inst.D, j, k)

(* ------------------------- PART 1: ground truth ------------------------- *)
\* the closed walk the vehicle drives: it starts at the depot, visits the listed nodes and
\* (whether or not the list ends with the depot) has to come home
WalkLen(inst, seq) == CycleLen(inst.D, <<0>> \o seq)

\* nothing violated so far: no customer twice and the vehicle can still come home within L
\* (equality allowed: "must not exceed")
PrefixOK(inst, pre) ==
  /\ \A k \in DOMAIN pre : pre[k] \in Actions(inst)
  /\ \A j \in Cust(inst) : Count(pre, j) <= 1
  /\ WalkLen(inst, pre) <= inst.L

\* the episode is over when the vehicle is back at the depot
Complete(inst, pre) == pre # <<>> /\ Last(pre) = 0

\* no coverage requirement: any non-empty listing that violates nothing is a solution (the
\* return leg is implied; property C06 explicitly includes solutions that never list the depot)
Feasible(inst, sol) == sol # <<>> /\ PrefixOK(inst, sol)

Prize(inst, v) == IF v = 0 THEN 0 ELSE inst.prize[v]
Objective(inst, sol) == SumSeq([k \in DOMAIN sol |-> Prize(inst, sol[k])])

\* OPEnv documents "Depot can always be visited: we do not hardcode knowledge that this is
\* strictly suboptimal" -- no pruning at all
Pointless(inst, pre, a) == FALSE

StepBound(inst) == inst.N + 1          \* every customer once, then home
PadNeeded(inst) == TRUE                \* tours have different lengths
\* bookkeeping shown to the policy: length driven so far, prize collected so far
StepOK(inst, pre, st) == /\ st.tl = PathLen(inst.D, <<0>> \o pre)
                         /\ st.prize = Objective(inst, pre)
FinalOK(inst, sol, fin) == TRUE

(* ------------------- PART 2: implementation model ----------------------- *)
\* state of OPEnv: visited (incl. the depot bit), current_node, tour_length,
\* current_total_prize, step counter i, done
Init0(inst) == [visited |-> {}, cur |-> 0, tl |-> 0, prize |-> 0, i |-> 0, done |-> FALSE]

\* op/env.py:_reset stores max_length[j] = L - dist(depot, j) + 1e-6 (margin on the permissive side since
\* the fix "OP: tours of length exactly the budget stay reachable"; before, the margin was subtracted and
\* an exact-fit tour was hidden); get_action_mask hides j when tour_length + dist(cur, j) > max_length[j].
\* On an exact (dyadic) embedding the comparison is therefore "exceeds L".
ExceedsLength(inst, s, j) ==
  s.tl + Dist(inst.D, s.cur, j) + Dist(inst.D, j, 0) > inst.L

\* mask = visited | visited[0] | exceeds_length ; afterwards action_mask[..., 0] = 1
Hidden(inst, s, j) == j \in s.visited \/ 0 \in s.visited \/ ExceedsLength(inst, s, j)
Mask(inst, s) == {0} \cup {j \in Cust(inst) : ~Hidden(inst, s, j)}

\* quirk FirstStepDepot (op/env.py:_step): done = (action == 0) & (i > 0): choosing the depot
\* at the very first step sets the depot's visited bit but does NOT finish the episode; all
\* customers are hidden from then on and a second depot step is needed
Step(inst, s, a) ==
  [visited |-> s.visited \cup {a},
   cur     |-> a,
   tl      |-> s.tl + Dist(inst.D, s.cur, a),
   prize   |-> s.prize + Prize(inst, a),
   i       |-> s.i + 1,
   done    |-> a = 0 /\ s.i > 0]

Done(inst, s) == s.done

\* OPEnv._get_reward: a single-column action tensor returns 0 (after asserting all zeros);
\* otherwise prize (padded with 0 for the depot) gathered at the actions and summed
RewardM(inst, s, hist) ==
  IF Len(hist) = 1 THEN 0 ELSE SumSeq([k \in DOMAIN hist |-> Prize(inst, hist[k])])

ConfState(inst, s, st) ==
  /\ st.cur = s.cur /\ st.tl = s.tl /\ st.prize = s.prize /\ st.i = s.i
  /\ ToSetU(st.visited) = s.visited

PadAction(inst) == 0
\* forced first move of multi-start rollout / beam j = 0, 1, ... (rl4co.utils.ops.select_start_nodes, branch "op", since the
\* fix "OP multi-start nodes are always feasible first moves"): the feasible customers in index order, cycling through
\* them when there are fewer than the number of starts; the depot when no customer can be visited at all
FeasibleStarts(inst) == {c \in Cust(inst) : c \in Mask(inst, Init0(inst))}
NthFeasible(inst, k) == CHOOSE c \in FeasibleStarts(inst) : Cardinality({d \in FeasibleStarts(inst) : d < c}) = k
StartNode(inst, j) == IF FeasibleStarts(inst) = {} THEN 0 ELSE NthFeasible(inst, j % Cardinality(FeasibleStarts(inst)))
=============================================================================
