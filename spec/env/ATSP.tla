------------------------------- MODULE ATSP -------------------------------
(* Asymmetric travelling salesman.  inst = [N, D]: nodes 0..N-1 (no depot),
   integer cost matrix D, D[i+1][j+1] = cost of driving FROM i TO j (in
   general different from the cost from j to i; no coordinates, no triangle
   inequality assumed).
   PART 1 problem definition, PART 2 model of rl4co.envs.routing.atsp.ATSPEnv. *)
EXTENDS Util

Nodes(inst)   == 0..(inst.N - 1)
Actions(inst) == Nodes(inst)
InstanceOK(inst) ==
  /\ inst.N >= 2
  /\ Len(inst.D) = inst.N
  /\ \A i \in 1..inst.N : Len(inst.D[i]) = inst.N /\ \A j \in 1..inst.N : inst.D[i][j] >= 0

(* ------------------------- PART 1: ground truth ------------------------- *)
\* a Hamiltonian circuit: every node exactly once, driven in the order given,
\* closed by the arc from the last node back to the first one
PrefixOK(inst, pre) == (\A k \in DOMAIN pre : pre[k] \in Nodes(inst)) /\ NoDup(pre)
Complete(inst, pre) == \A j \in Nodes(inst) : Count(pre, j) = 1
Feasible(inst, sol) == PrefixOK(inst, sol) /\ Complete(inst, sol)

\* cost of the arc u -> v (row = tail, column = head)
Arc(inst, u, v) == inst.D[u + 1][v + 1]
\* sum of the arcs sol[k] -> sol[k+1] plus the closing arc sol[n] -> sol[1]
Objective(inst, sol) ==
  0 - SumSeq([k \in DOMAIN sol |->
                Arc(inst, sol[k], IF k = Len(sol) THEN sol[1] ELSE sol[k + 1])])

Pointless(inst, pre, a) == FALSE
StepBound(inst) == inst.N
PadNeeded(inst) == FALSE           \* all rows of a batch have N nodes and finish at step N
StepOK(inst, pre, st)   == TRUE
FinalOK(inst, sol, fin) == TRUE

(* ------------------- PART 2: implementation model ----------------------- *)
\* ATSPEnv._reset: action_mask all ones, current_node = first_node = 0, i = 0
Init0(inst) == [avail |-> Nodes(inst), cur |-> 0, first |-> 0, i |-> 0]
Mask(inst, s) == s.avail
\* ATSPEnv._step: scatter 0 into action_mask at the chosen node
Step(inst, s, a) ==
  [avail |-> s.avail \ {a}, cur |-> a,
   first |-> IF s.i = 0 THEN a ELSE s.first,     \* code: batch_to_scalar(td["i"]) == 0 reads row 0 only
   i |-> s.i + 1]
Done(inst, s) == s.avail = {}                     \* count_nonzero(available) <= 0
\* ATSPEnv._get_reward: cost_matrix[b, actions, roll(actions, -1)] summed (src = row, tgt = column)
RewardM(inst, s, hist) == 0 - CycleLen(inst.D, hist)
ConfState(inst, s, st) == st.cur = s.cur /\ st.i = s.i /\ st.first = s.first
PadAction(inst) == 0
=============================================================================
