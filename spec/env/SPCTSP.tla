------------------------------- MODULE SPCTSP -------------------------------
(* Stochastic prize-collecting travelling salesman.
   inst = [N, D, prize, real, pen, req, unit]: as PCTSP, but the prize announced
   for a customer (prize[j], the expectation, known up front) differs from the
   prize actually received when the customer is visited (real[j]).
   PART 1: the problem -- the prize constraint is about what has REALLY been
   collected; the announced prizes are information for the policy only.
   PART 2: model of rl4co.envs.routing.spctsp.SPCTSPEnv (= PCTSPEnv with
   _stochastic = True: real_prize := td["stochastic_prize"]).
   The prize-vector-parametrised operators of module PCTSP are reused.       *)
EXTENDS Util
P == INSTANCE PCTSP

Cust(inst)    == 1..inst.N
Actions(inst) == 0..inst.N
InstanceOK(inst) == P!InstanceOK(inst) /\ \A j \in Cust(inst) : inst.real[j] >= 0

(* ------------------------- PART 1: ground truth ------------------------- *)
\* prize in hand after the walk `pre`: the realised prizes of the customers on it
Realised(inst, pre) == P!CollectedP(inst, inst.real, pre)
Enough(inst, pre)   == Realised(inst, pre) >= inst.req \/ P!Seen(inst, pre) = Cust(inst)

PrefixOK(inst, pre)     == P!WalkOK(inst, pre)                       \* every customer at most once
Complete(inst, pre)     == pre # <<>> /\ Last(pre) = 0 /\ Enough(inst, pre)
Feasible(inst, sol)     == P!WalkOK(inst, sol) /\ Enough(inst, sol)
Objective(inst, sol)    == P!Price(inst, sol)                        \* prizes are not part of the cost
Pointless(inst, pre, a) == a = 0 /\ ~Enough(inst, pre)               \* early return, see PCTSP

StepBound(inst) == inst.N + 1
PadNeeded(inst) == TRUE
StepOK(inst, pre, st)   == TRUE
FinalOK(inst, sol, fin) == TRUE

(* ------------------- PART 2: implementation model ----------------------- *)
\* _reset: real_prize = td["stochastic_prize"] if self.stochastic else td["deterministic_prize"];
\* cur_total_prize accumulates real_prize; mask, step, reward and done are PCTSPEnv's
Init0(inst)      == P!Init0(inst)
Mask(inst, s)    == P!Mask(inst, s)
Step(inst, s, a) == P!StepP(inst, inst.real, s, a)
Done(inst, s)    == P!Done(inst, s)
RewardM(inst, s, hist) == P!RewardM(inst, s, hist)
ConfState(inst, s, st) == P!ConfState(inst, s, st)
PadAction(inst)  == 0
=============================================================================
