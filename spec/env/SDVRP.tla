------------------------------- MODULE SDVRP -------------------------------
(* Split-delivery vehicle routing.
   inst = [N, D, dem, cap]: customers 1..N, depot 0, integer distance matrix D
   (read with Dist), integer demands dem[1..N] >= 1 (a demand may exceed the
   capacity: it is then served by several visits), integer vehicle capacity.
   PART 1 is the problem as defined independently of rl4co (the oracle);
   PART 2 is a code-shaped model of rl4co.envs.routing.sdvrp.SDVRPEnv.       *)
EXTENDS Util

Cust(inst)    == 1..inst.N
Actions(inst) == 0..inst.N
InstanceOK(inst) == inst.N >= 1 /\ inst.cap >= 1 /\ \A j \in Cust(inst) : inst.dem[j] >= 1

(* ------------------------- PART 1: ground truth ------------------------- *)
(* A solution is a node sequence; 0 ends a route (the vehicle unloads nothing
   there and starts the next route empty), the return after the last node is
   implied.  A visit hands over as much as possible: what the customer still
   misses, limited by what the vehicle still carries.  Plan(inst, seq)[k] is
   the quantity handed over by the k-th entry of seq (0 for depot entries),
   defined from the quantities of the earlier entries:
     earlier visits to the same customer reduce what is missing,
     earlier visits of the same route reduce what is carried.               *)
SumIdx(q, S) == SumSet(S, q)                       \* sum of q[i] over the index set S

RouteStart(seq, k) ==                              \* first index of the route entry k belongs to
  IF \E i \in 1..(k - 1) : seq[i] = 0
    THEN 1 + CHOOSE i \in 1..(k - 1) : seq[i] = 0 /\ \A i2 \in (i + 1)..(k - 1) : seq[i2] # 0
    ELSE 1

RECURSIVE Plan(_, _)
Plan(inst, seq) ==
  IF seq = <<>> THEN <<>>
  ELSE LET k == Len(seq)
           a == seq[k]
           q == Plan(inst, Front(seq))
           missing == inst.dem[a] - SumIdx(q, {i \in 1..(k - 1) : seq[i] = a})
           carried == inst.cap - SumIdx(q, RouteStart(seq, k)..(k - 1))
       IN Append(q, IF a = 0 THEN 0 ELSE Min(missing, carried))

Served(inst, seq, q, j) == SumIdx(q, {i \in DOMAIN seq : seq[i] = j})

\* the constraints of the problem: no route hands over more than one vehicle load, no
\* customer receives more than it asked for (both are stated here, although handing over
\* min(missing, carried) can violate neither: what can go wrong is an incomplete service)
NoRouteOverCap(inst, seq, q) == \A k \in DOMAIN seq : SumIdx(q, RouteStart(seq, k)..k) <= inst.cap
NoOverServing(inst, seq, q)  == \A j \in Cust(inst) : Served(inst, seq, q, j) <= inst.dem[j]

\* An empty-handed visit (the customer is already served, or the vehicle is empty) changes
\* nothing but the position of the vehicle.  The usual formulations of the problem let a
\* vehicle pass a customer without unloading (it is merely never useful), so by default
\* such a visit is PRUNED (Pointless), not a violation.  Set the switch to TRUE to make
\* "every visit hands over a positive quantity" a constraint of the problem instead.
EmptyHandedVisitIsViolation == FALSE
EveryVisitDelivers(seq, q) == \A k \in DOMAIN seq : seq[k] # 0 => q[k] >= 1

PrefixOK(inst, pre) ==
  /\ \A k \in DOMAIN pre : pre[k] \in Actions(inst)
  /\ LET q == Plan(inst, pre) IN
       /\ NoRouteOverCap(inst, pre, q)
       /\ NoOverServing(inst, pre, q)
       /\ (EmptyHandedVisitIsViolation => EveryVisitDelivers(pre, q))

\* every customer's demand fully served
Complete(inst, pre) ==
  (\A k \in DOMAIN pre : pre[k] \in Actions(inst)) /\
  LET q == Plan(inst, pre) IN \A j \in Cust(inst) : Served(inst, pre, q, j) = inst.dem[j]

Feasible(inst, sol) == PrefixOK(inst, sol) /\ Complete(inst, sol)

\* reward units: minus the closed tour depot -> sol -> depot
Objective(inst, sol) == 0 - CycleLen(inst.D, <<0>> \o sol)

\* documented pruning: moves that deliver nothing and change nothing -- staying at the depot
\* (CVRP-style), and a visit that would hand over nothing ("the vehicle cannot visit
\* customers exceed the remaining capacity", served customers are closed)
Pointless(inst, pre, a) ==
  \/ a = 0 /\ Prev(pre) = 0
  \/ a # 0 /\ Last(Plan(inst, Append(pre, a))) = 0

\* C02: two steps per customer plus one, one more pair per vehicle load
Loads(inst) == (SumSeq(inst.dem) + inst.cap - 1) \div inst.cap
StepBound(inst) == 2 * inst.N + 1 + 2 * Loads(inst)
PadNeeded(inst) == TRUE
StepOK(inst, pre, st)   == TRUE
FinalOK(inst, sol, fin) == TRUE

(* ------------------- PART 2: implementation model ----------------------- *)
\* state of SDVRPEnv: demand_with_depot (remaining demand, entry 0 stays 0), current_node,
\* used_capacity
Init0(inst) == [rem |-> [j \in Cust(inst) |-> inst.dem[j]], cur |-> 0, used |-> 0]

\* get_action_mask: (demand_with_depot[..., 1:] == 0) | (used_capacity >= vehicle_capacity)
MaskLoc(inst, s, j) == s.rem[j] = 0 \/ s.used >= inst.cap              \* TRUE = hidden
MaskDepot(inst, s)  == s.cur = 0 /\ \E j \in Cust(inst) : ~MaskLoc(inst, s, j)

Mask(inst, s) == {j \in Cust(inst) : ~MaskLoc(inst, s, j)}
                 \cup (IF MaskDepot(inst, s) THEN {} ELSE {0})

\* _step: delivered = min(selected demand, capacity - used); the depot entry of the demand is 0
Delivered(inst, s, a) == Min(IF a = 0 THEN 0 ELSE s.rem[a], inst.cap - s.used)

Step(inst, s, a) ==
  LET d == Delivered(inst, s, a) IN
  [rem  |-> IF a = 0 THEN s.rem ELSE [s.rem EXCEPT ![a] = @ - d],
   cur  |-> a,
   used |-> IF a = 0 THEN 0 ELSE s.used + d]

\* QUIRK _step: done = no positive demand left -- the return to the depot is NOT part of
\* `done` (CVRPEnv waits for the depot bit; the class doc string says "and returned to the depot")
DoneWithoutReturn(inst, s) == \A j \in Cust(inst) : s.rem[j] <= 0
Done(inst, s) == DoneWithoutReturn(inst, s)

\* CVRPEnv._get_reward (inherited): depot prepended, roll(-1) closes the tour
RewardM(inst, s, hist) == 0 - CycleLen(inst.D, <<0>> \o hist)

ConfState(inst, s, st) ==
  /\ st.cur = s.cur /\ st.used = s.used
  /\ \A j \in Cust(inst) : st.rem[j] = s.rem[j]
  /\ st.rem0 = 0                                   \* the depot entry of demand_with_depot

PadAction(inst) == 0
=============================================================================
