------------------------------- MODULE MTVRP -------------------------------
(* Multi-task vehicle routing (16 variants expressed as DATA).
   inst = [N, D, lh, bh, cap, open, lim, H, early, late, svc, speed2]
     customers 1..N, depot 0, integer metric distance matrix D (read with Dist),
     lh[j] / bh[j]   linehaul (delivery) / backhaul (pickup) quantity of customer j,
                     exactly one of the two is positive,
     cap             vehicle capacity (applies to the delivered and to the collected load),
     open            TRUE: routes end at their last customer (O variants),
     lim             route length limit; INF = no limit (variants without L),
     H               end of the depot window [0, H]; INF without time windows,
     early/late/svc  service window and service duration of customer j (1..N);
                     trivial window [0, INF], svc 0 in the variants without TW.
     speed2          twice the vehicle speed (2 = the default speed 1): driving i -> j takes
                     2 * D[i][j] / speed2 time units (must be integral).
   All vehicles leave the depot at time 0.
   PART 1 is the problem as defined independently of rl4co (the oracle);
   PART 2 is a code-shaped model of rl4co.envs.routing.mtvrp.MTVRPEnv.        *)
EXTENDS Util

INF == 1000000          \* stands for float("inf") in distance_limit / window ends

Cust(inst)    == 1..inst.N
Actions(inst) == 0..inst.N

IsLine(inst, j) == inst.lh[j] > 0
IsBack(inst, j) == inst.bh[j] > 0

\* driving time (distance / speed)
Travel(inst, i, j) == (2 * Dist(inst.D, i, j)) \div inst.speed2

Metric(D, n) == \A i, j, k \in 0..n : Dist(D, i, k) <= Dist(D, i, j) + Dist(D, j, k)

\* What a generator must deliver: one kind of demand per customer, fitting a vehicle;
\* proper windows; a metric; every customer can be served alone by a fresh vehicle
\* (there and, for closed routes, back) within window, horizon and length limit.
\* MTVRPGenerator delivers more slack than this: early[j] >= travel(0,j), late[j] > early[j],
\* late[j] + svc[j] + travel(j,0) <= H (open routes too) and 2 d(0,j) < lim; hence the strict
\* `<` for the lone round trip and the last conjunct (which the env's checker asserts as a
\* precondition for every row, open or not) are part of what a generator delivers.
InstanceOK(inst) ==
  /\ inst.N >= 1 /\ inst.cap >= 1 /\ inst.speed2 >= 1
  /\ Metric(inst.D, inst.N)
  /\ \A i, j \in 0..inst.N : (2 * Dist(inst.D, i, j)) % inst.speed2 = 0
  /\ \A j \in Cust(inst) :
       /\ (IsLine(inst, j) /\ inst.bh[j] = 0) \/ (IsBack(inst, j) /\ inst.lh[j] = 0)
       /\ inst.lh[j] + inst.bh[j] <= inst.cap
       /\ 0 <= inst.early[j] /\ inst.early[j] < inst.late[j] /\ inst.svc[j] >= 0
       /\ Travel(inst, 0, j) < inst.late[j]
       /\ Dist(inst.D, 0, j) + (IF inst.open THEN 0 ELSE Dist(inst.D, j, 0)) <= inst.lim
       /\ ~inst.open => Max(Travel(inst, 0, j), inst.early[j]) + inst.svc[j] + Travel(inst, j, 0) < inst.H
       /\ inst.early[j] + inst.svc[j] + Travel(inst, j, 0) <= inst.H

(* ------------------------- PART 1: ground truth ------------------------- *)
\* One route r = the customers one vehicle serves, in order, starting from the depot at 0.
LineLoad(inst, r) == SumSeq([k \in DOMAIN r |-> inst.lh[r[k]]])
BackLoad(inst, r) == SumSeq([k \in DOMAIN r |-> inst.bh[r[k]]])

\* Backhaul rule implemented by the environment (its docstring): within a route every
\* linehaul customer precedes every backhaul customer.  The textbook VRPB (Goetschalckx and
\* Jacobs-Blecha 1989, Toth and Vigo 1997) demands in addition that no route consists of
\* backhaul customers only; MTVRP (like PyVRP / RouteFinder) does not, so neither does the
\* oracle.  The vehicle leaves with all deliveries on board and is empty when the first
\* pickup is made, hence two separate capacity conditions.
LineBeforeBack(inst, r) ==
  \A i, k \in DOMAIN r : (i < k) => ~(IsBack(inst, r[i]) /\ IsLine(inst, r[k]))

\* service start at the k-th customer of the route: wait for the window to open
RECURSIVE ServiceStart(_, _, _)
ServiceStart(inst, r, k) ==
  LET arrive == IF k = 1 THEN Travel(inst, 0, r[1])
                ELSE ServiceStart(inst, r, k - 1) + inst.svc[r[k - 1]] + Travel(inst, r[k - 1], r[k])
  IN Max(arrive, inst.early[r[k]])

LeaveLast(inst, r) == ServiceStart(inst, r, Len(r)) + inst.svc[Last(r)]

\* a closed route is charged (length and time) for the leg back to the depot, an open one is not
RouteLength(inst, r) == PathLen(inst.D, <<0>> \o r)
                        + (IF inst.open THEN 0 ELSE Dist(inst.D, Last(r), 0))

RouteOK(inst, r) ==
  /\ LineLoad(inst, r) <= inst.cap
  /\ BackLoad(inst, r) <= inst.cap
  /\ LineBeforeBack(inst, r)
  /\ \A k \in DOMAIN r : ServiceStart(inst, r, k) <= inst.late[r[k]]     \* service starts inside the window
  /\ RouteLength(inst, r) <= inst.lim
  /\ ~inst.open => LeaveLast(inst, r) + Travel(inst, Last(r), 0) <= inst.H   \* back before the depot closes

\* nothing violated so far.  The route being driven is judged like a finished one (for a
\* closed route: including the way home); D is a metric and waiting is allowed, so a
\* route whose prefix cannot get home in time / within the limit cannot be repaired later.
PrefixOK(inst, pre) ==
  /\ \A k \in DOMAIN pre : pre[k] \in Actions(inst)
  /\ \A j \in Cust(inst) : Count(pre, j) <= 1
  /\ \A r \in ToSetU(Routes(pre)) : RouteOK(inst, r)

Complete(inst, pre) == \A j \in Cust(inst) : Count(pre, j) = 1
Feasible(inst, sol) == PrefixOK(inst, sol) /\ Complete(inst, sol)

\* reward units: minus the total length; open routes are not charged for the return
RECURSIVE SumRouteLength(_, _)
SumRouteLength(inst, rs) == IF rs = <<>> THEN 0
                            ELSE RouteLength(inst, Head(rs)) + SumRouteLength(inst, Tail(rs))
Objective(inst, sol) == 0 - SumRouteLength(inst, Routes(sol))

\* documented pruning: staying at the depot
Pointless(inst, pre, a) == a = 0 /\ Prev(pre) = 0

StepBound(inst) == 2 * inst.N + 1
PadNeeded(inst) == TRUE

\* no routing property speaks about the bookkeeping tensors themselves (current_time,
\* current_route_length, used capacities): they are compared with the model by ConfState
StepOK(inst, pre, st)   == TRUE
FinalOK(inst, sol, fin) == TRUE

(* ------------------- PART 2: implementation model ----------------------- *)
\* state of MTVRPEnv: visited (incl. the depot bit), current_node, current_time,
\* current_route_length, used_capacity_linehaul, used_capacity_backhaul
Init0(inst) == [visited |-> {}, cur |-> 0, t |-> 0, len |-> 0, ulh |-> 0, ubh |-> 0]

Arrival(inst, s, j) == s.t + Travel(inst, s.cur, j)               \* current_time + d_ij / speed

\* get_action_mask `can_reach_customer = arrival_time <= late_tw` (since the fix "MTVRP time-window mask offers
\* arrivals exactly at the window end"; STRICT before, whereas checker and problem accept arrival = late)
CanReachCustomer(inst, s, j) == Arrival(inst, s, j) <= inst.late[j]

\* `(max(arrival, early) + service + d_j0) * ~open_route <= late_tw[..., 0:1]` (non-strict since the fix "MTVRP
\* time-window mask offers arrivals exactly at the window end"; both sites were strict before);
\* an open route multiplies the left side by 0, i.e. the test degenerates to 0 <= H
CanReachDepot(inst, s, j) ==
  (IF inst.open THEN 0
   ELSE Max(Arrival(inst, s, j), inst.early[j]) + inst.svc[j] + Travel(inst, j, 0)) <= inst.H

\* `current_route_length + d_ij + d_j0 * ~open_route > distance_limit` (non-strict acceptance;
\* the limit is on DISTANCE: speed plays no role here)
ExceedsDistLimit(inst, s, j) ==
  s.len + Dist(inst.D, s.cur, j) + (IF inst.open THEN 0 ELSE Dist(inst.D, j, 0)) > inst.lim

\* QUIRK `linehauls_missing` is computed over the WHOLE instance, not the route; for an
\* unvisited linehaul customer j it is trivially TRUE (j itself is missing): a no-op clause
LinehaulsMissing(inst, s) == \E k \in Cust(inst) : inst.lh[k] > 0 /\ k \notin s.visited

\* `is_carrying_backhaul` looks only at the CURRENT node's backhaul demand (depot has none)
IsCarryingBackhaul(inst, s) == s.cur # 0 /\ inst.bh[s.cur] > 0

ExceedsCapLinehaul(inst, s, j) == inst.lh[j] + s.ulh > inst.cap
ExceedsCapBackhaul(inst, s, j) == inst.bh[j] + s.ubh > inst.cap

MeetsDemandConstraint(inst, s, j) ==
  \/ (LinehaulsMissing(inst, s) /\ ~ExceedsCapLinehaul(inst, s, j)
        /\ ~IsCarryingBackhaul(inst, s) /\ inst.lh[j] > 0)
  \/ (~ExceedsCapBackhaul(inst, s, j) /\ inst.bh[j] > 0)

CanVisit(inst, s, j) ==
  /\ CanReachCustomer(inst, s, j)
  /\ CanReachDepot(inst, s, j)
  /\ MeetsDemandConstraint(inst, s, j)
  /\ ~ExceedsDistLimit(inst, s, j)
  /\ j \notin s.visited

\* depot column: hidden only when standing at the depot with a customer on offer;
\* from a customer the depot is ALWAYS offered (the look-ahead above keeps that safe)
MaskDepot(inst, s) == s.cur = 0 /\ \E j \in Cust(inst) : CanVisit(inst, s, j)

Mask(inst, s) == {j \in Cust(inst) : CanVisit(inst, s, j)}
                 \cup (IF MaskDepot(inst, s) THEN {} ELSE {0})

\* _step: every accumulator is multiplied by (action != 0), i.e. reset at the depot
Step(inst, s, a) ==
  [visited |-> s.visited \cup {a},
   cur     |-> a,
   t       |-> IF a = 0 THEN 0
               ELSE Max(s.t + Travel(inst, s.cur, a), inst.early[a]) + inst.svc[a],
   len     |-> IF a = 0 THEN 0 ELSE s.len + Dist(inst.D, s.cur, a),
   ulh     |-> IF a = 0 THEN 0 ELSE s.ulh + inst.lh[a],
   ubh     |-> IF a = 0 THEN 0 ELSE s.ubh + inst.bh[a]]

Done(inst, s) == s.visited = 0..inst.N            \* `visited.sum(-1) == visited.size(-1)`: depot bit included

\* _get_reward: go_from = [0] ++ actions, go_to = roll(go_from, -1); a leg is dropped
\* iff it ENDS at the depot and the route is open
RewardM(inst, s, hist) ==
  LET from == <<0>> \o hist
      n    == Len(from)
      to   == [k \in 1..n |-> IF k < n THEN from[k + 1] ELSE from[1]]
  IN 0 - SumSeq([k \in 1..n |-> IF to[k] = 0 /\ inst.open THEN 0
                                  ELSE Dist(inst.D, from[k], to[k])])

ConfState(inst, s, st) ==
  /\ st.cur = s.cur /\ st.t = s.t /\ st.len = s.len
  /\ st.ulh = s.ulh /\ st.ubh = s.ubh
  /\ ToSetU(st.visited) = s.visited

PadAction(inst) == 0
=============================================================================
