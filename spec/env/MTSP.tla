------------------------------- MODULE MTSP -------------------------------
(* Multiple travelling salesmen.
   inst = [N, m, D, variant]: customers 1..N, depot 0, integer distance matrix D
   (read with Dist), m salesmen (agents), variant "minmax" | "sum".
   An action sequence lists the customers in visiting order; a 0 sends the
   current salesman home and starts the next one (the maximal 0-free segments
   are the sub-tours, every sub-tour starts and ends at the depot).
   PART 1 is the problem as defined independently of rl4co (the oracle);
   PART 2 is a code-shaped model of rl4co.envs.routing.mtsp.MTSPEnv.          *)
EXTENDS Util

Cust(inst)    == 1..inst.N
Actions(inst) == 0..inst.N
InstanceOK(inst) == inst.N >= 1 /\ inst.m >= 1 /\ inst.variant \in {"minmax", "sum"}

(* ------------------------- PART 1: ground truth ------------------------- *)
\* closed sub-tour depot -> r -> depot
TourLen(inst, r) == CycleLen(inst.D, <<0>> \o r)
TourLens(inst, sol) == [k \in DOMAIN Routes(sol) |-> TourLen(inst, Routes(sol)[k])]

\* nothing violated so far: no customer twice, no more sub-tours than salesmen
PrefixOK(inst, pre) ==
  /\ \A k \in DOMAIN pre : pre[k] \in Actions(inst)
  /\ \A j \in Cust(inst) : Count(pre, j) <= 1
  /\ Len(Routes(pre)) <= inst.m

Complete(inst, pre) == \A j \in Cust(inst) : Count(pre, j) = 1
Feasible(inst, sol) == PrefixOK(inst, sol) /\ Complete(inst, sol)

\* reward units: minus the longest sub-tour (minmax) / minus the sum of all sub-tours (sum);
\* depot visits that separate no customers (padding) do not change it
Objective(inst, sol) ==
  IF Routes(sol) = <<>> THEN 0
  ELSE IF inst.variant = "minmax" THEN 0 - MaxSeq(TourLens(inst, sol))
  ELSE 0 - SumSeq(TourLens(inst, sol))

\* documented pruning: a salesman that leaves the depot for the depot (empty sub-tour)
Pointless(inst, pre, a) == a = 0 /\ Prev(pre) = 0

StepBound(inst) == inst.N + inst.m - 1     \* every customer once + at most m-1 returns in between
PadNeeded(inst) == TRUE                    \* episodes with fewer sub-tours finish earlier
StepOK(inst, pre, st)   == TRUE
FinalOK(inst, sol, fin) == TRUE

(* ------------------- PART 2: implementation model ----------------------- *)
\* state of MTSPEnv: action_mask (stored, updated incrementally), current_node, agent_idx,
\* current_length, max_subtour_length, i, done
Init0(inst) == [mask |-> Cust(inst), cur |-> 0, agent |-> 0, clen |-> 0, mlen |-> 0,
                i |-> 0, done |-> FALSE]

Mask(inst, s) == s.mask
Done(inst, s) == s.done

\* `available[..., 0] = (current_node != 0) & (td["agent_idx"] < num_agents - 1)` -- the OLD agent_idx
DepotOpen(inst, s, a) == a # 0 /\ s.agent < inst.m - 1

\* MTSPEnv._step "Update the current length": dist(cur, prev) is added on every step of a RUNNING
\* episode (since the fix "mTSP does not accumulate tour length on post-finish padding steps"; before,
\* the first post-finish depot step re-added the return leg and could raise max_subtour_length).
LenAfter(inst, s, a, dn) == s.clen + (IF s.done THEN 0 ELSE Dist(inst.D, a, s.cur))
                                   + (IF dn THEN Dist(inst.D, a, 0) ELSE 0)

Step(inst, s, a) ==
  LET left == (s.mask \ {a}) \ {0}
      dn   == left = {}                                   \* count_nonzero(available[..., 1:]) == 0
      cl   == LenAfter(inst, s, a, dn)
  IN [mask  |-> left \cup (IF DepotOpen(inst, s, a) \/ dn THEN {0} ELSE {}),
      cur   |-> a,
      agent |-> s.agent + (IF a = 0 THEN 1 ELSE 0),
      clen  |-> IF a = 0 THEN 0 ELSE cl,                  \* reset when the agent changes
      mlen  |-> Max(s.mlen, cl),
      i     |-> s.i + 1,
      done  |-> dn]

\* MTSPEnv._get_reward, cost_type "sum": the closed cycle depot -> actions -> depot (since the fix
\* "mTSP sum-cost reward is the closed tour from the depot through all actions").
SumRewardAsTSP(inst, hist) == 0 - CycleLen(inst.D, <<0>> \o hist)

RewardM(inst, s, hist) == IF inst.variant = "minmax" THEN 0 - s.mlen ELSE SumRewardAsTSP(inst, hist)

ConfState(inst, s, st) == /\ st.cur = s.cur /\ st.agent = s.agent /\ st.i = s.i
                          /\ st.clen = s.clen /\ st.mlen = s.mlen

PadAction(inst) == 0

\* rl4co.utils.ops.select_start_nodes for environments with a depot: start j of an instance is customer (j mod N) + 1
StartNode(inst, j) == (j % inst.N) + 1
=============================================================================
